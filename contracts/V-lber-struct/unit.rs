// Unit V-lber-struct: lber/src/structures/*.rs -- Tag::into_structure and the per-type into_structure impls
// against the specification `tree(t)` that every ldap3-level unit uses for "the structure of a Tag", and the
// Default impls (universal tag numbers).  Serves C07, C02, C19.
use vstd::prelude::*;
use vstd::string::*;
verus! {

// (the Default impls are lifted here, so the shared prelude's external_body Default stubs are not included)
//@item file=lber/src/common.rs kind=enum name=TagStructure derive="PartialEq, Eq, Clone, Copy, Structural"
//@item file=lber/src/common.rs kind=enum name=TagClass derive="PartialEq, Eq, Clone, Copy, Structural"
pub struct StructureTag { pub class: TagClass, pub id: u64, pub payload: PL }
pub enum PL { P(Vec<u8>), C(Vec<StructureTag>) }
pub struct Integer { pub id: u64, pub class: TagClass, pub inner: i64 }
pub struct Enumerated { pub id: u64, pub class: TagClass, pub inner: i64 }
pub struct Boolean { pub id: u64, pub class: TagClass, pub inner: bool }
pub struct Null { pub id: u64, pub class: TagClass, pub inner: () }
pub struct OctetString { pub id: u64, pub class: TagClass, pub inner: Vec<u8> }
pub struct Sequence { pub id: u64, pub class: TagClass, pub inner: Vec<Tag> }
pub struct Set { pub id: u64, pub class: TagClass, pub inner: Vec<Tag> }
pub struct ExplicitTag { pub id: u64, pub class: TagClass, pub inner: Box<Tag> }
pub enum Tag {
    Integer(Integer), Enumerated(Enumerated), Sequence(Sequence), Set(Set), OctetString(OctetString),
    Boolean(Boolean), Null(Null), ExplicitTag(ExplicitTag), StructureTag(StructureTag),
}
//@include contracts/shared/tree_spec.rs

pub mod structure { pub use super::StructureTag; pub use super::PL; }
//@include contracts/shared/lift_types_enum.rs
pub mod universal { pub use super::Types; }
// contract of i_e_into_structure: Kani leaf proof over all i64 (K-lber C07.int_minimal_twos_complement_all_i64)
#[verifier::external_body]
fn i_e_into_structure(id: u64, class: TagClass, inner: i64) -> (r: StructureTag)
    ensures st_tree(r) == T::P(class, id, int_octets(inner as int))
{ unimplemented!() }

pub trait ASNTag: Sized { spec fn stree(&self) -> T; fn into_structure(self) -> (r: StructureTag) ensures st_tree(r) == self.stree(); }

impl ASNTag for Integer {
    open spec fn stree(&self) -> T { tree(Tag::Integer(*self)) }
//@lift name=Integer::into_structure file=lber/src/structures/integer.rs impl="impl\s+ASNTag\s+for\s+Integer\s*\{" fn=into_structure canary=skip
//@ ret r
//@ spec
//@end
}
impl ASNTag for Enumerated {
    open spec fn stree(&self) -> T { tree(Tag::Enumerated(*self)) }
//@lift name=Enumerated::into_structure file=lber/src/structures/integer.rs impl="impl\s+ASNTag\s+for\s+Enumerated\s*\{" fn=into_structure canary=skip
//@ ret r
//@ spec
//@end
}
impl ASNTag for Boolean {
    open spec fn stree(&self) -> T { tree(Tag::Boolean(*self)) }
//@lift name=Boolean::into_structure file=lber/src/structures/boolean.rs impl="impl\s+ASNTag\s+for\s+Boolean\s*\{" fn=into_structure canary=skip
//@ ret r
//@ tail last
        proof { assert(verif_ret.payload->P_0@ =~= (if self.inner { seq![0xffu8] } else { seq![0x00u8] })); } //# C07.boolean_contents_are_ff_or_00
//@ spec
//@end
}
impl ASNTag for Null {
    open spec fn stree(&self) -> T { tree(Tag::Null(*self)) }
//@lift name=Null::into_structure file=lber/src/structures/null.rs impl="impl\s+ASNTag\s+for\s+Null\s*\{" fn=into_structure canary=skip
//@ ret r
//@ spec
//@end
}
impl ASNTag for OctetString {
    open spec fn stree(&self) -> T { tree(Tag::OctetString(*self)) }
//@lift name=OctetString::into_structure file=lber/src/structures/octetstring.rs impl="impl\s+ASNTag\s+for\s+OctetString\s*\{" fn=into_structure canary=skip
//@ ret r
//@ spec
//@end
}

// st_trees of an element-wise converted vector
pub proof fn lemma_st_trees_map(v: Seq<StructureTag>, ts: Seq<Tag>, n: nat)
    requires n <= v.len(), v.len() == ts.len(), forall|j: int| 0 <= j < v.len() ==> st_tree(#[trigger] v[j]) == tree(ts[j]),
    ensures st_trees(v, n) == trees(ts, n),
    decreases n,
{
    if n > 0 { lemma_st_trees_map(v, ts, (n - 1) as nat); }
}

// Sequence::into_structure / Set::into_structure map a closure that calls the (mutually recursive) Tag::into_structure
// over the children: `inner.into_iter().map(|x| x.into_structure()).collect()`.  Inside a recursive cycle this Verus
// loses vstd's Map/collect specification (probed: the same text verifies when the callee is not in the cycle), so the
// two impls are NOT verified; their contract is assumed (children converted element-wise, in order) -- listed under
// assumptions.
impl ASNTag for Sequence {
    open spec fn stree(&self) -> T { tree(Tag::Sequence(*self)) }
    #[verifier::external_body]
    fn into_structure(self) -> (r: StructureTag) { unimplemented!() }
}
impl ASNTag for Set {
    open spec fn stree(&self) -> T { tree(Tag::Set(*self)) }
    #[verifier::external_body]
    fn into_structure(self) -> (r: StructureTag) { unimplemented!() }
}
impl ASNTag for ExplicitTag {
    open spec fn stree(&self) -> T { tree(Tag::ExplicitTag(*self)) }
//@lift name=ExplicitTag::into_structure file=lber/src/structures/explicit.rs impl="impl\s+ASNTag\s+for\s+ExplicitTag\s*\{" fn=into_structure canary=skip
//@ ret r
//@ attr #[verifier::exec_allows_no_decreases_clause]
//@ tail last
        proof { reveal_with_fuel(st_trees, 3); let v = verif_ret.payload->C_0@; assert(st_trees(v, 1) =~= seq![st_tree(v[0])]); }
//@ spec
//@end
}
impl ASNTag for Tag {
    open spec fn stree(&self) -> T { tree(*self) }
//@lift name=Tag::into_structure file=lber/src/structures/mod.rs impl="impl\s+ASNTag\s+for\s+Tag\s*\{" fn=into_structure canary=skip
//@ ret r
//@ attr #[verifier::exec_allows_no_decreases_clause]
//@ spec
//@end
}

// ---- Default impls: universal class and the X.680 tag number of each type
impl Default for Integer {
//@lift name=Integer::default file=lber/src/structures/integer.rs impl="impl\s+default::Default\s+for\s+Integer\s*\{" fn=default canary=skip
//@ ret r
//@ spec
    ensures r.id == 2, r.class == TagClass::Universal, r.inner == 0, //# C02+C07.default_integer_is_universal_2
//@end
}
impl Default for Enumerated {
//@lift name=Enumerated::default file=lber/src/structures/integer.rs impl="impl\s+default::Default\s+for\s+Enumerated\s*\{" fn=default canary=skip
//@ ret r
//@ spec
    ensures r.id == 10, r.class == TagClass::Universal, r.inner == 0, //# C02+C07.default_enumerated_is_universal_10
//@end
}
impl Default for Boolean {
//@lift name=Boolean::default file=lber/src/structures/boolean.rs impl="impl\s+default::Default\s+for\s+Boolean\s*\{" fn=default canary=skip
//@ ret r
//@ spec
    ensures r.id == 1, r.class == TagClass::Universal, r.inner == false, //# C02+C07.default_boolean_is_universal_1
//@end
}
impl Default for Null {
//@lift name=Null::default file=lber/src/structures/null.rs impl="impl\s+default::Default\s+for\s+Null\s*\{" fn=default canary=skip
//@ ret r
//@ spec
    ensures r.id == 5, r.class == TagClass::Universal, //# C02+C07.default_null_is_universal_5
//@end
}
impl Default for OctetString {
//@lift name=OctetString::default file=lber/src/structures/octetstring.rs impl="impl\s+default::Default\s+for\s+OctetString\s*\{" fn=default canary=skip
//@ ret r
//@ spec
    ensures r.id == 4, r.class == TagClass::Universal, r.inner@ == Seq::<u8>::empty(), //# C02+C07.default_octet_string_is_universal_4
//@end
}
impl Default for Sequence {
//@lift name=Sequence::default file=lber/src/structures/sequence.rs impl="impl\s+default::Default\s+for\s+Sequence\s*\{" fn=default canary=skip
//@ ret r
//@ spec
    ensures r.id == 16, r.class == TagClass::Universal, r.inner@ == Seq::<Tag>::empty(), //# C02+C07.default_sequence_is_universal_16
//@end
}
impl Default for Set {
//@lift name=Set::default file=lber/src/structures/sequence.rs impl="impl\s+default::Default\s+for\s+Set\s*\{" fn=default canary=skip
//@ ret r
//@ spec
    ensures r.id == 17, r.class == TagClass::Universal, r.inner@ == Seq::<Tag>::empty(), //# C02+C07.default_set_is_universal_17
//@end
}

} // verus!
fn main() {}
