// Unit V-codecs: request-side control and extended-operation codecs (src/controls_impl/*.rs, src/exop_impl/*.rs,
// src/exop_impl.rs) at TREE level: for every request struct the emitted OID (the repo's constant, lifted, compared
// with the OID literal of the defining RFC), criticality, and value = ber(tree prescribed by the RFC), "modulo the
// lber contract" (encode_into appends ber of the structure: V-lber-enc; Tag::into_structure == tree: V-lber-struct).
// Response parsers PagedResults / SyncState / PasswordModifyResp / WhoAmIResp at tree level against the parser's
// contract (parse_tag returns the tree whose encoding the value is).  Serves C19 (and C02 for construct_exop).
use vstd::prelude::*;
use vstd::string::*;
use std::collections::HashSet;
use vstd::std_specs::iter::IteratorSpec;
verus! {

//@include contracts/shared/lber_types.rs
//@include contracts/shared/tree_spec.rs
//@include contracts/shared/std_specs.rs
//@include contracts/shared/utf8_specs.rs
//@include contracts/shared/lift_structure_tag.rs

//@item file=src/controls_impl.rs kind=struct name=RawControl
//@item file=src/exop_impl.rs kind=struct name=Exop
//@include contracts/shared/lift_types_enum.rs

pub trait ASNTag { spec fn stree(&self) -> T; fn into_structure(self) -> (r: StructureTag) ensures st_tree(r) == self.stree(); }
impl ASNTag for Tag {
    open spec fn stree(&self) -> T { tree(*self) }
    #[verifier::external_body]
    fn into_structure(self) -> (r: StructureTag) { unimplemented!() }
}
#[verifier::external_body]
pub struct BytesMut { _p: u8 }
impl BytesMut {
    pub uninterp spec fn view(&self) -> Seq<u8>;
    #[verifier::external_body]
    pub fn with_capacity(n: usize) -> (b: BytesMut) ensures b.view() == Seq::<u8>::empty() { unimplemented!() }
    #[verifier::external_body]
    pub fn new() -> (b: BytesMut) ensures b.view() == Seq::<u8>::empty() { unimplemented!() }
}
// idiom: `Vec::from(&buf[..])` on a BytesMut (recorded substitution) = the buffer's bytes
#[verifier::external_body]
pub fn verif_bytes_of(b: &BytesMut) -> (v: Vec<u8>) ensures v@ == b.view() { unimplemented!() }
pub mod io {
    pub struct Error { pub k: u8 }
    impl core::fmt::Debug for Error { #[verifier::external_body] fn fmt(&self, f: &mut core::fmt::Formatter<'_>) -> core::fmt::Result { unimplemented!() } }
    pub type Result<T> = core::result::Result<T, Error>;
}
pub mod write {
    use super::*;
    // contract of lber::write::encode_into: V-lber-enc C07+C02.encode_into_appends_ber_of_the_tree
    #[verifier::external_body]
    pub fn encode_into(buf: &mut BytesMut, tag: StructureTag) -> (r: io::Result<()>)
        ensures r is Ok, final(buf).view() == old(buf).view() + ber_t(st_tree(tag))
    { unimplemented!() }
}
pub assume_specification [String::into_bytes] (s: String) -> (v: Vec<u8>) ensures v@ == utf8_encode(s@);
pub uninterp spec fn str_bytes(s: Seq<char>) -> Seq<u8>;
pub broadcast axiom fn ax_str_bytes(s: &str) ensures #[trigger] s.spec_bytes() == str_bytes(s@);

// ======================================================================= controls (requests)
//@const file=src/controls_impl/paged_results.rs name=PAGED_RESULTS_OID
//@item file=src/controls_impl/paged_results.rs kind=struct name=PagedResults
// RFC 2696: realSearchControlValue ::= SEQUENCE { size INTEGER, cookie OCTET STRING }, OID 1.2.840.113556.1.4.319
//@lift name=From<PagedResults>::from file=src/controls_impl/paged_results.rs impl="impl\s+From<PagedResults>\s+for\s+RawControl\s*\{" fn=from
//@ sub "fn from(pr: PagedResults) -> RawControl" => "fn paged_results_into_raw(pr: PagedResults) -> RawControl"
//@ sub "Vec::from(&buf[..])" => "verif_bytes_of(&buf)"
// (method chain split so that the intermediate Tag has a name the hint can mention; recorded substitutions)
//@ sub "let cval = Tag::Sequence(Sequence {" => "let cval_tag = Tag::Sequence(Sequence {"
//@ sub "        })\n        .into_structure();" => "        });\n        let ghost cval_kids = cval_tag->Sequence_0.inner@;\n        let cval = cval_tag.into_structure();"
//@ ret rc
//@ insert before "let mut buf = BytesMut::with_capacity"
        proof { tree_lemmas::lemma_trees2(cval_kids, 2); }
//@ spec
    requires pr.cookie@.len() <= usize::MAX - 16,
    ensures
        rc.ctype@ == "1.2.840.113556.1.4.319"@, //# C19.paged_results_oid_rfc2696
        rc.crit == false, //# C19.paged_results_not_critical_by_default
        rc.val matches Some(v) && v@ == ber_t(t_seq(seq![t_int(pr.size as int), t_os(pr.cookie@)])), //# C19.paged_results_value_rfc2696
//@end

//@const file=src/controls_impl/proxy_auth.rs name=PROXY_AUTH_OID
pub struct ProxyAuth { pub authzid: String }
// RFC 4370: OID 2.16.840.1.113730.3.4.18, criticality TRUE, controlValue = authzId
//@lift name=From<ProxyAuth>::from file=src/controls_impl/proxy_auth.rs impl="impl\s+From<ProxyAuth>\s+for\s+RawControl\s*\{" fn=from
//@ sub "fn from(pa: ProxyAuth) -> RawControl" => "fn proxy_auth_into_raw(pa: ProxyAuth) -> RawControl"
//@ ret rc
//@ spec
    ensures
        rc.ctype@ == "2.16.840.1.113730.3.4.18"@, //# C19.proxy_auth_oid_rfc4370
        rc.crit == true, //# C19.proxy_auth_is_critical
        rc.val matches Some(v) && v@ == utf8_encode(pa.authzid@), //# C19.proxy_auth_value_is_the_authzid
//@end

//@const file=src/controls_impl/txn.rs name=TXN_REQUEST_OID
pub struct TxnSpec<'a> { pub txn_id: &'a str }
// RFC 5805: Transaction Specification control 1.3.6.1.1.21.2, criticality TRUE, value = transaction identifier
//@lift name=From<TxnSpec>::from file=src/controls_impl/txn.rs impl="impl<'a>\s+From<TxnSpec<'a>>\s+for\s+RawControl\s*\{" fn=from
//@ sub "fn from(txn: TxnSpec) -> RawControl" => "fn txn_spec_into_raw(txn: TxnSpec) -> RawControl"
//@ ret rc
//@ spec
    ensures
        rc.ctype@ == "1.3.6.1.1.21.2"@, //# C19.txn_spec_oid_rfc5805
        rc.crit == true, //# C19.txn_spec_is_critical
        rc.val matches Some(v) && v@ == txn.txn_id.spec_bytes(), //# C19.txn_spec_value_is_the_identifier
//@end

//@const file=src/controls_impl/manage_dsa_it.rs name=MANAGE_DSA_IT_OID
pub struct ManageDsaIt;
// RFC 3296: 2.16.840.1.113730.3.4.2, no value
//@lift name=From<ManageDsaIt>::from file=src/controls_impl/manage_dsa_it.rs impl="impl\s+From<ManageDsaIt>\s+for\s+RawControl\s*\{" fn=from
//@ sub "fn from(_mdi: ManageDsaIt) -> RawControl" => "fn manage_dsa_it_into_raw(_mdi: ManageDsaIt) -> RawControl"
//@ ret rc
//@ spec
    ensures rc.ctype@ == "2.16.840.1.113730.3.4.2"@, rc.crit == false, rc.val is None, //# C19.manage_dsa_it_rfc3296
//@end

//@const file=src/controls_impl/relax_rules.rs name=RELAX_RULES_OID
pub struct RelaxRules;
//@lift name=From<RelaxRules>::from file=src/controls_impl/relax_rules.rs impl="impl\s+From<RelaxRules>\s+for\s+RawControl\s*\{" fn=from
//@ sub "fn from(_rr: RelaxRules) -> RawControl" => "fn relax_rules_into_raw(_rr: RelaxRules) -> RawControl"
//@ ret rc
//@ spec
    ensures rc.ctype@ == "1.3.6.1.4.1.4203.666.5.12"@, rc.crit == false, rc.val is None, //# C19.relax_rules_oid_no_value
//@end

// CriticalControl only flips the criticality
pub struct CriticalControl<X> { pub control: X }
pub trait IntoRaw { spec fn as_raw(&self) -> RawControl; fn into(self) -> (r: RawControl) ensures r == self.as_raw(); }
//@lift name=From<CriticalControl>::from file=src/controls_impl.rs impl="impl<T>\s+From<CriticalControl<T>>\s+for\s+RawControl" fn=from
//@ sub "fn from(cc: CriticalControl<T>) -> RawControl" => "fn critical_into_raw<X: IntoRaw>(cc: CriticalControl<X>) -> RawControl"
//@ ret rc
//@ spec
    ensures rc.crit == true && rc.ctype == cc.control.as_raw().ctype && rc.val == cc.control.as_raw().val, //# C19.critical_wrapper_only_sets_criticality
//@end

// ---- SyncRequest (RFC 4533 2.2): SEQUENCE { mode ENUMERATED { refreshOnly (1), refreshAndPersist (3) },
//      cookie syncCookie OPTIONAL, reloadHint BOOLEAN DEFAULT FALSE }, OID 1.3.6.1.4.1.4203.1.9.1.1
//@const file=src/controls_impl/content_sync.rs name=SYNC_REQUEST_OID
//@item file=src/controls_impl/content_sync.rs kind=enum name=RefreshMode
//@item file=src/controls_impl/content_sync.rs kind=struct name=SyncRequest
pub open spec fn mode_num(m: RefreshMode) -> int { match m { RefreshMode::RefreshOnly => 1, RefreshMode::RefreshAndPersist => 3 } }
//@lift name=From<RefreshMode>::from file=src/controls_impl/content_sync.rs impl="impl\s+From<RefreshMode>\s+for\s+i64\s*\{" fn=from
//@ sub "fn from(mode: RefreshMode) -> i64" => "fn refresh_mode_num(mode: RefreshMode) -> i64"
//@ ret r
//@ spec
    ensures r == mode_num(mode), //# C19.refresh_mode_numbers_rfc4533
//@end
pub open spec fn sync_request_tree(sr: SyncRequest) -> T {
    match sr.cookie {
        Some(c) => if sr.reload_hint { t_seq(seq![t_enum(mode_num(sr.mode)), t_os(c@), t_bool(true)]) } else { t_seq(seq![t_enum(mode_num(sr.mode)), t_os(c@)]) },
        None => if sr.reload_hint { t_seq(seq![t_enum(mode_num(sr.mode)), t_bool(true)]) } else { t_seq(seq![t_enum(mode_num(sr.mode))]) },
    }
}
//@lift name=From<SyncRequest>::from file=src/controls_impl/content_sync.rs impl="impl\s+From<SyncRequest>\s+for\s+RawControl\s*\{" fn=from
//@ sub "fn from(sr: SyncRequest) -> RawControl" => "fn sync_request_into_raw(sr: SyncRequest) -> RawControl"
//@ sub "i64::from(sr.mode)" => "refresh_mode_num(sr.mode)"
//@ sub "Vec::from(&buf[..])" => "verif_bytes_of(&buf)"
//@ ret rc
//@ insert before "let sreq = Tag::Sequence(Sequence {"
        proof {
            if tags@.len() == 1 { tree_lemmas::lemma_trees1(tags@, 1); } else if tags@.len() == 2 { tree_lemmas::lemma_trees2(tags@, 2); } else { tree_lemmas::lemma_trees3(tags@, 3); }
        }
//@ spec
    requires sr.cookie matches Some(c) ==> c@.len() <= usize::MAX - 16,
    ensures
        rc.ctype@ == "1.3.6.1.4.1.4203.1.9.1.1"@, //# C19.sync_request_oid_rfc4533
        rc.crit == false,
        rc.val matches Some(v) && v@ == ber_t(sync_request_tree(sr)), //# C19.sync_request_value_rfc4533
//@end

// ======================================================================= extended operations (requests)
//@lift name=construct_exop file=src/exop_impl.rs fn=construct_exop
//@ ret r
//@ insert before "    seq\n"
    proof { if seq@.len() == 1 { tree_lemmas::lemma_trees1(seq@, 1); } else { tree_lemmas::lemma_trees2(seq@, 2); } }
//@ spec
    requires exop.name is Some, //# C19.extended_request_needs_a_name
    ensures
        // RFC 4511 4.12: requestName [0] LDAPOID, requestValue [1] OCTET STRING OPTIONAL
        trees(r@, r@.len()) == (match exop.val {
            Some(v) => seq![t_ctx_p(0, utf8_encode(exop.name->0@)), t_ctx_p(1, v@)],
            None => seq![t_ctx_p(0, utf8_encode(exop.name->0@))] }), //# C02+C19.extended_request_name_0_value_1
//@end

//@const file=src/exop_impl/whoami.rs name=WHOAMI_OID
pub struct WhoAmI;
//@lift name=From<WhoAmI>::from file=src/exop_impl/whoami.rs impl="impl\s+From<WhoAmI>\s+for\s+Exop\s*\{" fn=from
//@ sub "fn from(_w: WhoAmI) -> Exop" => "fn whoami_into_exop(_w: WhoAmI) -> Exop"
//@ ret r
//@ spec
    ensures r.name matches Some(n) && n@ == "1.3.6.1.4.1.4203.1.11.3"@, r.val is None, //# C19.whoami_oid_rfc4532_no_value
//@end

//@const file=src/exop_impl/starttls.rs name=STARTTLS_OID
pub struct StartTLS;
//@lift name=From<StartTLS>::from file=src/exop_impl/starttls.rs impl="impl\s+From<StartTLS>\s+for\s+Exop\s*\{" fn=from
//@ sub "fn from(_s: StartTLS) -> Exop" => "fn starttls_into_exop(_s: StartTLS) -> Exop"
//@ ret r
//@ spec
    ensures r.name matches Some(n) && n@ == "1.3.6.1.4.1.1466.20037"@, r.val is None, //# C19.starttls_oid_rfc4511_no_value
//@end

// ---- PasswordModify (RFC 3062): PasswdModifyRequestValue ::= SEQUENCE { userIdentity [0] OPTIONAL, oldPasswd [1] OPTIONAL,
//      newPasswd [2] OPTIONAL }, OID 1.3.6.1.4.1.4203.1.11.1; value absent when all three are absent
//@const file=src/exop_impl/passmod.rs name=PASSMOD_OID
pub struct PasswordModify<'a> { pub user_id: Option<&'a str>, pub old_pass: Option<&'a str>, pub new_pass: Option<&'a str> }
pub open spec fn opt_ctx(id: u64, o: Option<&str>) -> Seq<T> { match o { Some(s) => seq![t_ctx_p(id, str_bytes(s@))], None => Seq::empty() } }
pub open spec fn passmod_kids(pm: PasswordModify) -> Seq<T> { opt_ctx(0, pm.user_id) + opt_ctx(1, pm.old_pass) + opt_ctx(2, pm.new_pass) }
//@lift name=From<PasswordModify>::from file=src/exop_impl/passmod.rs impl="impl<'a>\s+From<PasswordModify<'a>>\s+for\s+Exop\s*\{" fn=from
//@ sub "fn from(pm: PasswordModify<'a>) -> Exop" => "fn passmod_into_exop<'a>(pm: PasswordModify<'a>) -> Exop"
//@ sub "let mut pm_vec = vec![];" => "let mut pm_vec: Vec<Tag> = vec![];"
//@ sub "Vec::from(&buf[..])" => "verif_bytes_of(&buf)"
//@ ret r
//@ insert entry
        broadcast use ax_str_bytes;
//@ insert before-let val
        proof {
            lemma_trees_len(pm_vec@, pm_vec@.len());
            assert(trees(pm_vec@, pm_vec@.len()) =~= passmod_kids(pm)); //# C19.password_modify_children_0_1_2_rfc3062
        }
//@ spec
    ensures
        r.name matches Some(n) && n@ == "1.3.6.1.4.1.4203.1.11.1"@, //# C19.password_modify_oid_rfc3062
        passmod_kids(pm).len() == 0 ==> r.val is None, //# C19.password_modify_value_absent_when_no_field
        passmod_kids(pm).len() > 0 ==> (r.val matches Some(v) && v@ == ber_t(t_seq(passmod_kids(pm)))), //# C19.password_modify_value_rfc3062
//@end


// ---- transactions (RFC 5805): StartTxn 1.3.6.1.1.21.1 (no value); EndTxn 1.3.6.1.1.21.3,
//      txnEndReq ::= SEQUENCE { commit BOOLEAN DEFAULT TRUE, identifier OCTET STRING }
//@const file=src/exop_impl/txn.rs name=TXN_START_OID
//@const file=src/exop_impl/txn.rs name=TXN_END_OID
pub struct StartTxn;
//@lift name=From<StartTxn>::from file=src/exop_impl/txn.rs impl="impl\s+From<StartTxn>\s+for\s+Exop\s*\{" fn=from
//@ sub "fn from(_: StartTxn) -> Exop" => "fn start_txn_into_exop(_s: StartTxn) -> Exop"
//@ ret r
//@ spec
    ensures r.name matches Some(n) && n@ == "1.3.6.1.1.21.1"@, r.val is None, //# C19.start_txn_oid_rfc5805_no_value
//@end
pub struct EndTxn<'a> { pub txn_id: &'a str, pub commit: bool }
pub open spec fn end_txn_tree(et: EndTxn) -> T {
    if et.commit { t_seq(seq![t_os(str_bytes(et.txn_id@))]) } else { t_seq(seq![t_bool(false), t_os(str_bytes(et.txn_id@))]) }
}
//@lift name=From<EndTxn>::from file=src/exop_impl/txn.rs impl="impl<'a>\s+From<EndTxn<'a>>\s+for\s+Exop\s*\{" fn=from
//@ sub "fn from(et: EndTxn) -> Exop" => "fn end_txn_into_exop(et: EndTxn) -> Exop"
//@ sub "let mut et_vec = " => "let mut et_vec: Vec<Tag> = "
//@ sub "lber::structures::OctetString {" => "OctetString {" count=*
//@ sub "Vec::from(&buf[..])" => "verif_bytes_of(&buf)"
//@ ret r
//@ insert entry
        broadcast use ax_str_bytes;
//@ insert before "let et_val = Tag::Sequence(Sequence {"
        proof { if et.commit { tree_lemmas::lemma_trees1(et_vec@, 1); } else { tree_lemmas::lemma_trees2(et_vec@, 2); } }
//@ spec
    ensures
        r.name matches Some(n) && n@ == "1.3.6.1.1.21.3"@, //# C19.end_txn_oid_rfc5805
        r.val matches Some(v) && v@ == ber_t(end_txn_tree(et)), //# C19.end_txn_value_commit_default_true_not_encoded
//@end

// ---- Pre/PostRead request (RFC 4527): AttributeSelection ::= SEQUENCE OF selector LDAPString; OIDs 1.3.6.1.1.13.1/.2
//@const file=src/controls_impl/read_entry.rs name=PRE_READ_OID
//@const file=src/controls_impl/read_entry.rs name=POST_READ_OID
pub proof fn read_entry_oids_rfc4527()
    ensures PRE_READ_OID@ == "1.3.6.1.1.13.1"@, POST_READ_OID@ == "1.3.6.1.1.13.2"@, //# C19.pre_post_read_oids_rfc4527
{ }


// Pre/PostRead request value (RFC 4527): AttributeSelection ::= SEQUENCE OF selector LDAPString
pub struct S { pub s: &'static str }
impl S { pub fn as_ref(&self) -> (r: &str) ensures r == self.s { self.s } }
pub struct ReadEntry { pub attrs: Vec<S>, pub oid: &'static str }
pub open spec fn sel_trees(a: Seq<S>, n: nat) -> Seq<T> decreases n {
    if n == 0 || n > a.len() { Seq::empty() } else { sel_trees(a, (n - 1) as nat).push(t_os(str_bytes(a[n - 1].s@))) }
}
pub open spec fn sel_size(a: Seq<S>, n: nat) -> int decreases n {
    if n == 0 || n > a.len() { 2 } else { sel_size(a, (n - 1) as nat) + a[n - 1].s@.len() + 2 }
}
pub proof fn lemma_sel_size_mono(a: Seq<S>, i: nat, j: nat)
    requires i <= j <= a.len()
    ensures sel_size(a, i) <= sel_size(a, j)
    decreases j - i
{ if i < j { lemma_sel_size_mono(a, i, (j - 1) as nat); } }
pub proof fn lemma_trees_sel(v: Seq<Tag>, a: Seq<S>, n: nat)
    requires n <= v.len(), n <= a.len(), forall|j: int| 0 <= j < n ==> tree(#[trigger] v[j]) == t_os(str_bytes(a[j].s@)),
    ensures trees(v, n) == sel_trees(a, n),
    decreases n,
{ if n > 0 { lemma_trees_sel(v, a, (n - 1) as nat); } }
//@lift name=from_read_entry file=src/controls_impl/read_entry.rs fn=from_read_entry
//@ sub "fn from_read_entry<S: AsRef<str>>(re: ReadEntry<S>) -> RawControl" => "fn from_read_entry(re: ReadEntry) -> RawControl"
//@ sub "let mut attr_vec = Vec::new();" => "let mut attr_vec: Vec<Tag> = Vec::new();"
//@ sub "Vec::from(&buf[..])" => "verif_bytes_of(&buf)"
//@ ret rc
//@ insert entry
    broadcast use ax_str_bytes;
    let ghost a = re.attrs@;
//@ loop 1 iter=it
        invariant
            it.seq() == a, attr_vec@.len() == it.index@,
            forall|j: int| 0 <= j < a.len() ==> (#[trigger] a[j]).s.is_ascii(),
            // (the estimate is only a capacity hint: bounded generously, not pinned -- changing the hint must not look like a defect)
            enc_size_est <= 4 * sel_size(a, it.index@ as nat), 4 * sel_size(a, a.len()) <= usize::MAX,
            forall|j: int| 0 <= j < it.index@ ==> tree(#[trigger] attr_vec@[j]) == t_os(str_bytes(a[j].s@)),
//@ insert loop-start 1
        proof { lemma_sel_size_mono(a, (it.index@ + 1) as nat, a.len()); ax_str_bytes(attr.s); }
//@ insert before "let cval = Tag::Sequence(Sequence {"
    proof { lemma_trees_sel(attr_vec@, a, a.len()); }
//@ spec
    requires
        // attribute descriptions are ASCII (RFC 4512 2.5); vstd specifies str::len only for ASCII strings
        forall|j: int| 0 <= j < re.attrs@.len() ==> (#[trigger] re.attrs@[j]).s.is_ascii(),
        4 * sel_size(re.attrs@, re.attrs@.len()) <= usize::MAX,
    ensures
        rc.ctype@ == re.oid@, rc.crit == false, //# C19.read_entry_control_uses_the_given_oid_not_critical
        rc.val matches Some(v) && v@ == ber_t(t_seq(sel_trees(re.attrs@, re.attrs@.len()))), //# C19.read_entry_value_is_the_attribute_selection_rfc4527
//@end

// ---- Assertion (RFC 4528) and MatchedValues (RFC 3876) request controls: the value is the BER of the filter the string
// compiles to. The filter compiler itself (crate::filter::parse / parse_matched_values) is outside this unit (C08); it is
// an assumed external function of the string here.
//@const file=src/controls_impl/assertion.rs name=ASSERTION_OID
//@const file=src/controls_impl/matched_values.rs name=MATCHED_VALUES_OID
pub proof fn filter_control_oids()
    ensures ASSERTION_OID@ == "1.3.6.1.1.12"@, MATCHED_VALUES_OID@ == "1.2.826.0.1.3344810.2.3"@, //# C19.assertion_and_matched_values_oids
{ }
pub struct FilterErr { pub k: u8 }
impl core::fmt::Debug for FilterErr { #[verifier::external_body] fn fmt(&self, f: &mut core::fmt::Formatter<'_>) -> core::fmt::Result { unimplemented!() } }
pub uninterp spec fn filter_spec(s: Seq<char>) -> Option<T>;
pub uninterp spec fn mv_filter_spec(s: Seq<char>) -> Option<T>;
#[verifier::external_body]
pub fn parse(s: &str) -> (r: core::result::Result<Tag, FilterErr>)
    ensures match filter_spec(s@) { Some(t) => r matches Ok(x) && tree(x) == t, None => r is Err }
{ unimplemented!() }
#[verifier::external_body]
pub fn parse_matched_values(s: &str) -> (r: core::result::Result<Tag, FilterErr>)
    ensures match mv_filter_spec(s@) { Some(t) => r matches Ok(x) && tree(x) == t, None => r is Err }
{ unimplemented!() }
pub struct Assertion { pub filter: S }
pub struct MatchedValues { pub filter: S }
//@lift name=From<Assertion>::from file=src/controls_impl/assertion.rs impl="impl<S: AsRef<str>>\s+From<Assertion<S>>\s+for\s+RawControl\s*\{" fn=from
//@ sub "fn from(assn: Assertion<S>) -> RawControl" => "fn assertion_into_raw(assn: Assertion) -> RawControl"
//@ sub "Vec::from(&buf[..])" => "verif_bytes_of(&buf)"
//@ ret rc
//@ spec
    requires
        filter_spec(assn.filter.s@) is Some,   // an invalid filter string panics at construction ("filter"), by documentation
        assn.filter.s.is_ascii(),              // vstd specifies str::len (the capacity estimate) only for ASCII strings
    ensures
        rc.ctype@ == ASSERTION_OID@, rc.crit == false, //# C19.assertion_control_oid_not_critical
        rc.val matches Some(v) && v@ == ber_t(filter_spec(assn.filter.s@)->0), //# C19.assertion_value_is_the_ber_of_the_compiled_filter
//@end
//@lift name=From<MatchedValues>::from file=src/controls_impl/matched_values.rs impl="impl<S: AsRef<str>>\s+From<MatchedValues<S>>\s+for\s+RawControl\s*\{" fn=from
//@ sub "fn from(assn: MatchedValues<S>) -> RawControl" => "fn matched_values_into_raw(assn: MatchedValues) -> RawControl"
//@ sub "Vec::from(&buf[..])" => "verif_bytes_of(&buf)"
//@ ret rc
//@ spec
    requires
        mv_filter_spec(assn.filter.s@) is Some,
        assn.filter.s.is_ascii(),
    ensures
        rc.ctype@ == MATCHED_VALUES_OID@, rc.crit == false, //# C19.matched_values_control_oid_not_critical
        rc.val matches Some(v) && v@ == ber_t(mv_filter_spec(assn.filter.s@)->0), //# C19.matched_values_value_is_the_ber_of_the_compiled_filter
//@end

// Pre-Read / Post-Read constructors (RFC 4527): which OID goes with which control
pub struct PreRead(pub ReadEntry);
pub struct PostRead(pub ReadEntry);
//@lift name=From<PreRead>::from file=src/controls_impl/read_entry.rs impl="impl<S: AsRef<str>>\s+From<PreRead<S>>\s+for\s+RawControl\s*\{" fn=from
//@ sub "fn from(pr: PreRead<S>) -> RawControl" => "fn pre_read_into_raw(pr: PreRead) -> RawControl"
//@ ret rc
//@ spec
    requires
        forall|j: int| 0 <= j < pr.0.attrs@.len() ==> (#[trigger] pr.0.attrs@[j]).s.is_ascii(),
        4 * sel_size(pr.0.attrs@, pr.0.attrs@.len()) <= usize::MAX,
    ensures
        rc.ctype@ == pr.0.oid@, rc.crit == false,
        rc.val matches Some(v) && v@ == ber_t(t_seq(sel_trees(pr.0.attrs@, pr.0.attrs@.len()))),
//@end
//@lift name=From<PostRead>::from file=src/controls_impl/read_entry.rs impl="impl<S: AsRef<str>>\s+From<PostRead<S>>\s+for\s+RawControl\s*\{" fn=from
//@ sub "fn from(pr: PostRead<S>) -> RawControl" => "fn post_read_into_raw(pr: PostRead) -> RawControl"
//@ ret rc
//@ spec
    requires
        forall|j: int| 0 <= j < pr.0.attrs@.len() ==> (#[trigger] pr.0.attrs@[j]).s.is_ascii(),
        4 * sel_size(pr.0.attrs@, pr.0.attrs@.len()) <= usize::MAX,
    ensures
        rc.ctype@ == pr.0.oid@, rc.crit == false,
        rc.val matches Some(v) && v@ == ber_t(t_seq(sel_trees(pr.0.attrs@, pr.0.attrs@.len()))),
//@end
// `.into()` on the two wrappers is the From impl lifted just above (method-call syntax resolves to these inherent forwards)
impl PreRead {
    pub fn into(self) -> (rc: RawControl)
        requires forall|j: int| 0 <= j < self.0.attrs@.len() ==> (#[trigger] self.0.attrs@[j]).s.is_ascii(), 4 * sel_size(self.0.attrs@, self.0.attrs@.len()) <= usize::MAX,
        ensures rc.ctype@ == self.0.oid@, rc.crit == false, rc.val matches Some(v) && v@ == ber_t(t_seq(sel_trees(self.0.attrs@, self.0.attrs@.len()))),
    { pre_read_into_raw(self) }
}
impl PostRead {
    pub fn into(self) -> (rc: RawControl)
        requires forall|j: int| 0 <= j < self.0.attrs@.len() ==> (#[trigger] self.0.attrs@[j]).s.is_ascii(), 4 * sel_size(self.0.attrs@, self.0.attrs@.len()) <= usize::MAX,
        ensures rc.ctype@ == self.0.oid@, rc.crit == false, rc.val matches Some(v) && v@ == ber_t(t_seq(sel_trees(self.0.attrs@, self.0.attrs@.len()))),
    { post_read_into_raw(self) }
}
//@lift name=PreRead::new file=src/controls_impl/read_entry.rs impl="impl<S: AsRef<str>>\s+PreRead<S>\s*\{" fn=new
//@ sub "fn new(attrs: Vec<S>) -> RawControl" => "fn pre_read_new(attrs: Vec<S>) -> RawControl"
//@ ret rc
//@ spec
    requires
        forall|j: int| 0 <= j < attrs@.len() ==> (#[trigger] attrs@[j]).s.is_ascii(),
        4 * sel_size(attrs@, attrs@.len()) <= usize::MAX,
    ensures
        rc.ctype@ == "1.3.6.1.1.13.1"@, rc.crit == false, //# C19.pre_read_control_carries_the_pre_read_oid
        rc.val matches Some(v) && v@ == ber_t(t_seq(sel_trees(attrs@, attrs@.len()))),
//@end
//@lift name=PostRead::new file=src/controls_impl/read_entry.rs impl="impl<S: AsRef<str>>\s+PostRead<S>\s*\{" fn=new
//@ sub "fn new(attrs: Vec<S>) -> RawControl" => "fn post_read_new(attrs: Vec<S>) -> RawControl"
//@ ret rc
//@ spec
    requires
        forall|j: int| 0 <= j < attrs@.len() ==> (#[trigger] attrs@[j]).s.is_ascii(),
        4 * sel_size(attrs@, attrs@.len()) <= usize::MAX,
    ensures
        rc.ctype@ == "1.3.6.1.1.13.2"@, rc.crit == false, //# C19.post_read_control_carries_the_post_read_oid
        rc.val matches Some(v) && v@ == ber_t(t_seq(sel_trees(attrs@, attrs@.len()))),
//@end

// ======================================================================= response parsers (tree level)
// lber::parse::parse_tag as a function of the bytes (V-lber-dec: the result is a tree of which the consumed bytes are a
// definite-length encoding); "for every well-formed response value" = the value parses to a tree of the RFC's shape
pub struct NomErr { pub k: u8 }
pub type IResult<I, O> = core::result::Result<(I, O), NomErr>;
pub uninterp spec fn parse_spec(b: Seq<u8>) -> Option<StructureTag>;
#[verifier::external_body]
pub fn parse_tag<'a>(i: &'a [u8]) -> (r: IResult<&'a [u8], StructureTag>)
    ensures match parse_spec(i@) { Some(t) => r matches Ok(p) && p.1 == t, None => r is Err }
{ unimplemented!() }
pub uninterp spec fn be_uint(s: Seq<u8>) -> u64;
#[verifier::external_body]
pub fn parse_uint(i: &[u8]) -> (r: core::result::Result<(&[u8], u64), NomErr>)
    ensures r matches Ok(p) && p.1 == be_uint(i@)
{ unimplemented!() }

// ---- PagedResults response (RFC 2696): SEQUENCE { size INTEGER, cookie OCTET STRING }
pub open spec fn wf_paged(t: StructureTag) -> bool {
    t.payload matches PL::C(k) && k@.len() >= 2 && k@[0].class == TagClass::Universal && k@[0].id == 2 && (k@[0].payload is P) && (k@[1].payload is P)
}
//@lift name=PagedResults::parse file=src/controls_impl/paged_results.rs impl="impl\s+ControlParser\s+for\s+PagedResults\s*\{" fn=parse
//@ sub "fn parse(val: &[u8]) -> PagedResults" => "fn paged_results_parse(val: &[u8]) -> PagedResults"
//@ ret r
//@ closure at="|t| t.match_id(Types::Integer as u64)" params="t: StructureTag" ret="(o: Option<StructureTag>)"
            ensures o == (if t.id == 2 { Some(t) } else { None })
//@ closure at="|t| t.expect_primitive()" params="t: StructureTag" ret="(o: Option<Vec<u8>>)"
            ensures o == (match t.payload { PL::P(i) => Some(i), PL::C(_) => None::<Vec<u8>> })
//@ spec
    requires parse_spec(val@) matches Some(t) && wf_paged(t), //# C16+C19.paged_results_response_must_be_well_formed_else_panics_by_contract
    ensures
        r.size == (be_uint(parse_spec(val@)->0.payload->C_0@[0].payload->P_0@) as i32), //# C16+C19.paged_results_size_is_the_integer
        r.cookie@ == parse_spec(val@)->0.payload->C_0@[1].payload->P_0@, //# C16+C19.paged_results_cookie_as_sent
//@end

// ---- C19 round trip for PagedResults, a lemma over the two contracts above and the lber contract:
// if the value parses to a tree whose structure is the one From<PagedResults> encoded (decoder completeness L-rt is the
// hypothesis `st_tree(st) == ...`; it is NOT discharged by V-lber-dec, only cross-checked by Kani on small buffers),
// then parse returns the size (for size >= 0: the parser reads the INTEGER as unsigned) and the cookie.
// leaf clause K-lber::C07.uint_of_nonneg_int_octets: be_uint(int_octets(x)) == x for 0 <= x < 2^63
pub axiom fn ax_be_uint_int_octets(x: int) requires 0 <= x < 0x8000_0000_0000_0000 ensures be_uint(int_octets(x)) == x;
pub proof fn lemma_paged_results_roundtrip(size: i32, cookie: Seq<u8>, st: StructureTag)
    requires size >= 0, st_tree(st) == t_seq(seq![t_int(size as int), t_os(cookie)]),
    ensures
        wf_paged(st), //# C19.encoded_paged_results_is_a_well_formed_response
        (be_uint(st.payload->C_0@[0].payload->P_0@) as i32) == size, //# C19.paged_results_size_roundtrip
        st.payload->C_0@[1].payload->P_0@ == cookie, //# C19.paged_results_cookie_roundtrip
{
    reveal_with_fuel(st_tree, 2);
    match st.payload {
        PL::P(_) => { assert(false); }
        PL::C(kids) => {
            let k = kids@;
            lemma_st_trees_len(k, k.len());
            assert(st_trees(k, k.len()) == seq![t_int(size as int), t_os(cookie)]);
            assert(k.len() == 2);
            assert(st_tree(k[0]) == t_int(size as int) && st_tree(k[1]) == t_os(cookie));
            ax_be_uint_int_octets(size as int);
        }
    }
}


// ---- SyncState (RFC 4533 2.3): SEQUENCE { state ENUMERATED { present (0), add (1), modify (2), delete (3) },
//      entryUUID OCTET STRING, cookie OCTET STRING OPTIONAL }
//@item file=src/controls_impl/content_sync.rs kind=struct name=SyncState
//@item file=src/controls_impl/content_sync.rs kind=enum name=EntryState
pub open spec fn state_num(s: EntryState) -> int { match s { EntryState::Present => 0, EntryState::Add => 1, EntryState::Modify => 2, EntryState::Delete => 3 } }
pub open spec fn wf_sync_state(t: StructureTag) -> bool {
    t.payload matches PL::C(k) && k@.len() >= 2 && k@[0].class == TagClass::Universal && k@[0].id == 10 && (k@[0].payload is P)
        && be_uint(k@[0].payload->P_0@) <= 3 && (k@[1].payload is P) && (k@.len() >= 3 ==> (k@[2].payload is P))
}
//@lift name=SyncState::parse file=src/controls_impl/content_sync.rs impl="impl\s+ControlParser\s+for\s+SyncState\s*\{" fn=parse
//@ sub "fn parse(val: &[u8]) -> Self" => "fn sync_state_parse(val: &[u8]) -> SyncState"
//@ sub "IResult::Ok((_, tag)) => tag," => "Ok((_, tag)) => tag,"
//@ ret r
//@ closure at="|t| t.match_id(Types::Enumerated as u64)" params="t: StructureTag" ret="(o: Option<StructureTag>)"
            ensures o == (if t.id == 10 { Some(t) } else { None })
//@ closure at="|t| t.expect_primitive()" params="t: StructureTag" ret="(o: Option<Vec<u8>>)"
            ensures o == (match t.payload { PL::P(i) => Some(i), PL::C(_) => None::<Vec<u8>> })
//@ closure at="|tag| tag.expect_primitive().expect(\"syncstate: synCookie\")" params="tag: StructureTag" ret="(o: Vec<u8>)"
            requires tag.payload is P
            ensures tag.payload matches PL::P(i) && o == i
//@ spec
    requires parse_spec(val@) matches Some(t) && wf_sync_state(t),
    ensures
        state_num(r.state) == be_uint(parse_spec(val@)->0.payload->C_0@[0].payload->P_0@), //# C19.sync_state_numbers_rfc4533
        r.entry_uuid@ == parse_spec(val@)->0.payload->C_0@[1].payload->P_0@, //# C19.sync_state_uuid_as_sent
        parse_spec(val@)->0.payload->C_0@.len() == 2 ==> r.cookie is None, //# C19.sync_state_absent_cookie_is_none
        parse_spec(val@)->0.payload->C_0@.len() >= 3 ==> (r.cookie matches Some(c) && c@ == parse_spec(val@)->0.payload->C_0@[2].payload->P_0@), //# C19.sync_state_cookie_as_sent
//@end


// ---- SyncDone (RFC 4533 2.4): SEQUENCE { cookie OCTET STRING OPTIONAL, refreshDeletes BOOLEAN DEFAULT FALSE }
//@item file=src/controls_impl/content_sync.rs kind=struct name=SyncDone
pub open spec fn wf_sync_done_comp(c: StructureTag) -> bool {
    (c.id == 4 && (c.payload is P)) || (c.id == 1 && (c.payload matches PL::P(b) && b@.len() >= 1))
}
pub open spec fn wf_sync_done(t: StructureTag) -> bool {
    t.payload matches PL::C(k) && forall|j: int| 0 <= j < k@.len() ==> wf_sync_done_comp(#[trigger] k@[j])
}
pub open spec fn last_os(k: Seq<StructureTag>, n: int) -> Option<Seq<u8>> decreases n {
    if n <= 0 { None } else if k[n - 1].id == 4 { Some(k[n - 1].payload->P_0@) } else { last_os(k, n - 1) }
}
pub open spec fn last_flag(k: Seq<StructureTag>, n: int) -> bool decreases n {
    if n <= 0 { false } else if k[n - 1].id == 1 { k[n - 1].payload->P_0@[0] != 0 } else { last_flag(k, n - 1) }
}
//@lift name=SyncDone::parse file=src/controls_impl/content_sync.rs impl="impl\s+ControlParser\s+for\s+SyncDone\s*\{" fn=parse
//@ sub "fn parse(val: &[u8]) -> Self" => "fn sync_done_parse(val: &[u8]) -> SyncDone"
//@ sub "let mut cookie = None;" => "let mut cookie: Option<Vec<u8>> = None;"
//@ ret r
//@ insert before "let mut cookie: Option<Vec<u8>> = None;"
        let ghost k = parse_spec(val@)->0.payload->C_0@;
//@ loop 1 iter=it
            invariant
                it.seq() == k,
                forall|j: int| 0 <= j < k.len() ==> wf_sync_done_comp(#[trigger] k[j]),
                match cookie { Some(c) => last_os(k, it.index@ as int) == Some(c@), None => last_os(k, it.index@ as int) is None },
                refresh_deletes == last_flag(k, it.index@ as int),
//@ spec
    requires parse_spec(val@) matches Some(t) && wf_sync_done(t),
    ensures
        ({ let k = parse_spec(val@)->0.payload->C_0@;
           &&& (match r.cookie { Some(c) => last_os(k, k.len() as int) == Some(c@), None => last_os(k, k.len() as int) is None }) //# C19.sync_done_cookie_as_sent_absent_is_none
           &&& r.refresh_deletes == last_flag(k, k.len() as int) //# C19.sync_done_refresh_deletes_default_false
        }),
//@end


// ---- SyncInfo (RFC 4533 2.5): IntermediateResponse [APPLICATION 25] { [0] responseName OID, [1] responseValue };
// syncInfoValue ::= CHOICE { newcookie [0] syncCookie, refreshDelete [1] SEQUENCE { cookie OPTIONAL, refreshDone BOOLEAN
// DEFAULT TRUE }, refreshPresent [2] (same), syncIdSet [3] SEQUENCE { cookie OPTIONAL, refreshDeletes BOOLEAN DEFAULT
// FALSE, syncUUIDs SET OF syncUUID } }.  The cookie and the flag are under contract; the UUID set (HashSet collect) is not.
//@const file=src/controls_impl/content_sync.rs name=SYNC_INFO_OID
pub struct Control { pub x: u8 }
pub struct ResultEntry(pub StructureTag, pub Vec<Control>);
pub enum SyncInfo {
    NewCookie(Vec<u8>),
    RefreshDelete { cookie: Option<Vec<u8>>, refresh_done: bool },
    RefreshPresent { cookie: Option<Vec<u8>>, refresh_done: bool },
    SyncIdSet { cookie: Option<Vec<u8>>, refresh_deletes: bool, sync_uuids: HashSet<Vec<u8>> },
}
// idiom: `oid != SYNC_INFO_OID` (String vs &str comparison; recorded substitution)
#[verifier::external_body]
pub fn verif_str_ne(a: &String, b: &str) -> (r: bool) ensures r == (a@ != b@) { unimplemented!() }
pub open spec fn is_u(c: StructureTag, id: u64) -> bool { c.class == TagClass::Universal && c.id == id }
// components of the [1]/[2]/[3] sequences: cookie only first, flag among the first two, UUID set among the first three
pub open spec fn wf_si_comp(c: StructureTag, j: int) -> bool {
    (is_u(c, 4) && j == 0) || (is_u(c, 1) && j <= 1 && (c.payload matches PL::P(b) && b@.len() >= 1))
    || (is_u(c, 17) && j <= 2 && (c.payload matches PL::C(us) && forall|i: int| 0 <= i < us@.len() ==> ((#[trigger] us@[i]).payload is P)))
}
pub open spec fn si_cookie(vk: Seq<StructureTag>, n: int) -> Option<Seq<u8>> {
    if n >= 1 && is_u(vk[0], 4) { match vk[0].payload { PL::P(b) => Some(b@), PL::C(_) => None } } else { None }
}
pub open spec fn si_flag(vk: Seq<StructureTag>, n: int, dflt: bool) -> bool decreases n {
    if n <= 0 { dflt } else if is_u(vk[n - 1], 1) && n <= 2 { vk[n - 1].payload->P_0@[0] != 0 } else { si_flag(vk, n - 1, dflt) }
}
pub open spec fn wf_si_value(v: StructureTag) -> bool {
    v.class == TagClass::Context && v.id < 4 && (v.id == 0 ==> (v.payload is P))
    && (v.id >= 1 ==> (v.payload matches PL::C(vk) && forall|j: int| 0 <= j < vk@.len() ==> wf_si_comp(#[trigger] vk@[j], j)))
}
pub open spec fn wf_si_entry(e: StructureTag) -> bool {
    e.id == 25 && (e.payload matches PL::C(k) && exists|f: int| 0 <= f < k@.len() && #[trigger] si_first(k@, f))
}
// kids before f are the [0] OID (the Sync Info OID), kid f is the [1] value
pub open spec fn si_first(k: Seq<StructureTag>, f: int) -> bool {
    0 <= f < k.len() && k[f].id == 1 && (k[f].payload matches PL::P(vb) && (parse_spec(vb@) matches Some(v) && wf_si_value(v)))
    && forall|j: int| 0 <= j < f ==> ((#[trigger] k[j]).id == 0 && (k[j].payload matches PL::P(ob) && valid_utf8(ob@) && utf8_decode(ob@) == "1.3.6.1.4.1.4203.1.9.1.4"@))
}
pub open spec fn si_f(k: Seq<StructureTag>) -> int { choose|f: int| 0 <= f < k.len() && #[trigger] si_first(k, f) }
pub open spec fn si_value(k: Seq<StructureTag>, f: int) -> StructureTag { parse_spec(k[f].payload->P_0@)->0 }
pub open spec fn si_val(e: ResultEntry) -> StructureTag { si_value(e.0.payload->C_0@, si_f(e.0.payload->C_0@)) }
pub open spec fn si_vk(e: ResultEntry) -> Seq<StructureTag> { si_val(e).payload->C_0@ }
pub open spec fn opt_view(o: Option<Vec<u8>>) -> Option<Seq<u8>> { match o { Some(v) => Some(v@), None => None } }
//@lift name=parse_syncinfo file=src/controls_impl/content_sync.rs fn=parse_syncinfo
//@ sub ".expect(\"octet string\").as_ref()" => ".expect(\"octet string\").as_slice()"
//@ sub "let mut sync_cookie = None;" => "let mut sync_cookie: Option<Vec<u8>> = None;"
//@ sub "if oid != SYNC_INFO_OID {" => "if verif_str_ne(&oid, SYNC_INFO_OID) {"
//@ ret r
//@ attr #[verifier::exec_allows_no_decreases_clause]
//@ closure at="|t| t.expect_constructed()" params="t: StructureTag" ret="(o: Option<Vec<StructureTag>>)"
            ensures o == (match t.payload { PL::P(_) => None::<Vec<StructureTag>>, PL::C(i) => Some(i) })
//@ closure at="|u| {" params="u: StructureTag" ret="(o: Vec<u8>)"
                                                        requires u.payload is P
//@ insert entry
    let ghost k = entry.0.payload->C_0@;
    let ghost f = si_f(k);
//@ loop 1
        invariant
            si_first(k, f), 0 <= f < k.len(), k == entry.0.payload->C_0@, f == si_f(k),
            tags.remaining() == k.skip(k.len() - tags.remaining().len()),
            0 <= k.len() - tags.remaining().len() <= f,
//@ loop 2
                                    invariant
                                        1 <= id <= 3, id == sv.id, sv == si_value(k, f), k == entry.0.payload->C_0@, f == si_f(k), wf_si_value(sv), vk == sv.payload->C_0@,
                                        syncinfo_val.remaining() == vk.skip(vk.len() - syncinfo_val.remaining().len()),
                                        pass == vk.len() - syncinfo_val.remaining().len() + 1, vk.len() <= 3, syncinfo_val.remaining().len() <= vk.len(),
                                        forall|j: int| 0 <= j < vk.len() ==> wf_si_comp(#[trigger] vk[j], j),
                                        opt_view(sync_cookie) == si_cookie(vk, pass - 1),
                                        flag == si_flag(vk, pass - 1, id != 3), //# C19.inv_syncinfo_flag_so_far_with_rfc4533_default
                                    ensures
                                        opt_view(sync_cookie) == si_cookie(vk, vk.len() as int),
                                        flag == si_flag(vk, vk.len() as int, id != 3),
//@ insert before "let mut syncinfo_val = match payload {"
                                let ghost sv = si_value(k, f);
                                let ghost vk = sv.payload->C_0@;
                                proof { if vk.len() > 3 { assert(wf_si_comp(vk[3], 3)); } }
//@ insert before "pass += 1;"
                                    proof { assert(syncinfo_val.remaining() =~= vk.skip(pass as int)); }
//@ insert before "match syncinfo_val.next() {"
                                    proof { assert(syncinfo_val.remaining().len() > 0 ==> (wf_si_comp(vk[pass as int - 1], pass as int - 1) && syncinfo_val.remaining()[0] == vk[pass as int - 1])); }
//@ spec
    requires wf_si_entry(entry.0),
    ensures
        si_val(entry).id == 0 ==> (r matches SyncInfo::NewCookie(c) && c@ == si_val(entry).payload->P_0@), //# C19.syncinfo_new_cookie
        si_val(entry).id == 1 ==> (r matches SyncInfo::RefreshDelete { cookie, refresh_done } && opt_view(cookie) == si_cookie(si_vk(entry), si_vk(entry).len() as int)
            && refresh_done == si_flag(si_vk(entry), si_vk(entry).len() as int, true)), //# C19.syncinfo_refresh_delete_done_defaults_true
        si_val(entry).id == 2 ==> (r matches SyncInfo::RefreshPresent { cookie, refresh_done } && opt_view(cookie) == si_cookie(si_vk(entry), si_vk(entry).len() as int)
            && refresh_done == si_flag(si_vk(entry), si_vk(entry).len() as int, true)), //# C19.syncinfo_refresh_present_done_defaults_true
        si_val(entry).id == 3 ==> (r matches SyncInfo::SyncIdSet { cookie, refresh_deletes, sync_uuids } && opt_view(cookie) == si_cookie(si_vk(entry), si_vk(entry).len() as int)
            && refresh_deletes == si_flag(si_vk(entry), si_vk(entry).len() as int, false)), //# C19.syncinfo_id_set_refresh_deletes_defaults_false
//@end


// ---- WhoAmI response (RFC 4532) and StartTxn response (RFC 5805): the value is the authzId / transaction identifier (UTF-8)
#[verifier::external_type_specification]
#[verifier::external_body]
pub struct ExUtf8Error(core::str::Utf8Error);
pub assume_specification<'a> [core::str::from_utf8] (v: &'a [u8]) -> (r: core::result::Result<&'a str, core::str::Utf8Error>)
    ensures r is Ok <==> valid_utf8(v@), r matches Ok(s) ==> s@ == utf8_decode(v@);
pub mod str { pub use core::str::from_utf8; }
pub struct WhoAmIResp { pub authzid: String }
pub struct StartTxnResp { pub txn_id: String }
//@lift name=WhoAmIResp::parse file=src/exop_impl/whoami.rs impl="impl\\s+ExopParser\\s+for\\s+WhoAmIResp\\s*\\{" fn=parse
//@ sub "fn parse(val: &[u8]) -> WhoAmIResp" => "fn whoami_resp_parse(val: &[u8]) -> WhoAmIResp"
//@ ret r
//@ spec
    requires valid_utf8(val@), //# C19.whoami_response_must_be_utf8_else_panics_by_contract
    ensures r.authzid@ == utf8_decode(val@), //# C19.whoami_response_authzid_as_sent
//@end
//@lift name=StartTxnResp::parse file=src/exop_impl/txn.rs impl="impl\\s+ExopParser\\s+for\\s+StartTxnResp\\s*\\{" fn=parse
//@ sub "fn parse(val: &[u8]) -> StartTxnResp" => "fn start_txn_resp_parse(val: &[u8]) -> StartTxnResp"
//@ ret r
//@ spec
    requires valid_utf8(val@),
    ensures r.txn_id@ == utf8_decode(val@), //# C19.start_txn_response_identifier_as_sent
//@end

// ---- PasswordModify response (RFC 3062): SEQUENCE { genPasswd [0] OCTET STRING OPTIONAL }
pub struct PasswordModifyResp { pub gen_pass: String }
pub assume_specification<T: Clone> [<[T] as std::borrow::ToOwned>::to_owned] (s: &[T]) -> (v: Vec<T>) ensures v@ == s@;
pub open spec fn wf_passmod_resp(t: StructureTag) -> bool {
    t.payload matches PL::C(k) && k@.len() >= 1 && k@[0].class == TagClass::Context && k@[0].id == 0 && (k@[0].payload matches PL::P(b) && valid_utf8(b@))
}
//@lift name=PasswordModifyResp::parse file=src/exop_impl/passmod.rs impl="impl\s+ExopParser\s+for\s+PasswordModifyResp\s*\{" fn=parse
//@ sub "fn parse(val: &[u8]) -> PasswordModifyResp" => "fn passmod_resp_parse(val: &[u8]) -> PasswordModifyResp"
//@ ret r
//@ closure at="|t| t.match_id(" params="t: StructureTag" ret="(o: Option<StructureTag>)"
            ensures o == (if t.id == 0 { Some(t) } else { None })
//@ closure at="|t| t.expect_primitive()" params="t: StructureTag" ret="(o: Option<Vec<u8>>)"
            ensures o == (match t.payload { PL::P(i) => Some(i), PL::C(_) => None::<Vec<u8>> })
//@ spec
    requires parse_spec(val@) matches Some(t) && wf_passmod_resp(t),
    ensures r.gen_pass@ == utf8_decode(parse_spec(val@)->0.payload->C_0@[0].payload->P_0@), //# C19.password_modify_response_generated_password
//@end


// ======================================================================= the table of recognised response controls
// lazy_static CONTROLS in src/controls_impl.rs: parse_controls tags a response control with Some(type) when its OID is in
// this table (V-controls: C03.known_controls_are_tagged_from_the_table).  The initialiser block is lifted (locator L7) over
// a ghost-viewed stand-in for the map; the OID constants are the lifted ones above.
pub enum ControlType { PagedResults, PostReadResp, PreReadResp, SyncDone, SyncState, ManageDsaIt, MatchedValues }
pub struct HashMap { pub m: Ghost<Map<Seq<char>, ControlType>> }
impl HashMap {
    pub closed spec fn view(&self) -> Map<Seq<char>, ControlType> { self.m@ }
    #[verifier::external_body]
    pub fn new() -> (r: HashMap) ensures r@ == Map::<Seq<char>, ControlType>::empty() { unimplemented!() }
    #[verifier::external_body]
    pub fn insert(&mut self, k: &'static str, v: ControlType) ensures final(self)@ == old(self)@.insert(k@, v) { unimplemented!() }
}
pub mod self_ { }
//@const file=src/controls_impl/content_sync.rs name=SYNC_STATE_OID
//@const file=src/controls_impl/content_sync.rs name=SYNC_DONE_OID
pub open spec fn known_table() -> Map<Seq<char>, ControlType> {
    Map::<Seq<char>, ControlType>::empty()
        .insert("1.2.840.113556.1.4.319"@, ControlType::PagedResults)      // RFC 2696
        .insert("1.3.6.1.1.13.2"@, ControlType::PostReadResp)              // RFC 4527
        .insert("1.3.6.1.1.13.1"@, ControlType::PreReadResp)               // RFC 4527
        .insert("1.3.6.1.4.1.4203.1.9.1.3"@, ControlType::SyncDone)        // RFC 4533
        .insert("1.3.6.1.4.1.4203.1.9.1.2"@, ControlType::SyncState)       // RFC 4533
        .insert("2.16.840.1.113730.3.4.2"@, ControlType::ManageDsaIt)      // RFC 3296
        .insert("1.2.826.0.1.3344810.2.3"@, ControlType::MatchedValues)    // RFC 3876
}
//@lift name=CONTROLS file=src/controls_impl.rs block="static ref CONTROLS: HashMap<&'static str, ControlType> =" as="fn controls_table() -> (map_r: HashMap)"
//@ sub "self::paged_results::" => "" count=*
//@ sub "self::read_entry::" => "" count=*
//@ sub "self::content_sync::" => "" count=*
//@ sub "self::manage_dsa_it::" => "" count=*
//@ sub "self::matched_values::" => "" count=*
//@ spec
    ensures map_r@ =~= known_table(), //# C03+C19.recognised_response_controls_are_tagged_with_their_own_type
//@end

// ======================================================================= the generic entry points RawControl::parse / Exop::parse
// `rc.parse::<T>()` hands T's parser the control value itself -- the whole of it, unmodified -- and returns what it returns.
// The traits are mirrored with a specification function for the parser's result so that "what T::parse returns on these bytes"
// can be named; each implementation's own contract is above.
pub trait ControlParser: Sized {
    spec fn cp_wf(val: Seq<u8>) -> bool;
    spec fn cp_parsed(val: Seq<u8>) -> Self;
    fn parse(val: &[u8]) -> (r: Self) requires Self::cp_wf(val@) ensures r == Self::cp_parsed(val@);
}
pub trait ExopParser: Sized {
    spec fn ep_wf(val: Seq<u8>) -> bool;
    spec fn ep_parsed(val: Seq<u8>) -> Self;
    fn parse(val: &[u8]) -> (r: Self) requires Self::ep_wf(val@) ensures r == Self::ep_parsed(val@);
}
impl RawControl {
//@lift name=RawControl::parse file=src/controls_impl.rs impl="impl\s+RawControl\s*\{" fn=parse
//@ ret r
//@ spec
    requires self.val matches Some(v) && T::cp_wf(v@), //# C19.raw_control_parse_needs_a_value_else_panics_by_contract
    ensures r == T::cp_parsed(self.val->0@), //# C19.raw_control_parse_hands_the_whole_value_to_the_controls_parser
//@end
}
impl Exop {
//@lift name=Exop::parse file=src/exop_impl.rs impl="impl\s+Exop\s*\{" fn=parse
//@ ret r
//@ spec
    requires self.val matches Some(v) && T::ep_wf(v@), //# C19.exop_parse_needs_a_value_else_panics_by_contract
    ensures r == T::ep_parsed(self.val->0@), //# C19.exop_parse_hands_the_whole_value_to_the_exops_parser
//@end
}

} // verus!
fn main() {}
