// Unit V-ldap: src/ldap.rs -- op_call, the one-shot modifiers, the request builders (bind, SASL bind, compare,
// delete, modifyDN, extended, unbind, abandon), streaming_search_with, search, and Ldap::clone.
// Serves C02 (the request tree handed to the driver is the RFC 4511 PDU asked for; modifiers are one-shot),
// C01/C05 (the tuple enqueued carries the id just reserved), C04 (closed channels -> errors), C12 (timeout),
// C03 (the caller gets the result converted from the reply received on its own one-shot channel).
use vstd::prelude::*;
use vstd::string::*;
verus! {

//@include contracts/shared/await.rs
//@include contracts/shared/lber_types.rs
//@include contracts/shared/tree_spec.rs
//@include contracts/shared/std_specs.rs

pub type RequestId = i32;
pub struct Control { pub x: u8 }
pub struct RawControl { pub ctype: String, pub crit: bool, pub val: Option<Vec<u8>> }
// the real types derive Clone; mirrored so that a change which clones instead of moving is still decided
impl Clone for RawControl { #[verifier::external_body] fn clone(&self) -> (r: RawControl) ensures r == *self { unimplemented!() } }
impl Clone for SearchOptions { #[verifier::external_body] fn clone(&self) -> (r: SearchOptions) ensures r == *self { unimplemented!() } }
pub type MaybeControls = Option<Vec<RawControl>>;
#[derive(Clone, Copy)]
pub struct Duration { pub d: u64 }
// std::time::Duration::is_zero (mirror widened after seed C12g: a change that filters on it must reach the verifier)
impl Duration { pub fn is_zero(&self) -> (r: bool) ensures r == (self.d == 0) { self.d == 0 } }
pub struct SearchOptions { pub x: u8 }
pub struct LdapResult { pub rc: u32, pub matched: String, pub text: String, pub refs: Vec<String>, pub ctrls: Vec<Control> }
pub struct Exop { pub name: Option<String>, pub val: Option<Vec<u8>> }
pub struct SaslCreds(pub Option<Vec<u8>>);
pub struct LdapResultExt(pub LdapResult, pub Exop, pub SaslCreds);
pub struct CompareResult(pub LdapResult);
pub struct ExopResult(pub Exop, pub LdapResult);
pub struct SearchResult(pub Vec<ResultEntry>, pub LdapResult);
pub struct ResultEntry(pub StructureTag, pub Vec<Control>);
pub uninterp spec fn ext_of_tag(t: Tag) -> LdapResultExt;
impl LdapResultExt {
    // impl From<Tag> for LdapResultExt (src/result.rs); its own contract is V-result's subject
    #[verifier::external_body]
    pub fn from(t: Tag) -> (r: LdapResultExt) ensures r == ext_of_tag(t) { unimplemented!() }
}
pub enum LdapError { OpSend, ResultRecv, IdScrubSend, Timeout, EndOfStream, FilterParsing, AddNoValues, AdapterInit, Other(u8) }
pub type Result<T> = core::result::Result<T, LdapError>;

#[verifier::external_body] pub struct ItemSender { _p: u8 }
//@item file=src/protocol.rs kind=enum name=LdapOp

// ---- one-shot reply channel: ghost channel identity + prophecy of what will be received on it
#[verifier::external_body] pub struct ResultSender { _p: u8 }
#[verifier::external_body] pub struct ResultReceiver { _p: u8 }
pub uninterp spec fn reply_of(chan: int) -> Result<(Tag, Vec<Control>)>;
impl ResultSender { pub uninterp spec fn chan(&self) -> int; }
impl ResultReceiver {
    pub uninterp spec fn chan(&self) -> int;
    #[verifier::external_body]
    pub fn verif_await(self) -> (r: Result<(Tag, Vec<Control>)>)
        ensures r == reply_of(self.chan()), r matches Err(e) ==> e is ResultRecv
    { unimplemented!() }
}
pub struct oneshot {}
impl oneshot {
    #[verifier::external_body]
    pub fn channel() -> (p: (ResultSender, ResultReceiver)) ensures p.0.chan() == p.1.chan() { unimplemented!() }
}
pub struct TimeoutFut { pub chan: Ghost<int>, pub d: Duration }
impl TimeoutFut {
    #[verifier::external_body]
    pub fn verif_await(self) -> (r: Result<Result<(Tag, Vec<Control>)>>)
        ensures r matches Err(e) ==> e is Timeout, r matches Ok(v) ==> v == reply_of(self.chan@) && (v matches Err(e) ==> e is ResultRecv)
    { unimplemented!() }
}
pub struct time {}
impl time {
    #[verifier::external_body]
    pub fn timeout(d: Duration, rx: ResultReceiver) -> (f: TimeoutFut) ensures f.chan@ == rx.chan(), f.d == d { unimplemented!() }
}
// ---- request channel to the driver, ghost log of what this handle enqueued
pub struct Sent { pub id: RequestId, pub op: LdapOp, pub req: Tag, pub controls: MaybeControls, pub reply: int }
pub struct OpSender { pub log: Ghost<Seq<Sent>> }
impl OpSender {
    #[verifier::external_body]
    pub fn send(&mut self, t: (RequestId, LdapOp, Tag, MaybeControls, ResultSender)) -> (r: Result<()>)
        ensures r is Ok ==> final(self).log@ == old(self).log@.push(Sent { id: t.0, op: t.1, req: t.2, controls: t.3, reply: t.4.chan() }),
                r matches Err(e) ==> e is OpSend && final(self).log@ == old(self).log@
    { unimplemented!() }
}
impl Clone for OpSender { #[verifier::external_body] fn clone(&self) -> (r: OpSender) ensures r == *self { unimplemented!() } }
pub struct ScrubSender { pub log: Ghost<Seq<RequestId>> }
impl ScrubSender {
    #[verifier::external_body]
    pub fn send(&mut self, id: RequestId) -> (r: Result<()>)
        ensures r is Ok ==> final(self).log@ == old(self).log@.push(id), r matches Err(e) ==> e is IdScrubSend && final(self).log@ == old(self).log@
    { unimplemented!() }
}
impl Clone for ScrubSender { #[verifier::external_body] fn clone(&self) -> (r: ScrubSender) ensures r == *self { unimplemented!() } }
#[verifier::external_body] pub struct MsgMapArc { _p: u8 }
impl Clone for MsgMapArc { #[verifier::external_body] fn clone(&self) -> (r: MsgMapArc) ensures r == *self { unimplemented!() } }
#[verifier::external_body] pub struct MiscTx { _p: u8 }
impl Clone for MiscTx { #[verifier::external_body] fn clone(&self) -> (r: MiscTx) ensures r == *self { unimplemented!() } }

pub trait IntoRawControlVec { spec fn as_vec(&self) -> Seq<RawControl>; fn into(self) -> (r: Vec<RawControl>) ensures r@ == self.as_vec(); }

pub struct Ldap {
    pub msgmap: MsgMapArc,
    pub tx: OpSender,
    pub id_scrub_tx: ScrubSender,
    pub misc_tx: MiscTx,
    pub last_id: RequestId,
    pub has_tls: bool,
    pub timeout: Option<Duration>,
    pub controls: MaybeControls,
    pub search_opts: Option<SearchOptions>,
}

// what the handle enqueued during one call: exactly one tuple (`one`), or none
pub open spec fn sent_one(o: Ldap, n: Ldap) -> bool { n.tx.log@ == o.tx.log@.push(n.tx.log@.last()) }
pub open spec fn sent(n: Ldap) -> Sent { n.tx.log@.last() }
pub open spec fn sent_none(o: Ldap, n: Ldap) -> bool { n.tx.log@ == o.tx.log@ }
// the value a caller gets from a reply (tag, controls): LdapResultExt::from(tag) with ctrls replaced
pub open spec fn assembled(resp: (Tag, Vec<Control>), t: (LdapResult, Exop, SaslCreds)) -> bool {
    let e = ext_of_tag(resp.0);
    t.0.rc == e.0.rc && t.0.matched == e.0.matched && t.0.text == e.0.text && t.0.refs == e.0.refs && t.0.ctrls == resp.1
        && t.1 == e.1 && t.2 == e.2
}
// RFC 4511 request shapes (written from the RFC, section numbers in the labels below)
pub open spec fn spec_bind_simple(dn: Seq<u8>, pw: Seq<u8>) -> T { t_app_c(0, seq![t_int(3), t_os(dn), t_ctx_p(0, pw)]) }
pub open spec fn spec_bind_sasl(mech: Seq<u8>, creds: Option<Seq<u8>>) -> T {
    // (no `match` inside seq![..]: this Verus does not unfold it)
    match creds {
        Some(c) => t_app_c(0, seq![t_int(3), t_os(Seq::empty()), t_ctx_c(3, seq![t_os(mech), t_os(c)])]),
        None => t_app_c(0, seq![t_int(3), t_os(Seq::empty()), t_ctx_c(3, seq![t_os(mech)])]),
    }
}
pub open spec fn spec_compare(dn: Seq<u8>, attr: Seq<u8>, val: Seq<u8>) -> T { t_app_c(14, seq![t_os(dn), t_seq(seq![t_os(attr), t_os(val)])]) }
pub open spec fn spec_delete(dn: Seq<u8>) -> T { t_app_p(10, dn) }
pub open spec fn spec_modifydn(dn: Seq<u8>, rdn: Seq<u8>, delete_old: bool, new_sup: Option<Seq<u8>>) -> T {
    t_app_c(12, match new_sup { Some(s) => seq![t_os(dn), t_os(rdn), t_bool(delete_old), t_ctx_p(0, s)], None => seq![t_os(dn), t_os(rdn), t_bool(delete_old)] })
}
pub open spec fn spec_unbind() -> T { t_app_p(2, Seq::empty()) }
pub open spec fn spec_abandon(id: int) -> T { T::P(TagClass::Application, 16, int_octets(id)) }

pub uninterp spec fn exop_trees(e: Exop) -> Seq<T>;    // construct_exop's contract is V-codecs' subject
#[verifier::external_body]
pub fn construct_exop(e: Exop) -> (r: Vec<Tag>) ensures trees(r@, r@.len()) == exop_trees(e) { unimplemented!() }
pub trait IntoExop { spec fn as_exop(&self) -> Exop; fn into(self) -> (r: Exop) ensures r == self.as_exop(); }

//@lift name=sasl_bind_req file=src/ldap.rs fn=sasl_bind_req
//@ ret r
//@ tail last
    proof { tree_lemmas::lemma_trees3(verif_ret->Sequence_0.inner@, 3);
        if creds is Some { tree_lemmas::lemma_trees2(verif_ret->Sequence_0.inner@[2]->Sequence_0.inner@, 2); } else { tree_lemmas::lemma_trees1(verif_ret->Sequence_0.inner@[2]->Sequence_0.inner@, 1); } }
//@ spec
    ensures tree(r) == spec_bind_sasl(mech.spec_bytes(), match creds { Some(c) => Some(c@), None => None }), //# C02.sasl_bind_request_rfc4511_4.2
//@end

impl Ldap {
    // contract of next_msgid, discharged on its own text in V-msgid (clauses C05.id_in_range / id_not_in_use)
    #[verifier::external_body]
    fn next_msgid(&mut self) -> (r: i32)
        ensures 1 <= r <= i32::MAX, final(self).tx == old(self).tx, final(self).id_scrub_tx == old(self).id_scrub_tx,
            final(self).timeout == old(self).timeout, final(self).controls == old(self).controls, final(self).search_opts == old(self).search_opts,
            final(self).last_id == old(self).last_id,
    { unimplemented!() }

//@lift name=op_call file=src/ldap.rs impl="impl\s+Ldap\s*\{" fn=op_call
//@ ret r
//@ spec
    ensures
        final(self).controls is None, //# C02.controls_consumed_by_this_operation
        final(self).search_opts == old(self).search_opts,
        1 <= final(self).last_id <= i32::MAX, //# C05.request_id_in_range
        // enqueue failed => nothing sent, immediate error
        r matches Err(LdapError::OpSend) ==> sent_none(*old(self), *final(self)), //# C04.closed_request_channel_fails_immediately
        // otherwise exactly one tuple: fresh id == last_id, the given op and request, the caller's controls
        !(r matches Err(LdapError::OpSend)) ==> sent_one(*old(self), *final(self)), //# C01+C02.exactly_one_request_enqueued
        !(r matches Err(LdapError::OpSend)) ==> sent(*final(self)).id == final(self).last_id, //# C01+C05.request_carries_the_id_just_reserved
        !(r matches Err(LdapError::OpSend)) ==> sent(*final(self)).op == op && sent(*final(self)).req == req, //# C02.request_is_the_one_built_by_the_caller
        !(r matches Err(LdapError::OpSend)) ==> sent(*final(self)).controls == old(self).controls, //# C02.request_carries_the_callers_controls
        !(r matches Err(LdapError::OpSend)) ==> final(self).timeout is None, //# C02+C12.timeout_consumed_by_this_operation
        // the result is built from the reply received on this operation's own channel
        r matches Ok(t) ==> (reply_of(sent(*final(self)).reply) matches Ok(resp) && assembled(resp, t)), //# C01+C03.result_is_the_reply_on_own_channel
        // dropped reply sender (driver gone) => error, never data
        (!(r matches Err(LdapError::OpSend)) && reply_of(sent(*final(self)).reply) is Err) ==> r is Err, //# C04.dropped_reply_channel_is_an_error
        // timeout
        r matches Err(LdapError::Timeout) ==> old(self).timeout is Some
            && final(self).id_scrub_tx.log@ == old(self).id_scrub_tx.log@.push(final(self).last_id), //# C12+C13.timeout_scrubs_own_id
        !(r matches Err(LdapError::Timeout)) ==> final(self).id_scrub_tx.log@ == old(self).id_scrub_tx.log@, //# C12.no_scrub_without_timeout
        old(self).timeout is None ==> !(r matches Err(LdapError::Timeout)), //# C12.no_timer_without_timeout
//@end

//@lift name=with_search_options file=src/ldap.rs impl="impl\s+Ldap\s*\{" fn=with_search_options
//@ ret r
//@ spec
    ensures (*r).search_opts == Some(opts), (*r).controls == old(self).controls, (*r).timeout == old(self).timeout,
        (*r).tx == old(self).tx, (*r).last_id == old(self).last_id, //# C02.with_search_options_sets_exactly_that_field
//@end

//@lift name=with_controls file=src/ldap.rs impl="impl\s+Ldap\s*\{" fn=with_controls
//@ ret r
//@ spec
    ensures (*r).controls matches Some(c) && c@ == ctrls.as_vec(), (*r).search_opts == old(self).search_opts, (*r).timeout == old(self).timeout,
        (*r).tx == old(self).tx, (*r).last_id == old(self).last_id, //# C02.with_controls_sets_exactly_that_field
//@end

//@lift name=with_timeout file=src/ldap.rs impl="impl\s+Ldap\s*\{" fn=with_timeout
//@ ret r
//@ spec
    ensures (*r).timeout == Some(duration), (*r).controls == old(self).controls, (*r).search_opts == old(self).search_opts,
        (*r).tx == old(self).tx, (*r).last_id == old(self).last_id, //# C02+C12.with_timeout_sets_exactly_that_field
//@end

//@lift name=simple_bind file=src/ldap.rs impl="impl\s+Ldap\s*\{" fn=simple_bind
//@ ret r
//@ insert before "Ok(self.op_call("
        proof { tree_lemmas::lemma_trees3(req->Sequence_0.inner@, 3); }
//@ spec
    ensures
        r matches Err(LdapError::OpSend) ==> sent_none(*old(self), *final(self)),
        !(r matches Err(LdapError::OpSend)) ==> sent_one(*old(self), *final(self)) && sent(*final(self)).op is Single
            && tree(sent(*final(self)).req) == spec_bind_simple(bind_dn.spec_bytes(), bind_pw.spec_bytes())
            && sent(*final(self)).controls == old(self).controls, //# C02.simple_bind_request_rfc4511_4.2
        final(self).controls is None,
//@end

//@lift name=sasl_external_bind file=src/ldap.rs impl="impl\s+Ldap\s*\{" fn=sasl_external_bind
//@ rules +R11
//@ ret r
//@ insert entry
        proof { assert([0u8; 0]@ =~= Seq::<u8>::empty()); }
//@ spec
    ensures
        // RFC 4513 5.2.3 / RFC 4422: EXTERNAL with the empty authorization identity
        !(r matches Err(LdapError::OpSend)) ==> sent_one(*old(self), *final(self)) && sent(*final(self)).op is Single
            && tree(sent(*final(self)).req) == spec_bind_sasl("EXTERNAL".spec_bytes(), Some(Seq::<u8>::empty()))
            && sent(*final(self)).controls == old(self).controls, //# C02.sasl_external_bind_request
//@end

//@lift name=compare file=src/ldap.rs impl="impl\s+Ldap\s*\{" fn=compare
//@ sub "<B: AsRef<[u8]>>" => ""
//@ sub "val: B" => "val: &[u8]"
//@ sub "Vec::from(val.as_ref())" => "Vec::from(val)"
//@ ret r
//@ insert before "Ok(CompareResult(self.op_call("
        proof { tree_lemmas::lemma_trees2(req->Sequence_0.inner@, 2); tree_lemmas::lemma_trees2(req->Sequence_0.inner@[1]->Sequence_0.inner@, 2); }
//@ spec
    ensures
        !(r matches Err(LdapError::OpSend)) ==> sent_one(*old(self), *final(self)) && sent(*final(self)).op is Single
            && tree(sent(*final(self)).req) == spec_compare(dn.spec_bytes(), attr.spec_bytes(), val@)
            && sent(*final(self)).controls == old(self).controls, //# C02.compare_request_rfc4511_4.10
//@end

//@lift name=delete file=src/ldap.rs impl="impl\s+Ldap\s*\{" fn=delete
//@ ret r
//@ spec
    ensures
        !(r matches Err(LdapError::OpSend)) ==> sent_one(*old(self), *final(self)) && sent(*final(self)).op is Single
            && tree(sent(*final(self)).req) == spec_delete(dn.spec_bytes())
            && sent(*final(self)).controls == old(self).controls, //# C02.delete_request_rfc4511_4.8
//@end

//@lift name=modifydn file=src/ldap.rs impl="impl\s+Ldap\s*\{" fn=modifydn
//@ ret r
//@ insert before "Ok(self.op_call("
        proof { if new_sup is Some { tree_lemmas::lemma_trees4(req->Sequence_0.inner@, 4); } else { tree_lemmas::lemma_trees3(req->Sequence_0.inner@, 3); } }
//@ spec
    ensures
        !(r matches Err(LdapError::OpSend)) ==> sent_one(*old(self), *final(self)) && sent(*final(self)).op is Single
            && tree(sent(*final(self)).req) == spec_modifydn(dn.spec_bytes(), rdn.spec_bytes(), delete_old, match new_sup { Some(s) => Some(s.spec_bytes()), None => None })
            && sent(*final(self)).controls == old(self).controls, //# C02.modifydn_request_rfc4511_4.9
//@end

//@lift name=extended file=src/ldap.rs impl="impl\s+Ldap\s*\{" fn=extended
//@ sub "E: Into<Exop>," => "E: IntoExop,"
//@ closure at="|et| ExopResult(et.1, et.0)" params="et: (LdapResult, Exop, SaslCreds)" ret="(x: ExopResult)"
            ensures x.0 == et.1 && x.1 == et.0
//@ ret r
//@ spec
    ensures
        !(r matches Err(LdapError::OpSend)) ==> sent_one(*old(self), *final(self)) && sent(*final(self)).op is Single
            && tree(sent(*final(self)).req) == t_app_c(23, exop_trees(exop.as_exop()))
            && sent(*final(self)).controls == old(self).controls, //# C02.extended_request_rfc4511_4.12
//@end

//@lift name=unbind file=src/ldap.rs impl="impl\s+Ldap\s*\{" fn=unbind
//@ closure at="|_x| ()" params="_x: (LdapResult, Exop, SaslCreds)" ret="(u: ())"
            ensures true
//@ sub ".map(|_| ())" => ".map(|_x| ())"
//@ ret r
//@ spec
    ensures
        !(r matches Err(LdapError::OpSend)) ==> sent_one(*old(self), *final(self)) && sent(*final(self)).op is Unbind
            && tree(sent(*final(self)).req) == spec_unbind(), //# C02.unbind_request_rfc4511_4.3
//@end

//@lift name=abandon file=src/ldap.rs impl="impl\s+Ldap\s*\{" fn=abandon
//@ closure at="|_x| ()" params="_x: (LdapResult, Exop, SaslCreds)" ret="(u: ())"
            ensures true
//@ sub ".map(|_| ())" => ".map(|_x| ())"
//@ ret r
//@ spec
    ensures
        !(r matches Err(LdapError::OpSend)) ==> sent_one(*old(self), *final(self)) && sent(*final(self)).op == LdapOp::Abandon(msgid)
            && tree(sent(*final(self)).req) == spec_abandon(msgid as int), //# C02+C13.abandon_request_names_the_given_id_rfc4511_4.11
//@end

//@lift name=last_id file=src/ldap.rs impl="impl\s+Ldap\s*\{" fn=last_id
//@ ret r
//@ spec
    ensures r == old(self).last_id, *final(self) == *old(self),
//@end
}

impl Clone for Ldap {
//@lift name=Ldap::clone file=src/ldap.rs impl="impl\s+Clone\s+for\s+Ldap\s*\{" fn=clone canary=skip
//@ ret r
//@ spec
    ensures r.tx == self.tx, r.id_scrub_tx == self.id_scrub_tx, r.msgmap == self.msgmap,
        r.last_id == 0 && r.timeout is None && r.controls is None && r.search_opts is None, //# C02+C12.cloned_handle_starts_without_modifiers
//@end
}


// ======================================================================= Add / Modify: the per-element closure bodies
// `Ldap::add` and `Ldap::modify` build their requests with `.map(|..| { .. })` closures that set a captured flag; this Verus
// rejects closures capturing `&mut`, so the enclosing functions are NOT under contract.  The closure BODIES are lifted
// (locator L7) as functions taking the flag by `&mut` (recorded substitution `flag = true` -> `*flag = true`); the inner
// `set.into_iter().map(|v| OctetString(v)).collect()` over a HashSet is a recorded idiom ("the values as OCTET STRINGs, in
// the set's iteration order").  Decided: RFC 4511 4.6 / 4.7 shape of one change / one attribute, the operation numbers,
// and when the "no values" flag is raised; since round 3 also the enclosing functions (end of this file).
pub struct AV { pub b: Vec<u8> }      // an attribute name or value (`S: AsRef<[u8]>`)
impl AV { pub fn as_ref(&self) -> (r: &[u8]) ensures r@ == self.b@ { self.b.as_slice() } }
pub struct HashSet { pub g: u8 }      // HashSet<S>
impl HashSet {
    pub uninterp spec fn elems(&self) -> Seq<AV>;        // the values, in the set's iteration order
    pub open spec fn count(&self) -> nat { self.elems().len() }
    pub open spec fn value_trees(&self) -> Seq<T> { self.elems().map_values(|a: AV| t_os(a.b@)) }   // the values as OCTET STRINGs, in iteration order
    #[verifier::external_body] pub fn is_empty(&self) -> (r: bool) ensures r == (self.count() == 0) { unimplemented!() }
    #[verifier::external_body] pub fn from(a: [AV; 1]) -> (r: HashSet) ensures r.elems() == seq![a@[0]] { unimplemented!() }
    #[verifier::external_body] pub fn into_iter(self) -> (r: SetIter) ensures r.items@ == self.elems() { unimplemented!() }
}
// `set.into_iter().map(f).collect()`: f on each value in iteration order (the adapters are std's; stub with an element-wise
// contract).  The consequence the callers need -- the collected tags are the values' OCTET STRING trees -- is PROVED below
// from that contract and the contract woven onto the closure, not assumed.
pub struct SetIter { pub items: Ghost<Seq<AV>> }
pub struct Mapped { pub v: Vec<Tag> }
#[verifier::external_body]
pub fn set_map_raw<F: Fn(AV) -> Tag>(it: SetIter, f: F) -> (o: Mapped)
    requires forall|i: int| 0 <= i < it.items@.len() ==> f.requires((#[trigger] it.items@[i],)),
    ensures o.v@.len() == it.items@.len(), forall|i: int| 0 <= i < it.items@.len() ==> f.ensures((it.items@[i],), #[trigger] o.v@[i]),
{ unimplemented!() }
impl SetIter {
    pub fn map<F: Fn(AV) -> Tag>(self, f: F) -> (o: Mapped)
        requires forall|i: int| 0 <= i < self.items@.len() ==> f.requires((#[trigger] self.items@[i],)),
        ensures o.v@.len() == self.items@.len(),
            (forall|a: AV, t: Tag| #[trigger] f.ensures((a,), t) ==> tree(t) == t_os(a.b@)) ==> trees(o.v@, o.v@.len()) == self.items@.map_values(|a: AV| t_os(a.b@)),
    {
        let ghost items = self.items@;
        let o = set_map_raw(self, f);
        proof {
            if forall|a: AV, t: Tag| #[trigger] f.ensures((a,), t) ==> tree(t) == t_os(a.b@) {
                lemma_trees_len(o.v@, o.v@.len());
                assert forall|i: int| 0 <= i < items.len() implies trees(o.v@, o.v@.len())[i] == items.map_values(|a: AV| t_os(a.b@))[i] by { assert(f.ensures((items[i],), o.v@[i])); }
                assert(trees(o.v@, o.v@.len()) =~= items.map_values(|a: AV| t_os(a.b@)));
            }
        }
        o
    }
}
impl Mapped { pub fn collect(self) -> (r: Vec<Tag>) ensures r == self.v { self.v } }
//@item file=src/ldap.rs kind=enum name=Mod retype="Mod<S: AsRef<[u8]> + Eq + Hash> => Mod; HashSet<S> => HashSet; (S, => (AV,; , S) => , AV)"
pub open spec fn mod_op(m: Mod) -> int { match m { Mod::Add(_, _) => 0, Mod::Delete(_, _) => 1, Mod::Replace(_, _) => 2, Mod::Increment(_, _) => 3 } }
pub open spec fn mod_attr(m: Mod) -> Seq<u8> { match m { Mod::Add(a, _) => a.b@, Mod::Delete(a, _) => a.b@, Mod::Replace(a, _) => a.b@, Mod::Increment(a, _) => a.b@ } }
pub open spec fn mod_vals(m: Mod) -> Seq<T> { match m { Mod::Add(_, s) => s.value_trees(), Mod::Delete(_, s) => s.value_trees(), Mod::Replace(_, s) => s.value_trees(), Mod::Increment(_, v) => seq![t_os(v.b@)] } }

// the innermost closures (one value -> its OCTET STRING), lifted as functions and passed by name (lifter L7 + R12)
//@lift name=modify::value file=src/ldap.rs block=".map(|val|" as="fn modify_value_tag(val: AV) -> (o: Tag)"
//@ spec
    ensures tree(o) == t_os(val.b@), //# C02.modify_value_is_an_octet_string_of_the_value
//@end
//@lift name=add::value file=src/ldap.rs block=".map(|v|" as="fn add_value_tag(v: AV) -> (o: Tag)"
//@ spec
    ensures tree(o) == t_os(v.b@), //# C02.add_value_is_an_octet_string_of_the_value
//@end
//@lift name=modify::change file=src/ldap.rs block=".map(|m|" as="fn modify_change(m: Mod, any_add_empty: &mut bool) -> (r: Tag)"
//@ sub "any_add_empty = " => "*any_add_empty = " count=*
//@ arg ".map(|val|" => "modify_value_tag"
//@ insert after-let num
                            proof { assert(set.value_trees() =~= mod_vals(m)); }
//@ insert before "Tag::Sequence(Sequence {\n                                inner: vec![op, part_attr],"
                            proof {
                                tree_lemmas::lemma_trees2(part_attr->Sequence_0.inner@, 2);
                            }
//@ tail last
                            proof { tree_lemmas::lemma_trees2(verif_ret->Sequence_0.inner@, 2); }
//@ spec
    ensures
        // RFC 4511 4.6: change ::= SEQUENCE { operation ENUMERATED { add(0), delete(1), replace(2), increment(3) }, modification PartialAttribute { type, vals SET OF } }
        tree(r) == t_seq(seq![t_enum(mod_op(m)), t_seq(seq![t_os(mod_attr(m)), t_set(mod_vals(m))])]), //# C02.modify_change_rfc4511_4.6_operation_numbers_0_1_2_3
        *final(any_add_empty) == (*old(any_add_empty) || (m matches Mod::Add(_, s) && s.count() == 0)), //# C02.modify_flags_an_add_without_values
//@end

//@lift name=add::attribute file=src/ldap.rs block=".map(|(name, vals)|" as="fn add_attribute(name: AV, vals: HashSet, any_empty: &mut bool) -> (r: Tag)"
//@ sub "any_empty = " => "*any_empty = " count=*
//@ arg ".map(|v|" => "add_value_tag"
//@ tail last
                            proof { tree_lemmas::lemma_trees2(verif_ret->Sequence_0.inner@, 2); }
//@ spec
    ensures
        // RFC 4511 4.7: Attribute ::= SEQUENCE { type AttributeDescription, vals SET OF value }
        tree(r) == t_seq(seq![t_os(name.b@), t_set(vals.value_trees())]), //# C02.add_attribute_rfc4511_4.7
        *final(any_empty) == (*old(any_empty) || vals.count() == 0), //# C02.add_flags_an_attribute_without_values
//@end


// ---- the ENCLOSING functions add / modify: the closure over the whole list is replaced (R12) by the captured flag, and
// `list.into_iter().map(closure).collect()` is a verified loop over the lifted closure body above -------------------------
pub open spec fn change_tree(m: Mod) -> T { t_seq(seq![t_enum(mod_op(m)), t_seq(seq![t_os(mod_attr(m)), t_set(mod_vals(m))])]) }
pub open spec fn change_trees(ms: Seq<Mod>, n: nat) -> Seq<T> decreases n { if n == 0 || n > ms.len() { Seq::<T>::empty() } else { change_trees(ms, (n - 1) as nat).push(change_tree(ms[n - 1])) } }
pub open spec fn any_add_without_values(ms: Seq<Mod>, n: nat) -> bool { exists|j: int| 0 <= j < n && j < ms.len() && (#[trigger] ms[j] matches Mod::Add(_, s) && s.count() == 0) }
// RFC 4511 4.6: ModifyRequest ::= [APPLICATION 6] SEQUENCE { object LDAPDN, changes SEQUENCE OF change }
pub open spec fn spec_modify(dn: Seq<u8>, ms: Seq<Mod>) -> T { t_app_c(6, seq![t_os(dn), t_seq(change_trees(ms, ms.len()))]) }
pub struct TagList { pub v: Vec<Tag> }
impl TagList { pub fn collect(self) -> (r: Vec<Tag>) ensures r == self.v { self.v } }
pub trait ModIterExt: Sized { fn verif_map_changes(self, flag: &mut bool) -> TagList; }
pub fn map_changes(mods: Vec<Mod>, flag: &mut bool) -> (o: TagList)
    ensures trees(o.v@, o.v@.len()) == change_trees(mods@, mods@.len()),
        *final(flag) == (*old(flag) || any_add_without_values(mods@, mods@.len())),
{
    let mut out: Vec<Tag> = Vec::new();
    let ghost f0 = *flag;
    let ghost all = mods@;
    for m in it: mods
        invariant it.seq() == all, out@.len() == it.index@,
            trees(out@, out@.len()) == change_trees(all, it.index@ as nat),
            *flag == (f0 || any_add_without_values(all, it.index@ as nat)),
    {
        let ghost before = out@;
        let ghost fb = *flag;
        let t = modify_change(m, flag);
        out.push(t);
        proof {
            lemma_trees_len(before, before.len());
            lemma_trees_len(out@, out@.len());
            assert(trees(out@, out@.len()) =~= trees(before, before.len()).push(tree(t)));
            assert(all[it.index@] == m);
            if *flag && !fb { assert(all[it.index@] matches Mod::Add(_, s) && s.count() == 0); }
        }
    }
    TagList { v: out }
}
impl Ldap {
//@lift name=modify file=src/ldap.rs impl="impl\s+Ldap\s*\{" fn=modify
//@ sub "fn modify<S: AsRef<[u8]> + Eq + Hash>(" => "fn modify("
//@ sub "mods: Vec<Mod<S>>," => "mods: Vec<Mod>,"
//@ arg ".map(|m|" => "&mut any_add_empty"
//@ sub "mods\n                        .into_iter()\n                        .map(&mut any_add_empty)" => "map_changes(mods, &mut any_add_empty)"
//@ ret r
//@ insert after-let req
        proof { tree_lemmas::lemma_trees2(req->Sequence_0.inner@, 2); }
//@ spec
    ensures
        any_add_without_values(mods@, mods@.len()) ==> (r matches Err(LdapError::AddNoValues)) && sent_none(*old(self), *final(self)), //# C02.modify_with_a_valueless_add_is_refused_before_anything_is_sent
        (!any_add_without_values(mods@, mods@.len()) && !(r matches Err(LdapError::OpSend))) ==> sent_one(*old(self), *final(self)) && sent(*final(self)).op is Single
            && tree(sent(*final(self)).req) == spec_modify(dn.spec_bytes(), mods@)
            && sent(*final(self)).controls == old(self).controls, //# C02.modify_request_rfc4511_4.6
//@end
}

// RFC 4511 4.7: AddRequest ::= [APPLICATION 8] SEQUENCE { entry LDAPDN, attributes SEQUENCE OF Attribute }
pub open spec fn attr_tree(a: (AV, HashSet)) -> T { t_seq(seq![t_os(a.0.b@), t_set(a.1.value_trees())]) }
pub open spec fn attr_trees(s: Seq<(AV, HashSet)>, n: nat) -> Seq<T> decreases n { if n == 0 || n > s.len() { Seq::<T>::empty() } else { attr_trees(s, (n - 1) as nat).push(attr_tree(s[n - 1])) } }
pub open spec fn any_attr_without_values(s: Seq<(AV, HashSet)>, n: nat) -> bool { exists|j: int| 0 <= j < n && j < s.len() && (#[trigger] s[j]).1.count() == 0 }
pub open spec fn spec_add(dn: Seq<u8>, attrs: Seq<(AV, HashSet)>) -> T { t_app_c(8, seq![t_os(dn), t_seq(attr_trees(attrs, attrs.len()))]) }
pub fn map_attributes(attrs: Vec<(AV, HashSet)>, flag: &mut bool) -> (o: TagList)
    ensures trees(o.v@, o.v@.len()) == attr_trees(attrs@, attrs@.len()),
        *final(flag) == (*old(flag) || any_attr_without_values(attrs@, attrs@.len())),
{
    let mut out: Vec<Tag> = Vec::new();
    let ghost f0 = *flag;
    let ghost all = attrs@;
    for a in it: attrs
        invariant it.seq() == all, out@.len() == it.index@,
            trees(out@, out@.len()) == attr_trees(all, it.index@ as nat),
            *flag == (f0 || any_attr_without_values(all, it.index@ as nat)),
    {
        let ghost before = out@;
        let ghost fb = *flag;
        let ghost cur = a;
        let (name, vals) = a;
        let t = add_attribute(name, vals, flag);
        out.push(t);
        proof {
            lemma_trees_len(before, before.len());
            lemma_trees_len(out@, out@.len());
            assert(trees(out@, out@.len()) =~= trees(before, before.len()).push(tree(t)));
            assert(all[it.index@] == cur);
            if *flag && !fb { assert(all[it.index@].1.count() == 0); }
        }
    }
    TagList { v: out }
}
impl Ldap {
//@lift name=add file=src/ldap.rs impl="impl\s+Ldap\s*\{" fn=add
//@ sub "fn add<S: AsRef<[u8]> + Eq + Hash>(" => "fn add("
//@ sub "attrs: Vec<(S, HashSet<S>)>," => "attrs: Vec<(AV, HashSet)>,"
//@ arg ".map(|(name, vals)|" => "&mut any_empty"
//@ sub "attrs\n                        .into_iter()\n                        .map(&mut any_empty)" => "map_attributes(attrs, &mut any_empty)"
//@ ret r
//@ insert after-let req
        proof { tree_lemmas::lemma_trees2(req->Sequence_0.inner@, 2); }
//@ spec
    ensures
        any_attr_without_values(attrs@, attrs@.len()) ==> (r matches Err(LdapError::AddNoValues)) && sent_none(*old(self), *final(self)), //# C02.add_with_a_valueless_attribute_is_refused_before_anything_is_sent
        (!any_attr_without_values(attrs@, attrs@.len()) && !(r matches Err(LdapError::OpSend))) ==> sent_one(*old(self), *final(self)) && sent(*final(self)).op is Single
            && tree(sent(*final(self)).req) == spec_add(dn.spec_bytes(), attrs@)
            && sent(*final(self)).controls == old(self).controls, //# C02.add_request_rfc4511_4.7
//@end
}
} // verus!
fn main() {}
