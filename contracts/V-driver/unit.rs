// Unit V-driver: the four `tokio::select!` arms of LdapConnAsync::turn (src/conn.rs), each lifted as
// `fn arm_x(&mut self, <value bound by the arm>) -> Flow` (rules L2, R3, R4, R5, R7).
// Serves C01 (routing), C04 (which events end the driver), C05/C13 (release of IDs, E1-E6), C11 (no panic),
// C12 (scrub).
//
// Prelude = trusted shapes.  Channel endpoints are opaque types carrying a ghost `owner()` = the message ID
// of the operation that holds the receiving end; the framed sink keeps a ghost log of what was handed to it.
use vstd::prelude::*;
use vstd::std_specs::convert::*;
use std::collections::{HashMap, HashSet};
verus! {
broadcast use vstd::std_specs::hash::group_hash_axioms;

pub type RequestId = i32;
pub struct StructureTag { pub id: u64, pub class: u8, pub payload: Vec<u8> }
pub struct Null { pub id: u64 }
impl Default for Null { fn default() -> Null { Null { id: 5 } } }
pub enum Tag { StructureTag(StructureTag), Null(Null), Other(u8) }
pub struct Control { pub x: u8 }
pub struct RawControl { pub x: u8 }
pub type MaybeControls = Option<Vec<RawControl>>;
pub struct IoError { pub k: u8 }
pub enum LdapError { Io(IoError) }
impl LdapError { pub fn from(e: IoError) -> LdapError { LdapError::Io(e) } }
pub struct LdapResult { pub rc: u32 }

// ghost attributes: the message ID of the frame a value was decoded from, and the protocolOp number a
// result was converted from.  V-decode proves that decode_inner returns (id, tag) from the same envelope.
pub uninterp spec fn st_frame(s: StructureTag) -> i32;
pub uninterp spec fn res_frame(r: LdapResult) -> i32;
pub uninterp spec fn res_op(r: LdapResult) -> u64;
pub open spec fn tag_frame(t: Tag) -> i32 { match t { Tag::StructureTag(s) => st_frame(s), _ => 0 } }
pub uninterp spec fn result_of_tag(t: Tag) -> LdapResult;
pub broadcast axiom fn result_of_tag_keeps_frame(s: StructureTag)
    ensures res_frame(#[trigger] result_of_tag(Tag::StructureTag(s))) == st_frame(s),
            res_op(result_of_tag(Tag::StructureTag(s))) == s.id;
impl FromSpecImpl<Tag> for LdapResult {
    open spec fn obeys_from_spec() -> bool { true }
    open spec fn from_spec(t: Tag) -> LdapResult { result_of_tag(t) }
}
impl From<Tag> for LdapResult {
    // contract of `impl From<Tag> for LdapResult` (src/result.rs); its panic-freedom is V-result's subject
    #[verifier::external_body]
    fn from(t: Tag) -> (r: LdapResult) { unimplemented!() }
}

//@item file=src/search.rs kind=enum name=SearchItem
pub open spec fn item_frame(i: SearchItem) -> i32 {
    match i { SearchItem::Entry(s) => st_frame(s), SearchItem::Referral(s) => st_frame(s), SearchItem::Done(r) => res_frame(r) }
}
// RFC 4511: SearchResultEntry [APPLICATION 4], SearchResultDone [5], SearchResultReference [19], IntermediateResponse [25]
pub open spec fn item_kind_ok(i: SearchItem) -> bool {
    match i {
        SearchItem::Entry(s) => s.id == 4 || s.id == 25,
        SearchItem::Referral(s) => s.id == 19,
        SearchItem::Done(r) => res_op(r) == 5,
    }
}

#[verifier::external_body]
pub struct ItemSender { _p: u8 }       // tokio mpsc::UnboundedSender<(SearchItem, Vec<Control>)>
#[verifier::external_body]
pub struct ResultSender { _p: u8 }     // tokio oneshot::Sender<(Tag, Vec<Control>)>
#[verifier::external_body]
pub struct CertSender { _p: u8 }       // tokio oneshot::Sender<Option<Vec<u8>>>
impl ItemSender {
    pub uninterp spec fn owner(&self) -> i32;
    // prophecy: whether the receiving end still exists when this value is sent (send fails only if it was dropped)
    pub uninterp spec fn accepts(&self, v: (SearchItem, Vec<Control>)) -> bool;
    #[verifier::external_body]
    pub fn send(&self, v: (SearchItem, Vec<Control>)) -> (r: core::result::Result<(), (SearchItem, Vec<Control>)>)
        requires
            item_frame(v.0) == self.owner(), //# C01.search_item_routed_to_owner_of_its_message_id
            item_kind_ok(v.0), //# C01.entry_referral_done_classification
        ensures r is Ok <==> self.accepts(v),
    { unimplemented!() }
}
impl Clone for ItemSender {
    #[verifier::external_body]
    fn clone(&self) -> (r: ItemSender) ensures r.owner() == self.owner() { unimplemented!() }
}
impl ResultSender {
    pub uninterp spec fn owner(&self) -> i32;
    #[verifier::external_body]
    pub fn send(self, v: (Tag, Vec<Control>)) -> (r: core::result::Result<(), (Tag, Vec<Control>)>)
        requires
            v.0 is Null || tag_frame(v.0) == self.owner(), //# C01.result_routed_to_owner_of_its_message_id
    { unimplemented!() }
}
impl CertSender {
    #[verifier::external_body]
    pub fn send(self, v: Option<Vec<u8>>) -> (r: core::result::Result<(), Option<Vec<u8>>>) { unimplemented!() }
}
//@item file=src/protocol.rs kind=enum name=LdapOp
//@item file=src/protocol.rs kind=enum name=MiscSender retype="oneshot::Sender<Option<Vec<u8>>>=>CertSender"

pub struct SendFut { pub g: u8 }
impl SendFut {
    #[verifier::external_body]
    pub fn verif_await(self) -> core::result::Result<(), IoError> { unimplemented!() }
}
pub struct UnitFut { pub g: u8 }
impl UnitFut {
    #[verifier::external_body]
    pub fn verif_await(self) -> core::result::Result<(), IoError> { unimplemented!() }
}
pub struct ConnType { pub shut: bool }
impl ConnType {
    #[verifier::external_body]
    pub fn shutdown(&mut self) -> (f: UnitFut) ensures final(self).shut { unimplemented!() }
}
// tokio_util Framed<ConnType, LdapCodec>: ghost log of what was handed to the sink
pub struct Framed { pub io: ConnType, pub sent: Ghost<Seq<(i32, Tag, MaybeControls)>>, pub closed: bool }
impl Framed {
    #[verifier::external_body]
    pub fn send(&mut self, m: (RequestId, Tag, MaybeControls)) -> (f: SendFut)
        ensures final(self).sent@ == old(self).sent@.push(m), final(self).closed == old(self).closed, final(self).io == old(self).io
    { unimplemented!() }
    #[verifier::external_body]
    pub fn close(&mut self) -> (f: UnitFut)
        ensures final(self).closed, final(self).sent@ == old(self).sent@, final(self).io == old(self).io
    { unimplemented!() }
    #[verifier::external_body]
    pub fn get_mut(&mut self) -> (r: &mut ConnType)
        ensures *r == old(self).io, final(self).io == *final(r), final(self).sent@ == old(self).sent@, final(self).closed == old(self).closed
    { unimplemented!() }
}

pub struct Conn {
    pub msgmap: (i32, HashSet<i32>),
    pub resultmap: HashMap<i32, ResultSender>,
    pub searchmap: HashMap<i32, ItemSender>,
    pub stream: Framed,
}
pub enum Flow { Next, Break, Continue, Exit(core::result::Result<(), LdapError>) }

// what op_call / start_inner guarantee about a tuple they enqueue (proved in V-opcall / V-stream)
pub open spec fn op_wf(id: i32, op: LdapOp, tx: ResultSender) -> bool {
    tx.owner() == id && (op matches LdapOp::Search(s) ==> s.owner() == id)
}

impl Conn {
    // Route invariant: every stored sender belongs to the operation whose ID it is stored under
    pub open spec fn wf(&self) -> bool {
        &&& forall|k: i32| self.resultmap@.contains_key(k) ==> #[trigger] self.resultmap@[k].owner() == k
        &&& forall|k: i32| self.searchmap@.contains_key(k) ==> #[trigger] self.searchmap@[k].owner() == k
        // a route exists only for a reserved ID: a released ID can be handed out again, and a stale route would
        // then capture the new operation's responses (searchmap is consulted first)
        &&& forall|k: i32| #![trigger self.msgmap.1@.contains(k)] (self.resultmap@.contains_key(k) || self.searchmap@.contains_key(k)) ==> self.msgmap.1@.contains(k)
        // an ID has at most one route
        &&& forall|k: i32| #![trigger self.resultmap@.contains_key(k)] !(self.resultmap@.contains_key(k) && self.searchmap@.contains_key(k))
    }
    pub open spec fn inuse(&self) -> Set<i32> { self.msgmap.1@ }

    #[verifier::external_body]
    fn get_peer_certificate(&self) -> (r: core::result::Result<Option<Vec<u8>>, LdapError>) { unimplemented!() }

//@lift name=arm_scrub file=src/conn.rs impl="impl\s+LdapConnAsync\s*\{" fn=turn
//@+ arm="req_id = self.id_scrub_rx.recv() =>" as="fn arm_scrub(&mut self, req_id: Option<RequestId>) -> (f: Flow)"
//@ rules +R4
//@ spec
    requires old(self).wf(),
    ensures
        final(self).wf(), //# C01.route_invariant_preserved
        f is Next,
        req_id matches Some(id) ==> final(self).resultmap@ == old(self).resultmap@.remove(id), //# C12+C13.E3_scrub_removes_result_route
        req_id matches Some(id) ==> final(self).searchmap@ == old(self).searchmap@.remove(id), //# C12+C13.E3_scrub_removes_search_route
        req_id matches Some(id) ==> final(self).msgmap.1@ == old(self).msgmap.1@.remove(id), //# C05+C12+C13.E3_scrub_releases_exactly_that_id
        req_id is None ==> final(self).resultmap@ == old(self).resultmap@ && final(self).searchmap@ == old(self).searchmap@
            && final(self).msgmap.1@ == old(self).msgmap.1@, //# C01.scrub_none_changes_nothing
        final(self).msgmap.0 == old(self).msgmap.0,
        final(self).stream == old(self).stream, //# C12.scrub_sends_nothing
//@end

//@lift name=arm_op file=src/conn.rs impl="impl\s+LdapConnAsync\s*\{" fn=turn
//@+ arm="op_tuple = self.rx.recv() =>" as="fn arm_op(&mut self, op_tuple: Option<(RequestId, LdapOp, Tag, MaybeControls, ResultSender)>) -> (f: Flow)"
//@ rules +R4
//@ spec
    requires
        old(self).wf(),
        op_tuple matches Some(t) ==> op_wf(t.0, t.1, t.4),
        // the tuple's ID was reserved by next_msgid (V-msgid: not in use before, so by wf it has no route) and
        // nothing has released it since (assumption: no scrub of an ID overtakes the request that carries it)
        op_tuple matches Some(t) ==> old(self).msgmap.1@.contains(t.0)
            && !old(self).resultmap@.contains_key(t.0) && !old(self).searchmap@.contains_key(t.0),
    ensures
        final(self).wf(), //# C01.route_invariant_preserved
        op_tuple is None ==> f is Break && final(self).resultmap@ == old(self).resultmap@ && final(self).searchmap@ == old(self).searchmap@
            && final(self).msgmap.1@ == old(self).msgmap.1@ && final(self).stream == old(self).stream, //# C04.closed_request_channel_ends_driver
        // exactly one PDU handed to the sink, carrying the caller's id, request and controls
        op_tuple matches Some(t) ==> final(self).stream.sent@ == old(self).stream.sent@.push((t.0, t.2, t.3)), //# C01+C02.request_enqueued_once_with_id_and_controls
        // a write error ends the driver and the reply sender is not kept
        op_tuple matches Some(t) ==> (f is Exit ==> (f->Exit_0 is Err) && final(self).resultmap@ == old(self).resultmap@), //# C04.write_error_ends_driver
        op_tuple matches Some(t) ==> ((t.1 is Single && !(f is Exit)) ==> f is Continue && final(self).resultmap@ == old(self).resultmap@.insert(t.0, t.4)
            && final(self).searchmap@ == old(self).searchmap@), //# C01.single_op_reply_route_registered
        op_tuple matches Some(t) ==> (t.1 matches LdapOp::Search(s) ==> final(self).searchmap@.contains_key(t.0)
            && final(self).searchmap@[t.0].owner() == s.owner()
            && final(self).searchmap@.remove(t.0) == old(self).searchmap@.remove(t.0)
            && final(self).resultmap@ == old(self).resultmap@), //# C01.search_route_registered
        // E4: Abandon(m): routes of m dropped (which errors a caller still waiting on m), m released, the abandon's own id released
        op_tuple matches Some(t) ==> (t.1 matches LdapOp::Abandon(m) ==> (!(f is Exit) ==>
            final(self).resultmap@ == old(self).resultmap@.remove(m) && final(self).searchmap@ == old(self).searchmap@.remove(m))), //# C13.E4_abandon_drops_routes_of_target
        op_tuple matches Some(t) ==> (t.1 matches LdapOp::Abandon(m) ==> (!(f is Exit) ==> !final(self).msgmap.1@.contains(t.0))), //# C13.E4_abandon_releases_its_own_id
        op_tuple matches Some(t) ==> (t.1 matches LdapOp::Abandon(m) ==> (!(f is Exit) ==> !final(self).msgmap.1@.contains(m))), //# C13.E4_abandon_releases_target_id
        op_tuple matches Some(t) ==> (t.1 matches LdapOp::Abandon(m) ==> forall|k: i32| k != m && k != t.0 ==>
            final(self).msgmap.1@.contains(k) == old(self).msgmap.1@.contains(k)), //# C05.abandon_releases_no_other_id
        // Unbind: socket shut down and sink closed
        op_tuple matches Some(t) ==> ((t.1 is Unbind && !(f is Exit)) ==> final(self).stream.io.shut && final(self).stream.closed), //# C04.unbind_shuts_down_and_closes_transport
        // E6 / C05: the driver never reserves an id; outside Abandon it releases none here
        forall|k: i32| final(self).msgmap.1@.contains(k) ==> old(self).msgmap.1@.contains(k), //# C05+C13.E6_arm_never_adds_to_in_use
        op_tuple matches Some(t) ==> (!(t.1 is Abandon) ==> final(self).msgmap.1@ == old(self).msgmap.1@), //# C05.no_release_before_completion
        final(self).msgmap.0 == old(self).msgmap.0,
//@end

//@lift name=arm_misc file=src/conn.rs impl="impl\s+LdapConnAsync\s*\{" fn=turn
//@+ arm="misc = self.misc_rx.recv() =>" as="fn arm_misc(&mut self, misc: Option<MiscSender>) -> (f: Flow)"
//@ spec
    requires old(self).wf(),
    ensures
        final(self).wf(),
        misc is None ==> f is Break, //# C04.closed_misc_channel_ends_driver
        final(self).resultmap@ == old(self).resultmap@ && final(self).searchmap@ == old(self).searchmap@
            && final(self).msgmap == old(self).msgmap && final(self).stream == old(self).stream, //# C01.misc_arm_touches_no_routing_state
//@end

//@lift name=arm_resp file=src/conn.rs impl="impl\s+LdapConnAsync\s*\{" fn=turn
//@+ arm="resp = self.stream.next() =>" as="fn arm_resp(&mut self, resp: Option<core::result::Result<(RequestId, (Tag, Vec<Control>)), IoError>>) -> (f: Flow)"
//@ rules +R4
//@ insert entry
    broadcast use result_of_tag_keeps_frame;
//@ spec
    requires
        old(self).wf(),
        // V-decode: the tag returned with an id was cut from the envelope that carried that id
        resp matches Some(Ok(t)) ==> tag_frame(t.1.0) == t.0,
    ensures
        final(self).wf(), //# C01.route_invariant_preserved
        resp is None ==> f is Break, //# C04.end_of_stream_ends_driver
        resp matches Some(Err(e)) ==> f is Exit && (f->Exit_0 is Err), //# C04+C11.io_or_decode_error_ends_driver_with_error
        !(resp matches Some(Ok(_))) ==> final(self).resultmap@ == old(self).resultmap@ && final(self).searchmap@ == old(self).searchmap@
            && final(self).msgmap.1@ == old(self).msgmap.1@,
        final(self).stream == old(self).stream, //# C01.response_arm_writes_nothing
        final(self).msgmap.0 == old(self).msgmap.0,
        // frame: no other operation is disturbed
        resp matches Some(Ok(t)) ==> forall|k: i32| k != t.0 ==> (final(self).resultmap@.contains_key(k) == old(self).resultmap@.contains_key(k)
            && final(self).searchmap@.contains_key(k) == old(self).searchmap@.contains_key(k)
            && final(self).msgmap.1@.contains(k) == old(self).msgmap.1@.contains(k)), //# C01+C05.other_operations_undisturbed
        // unmatched id: delivered to nobody, nothing changes
        resp matches Some(Ok(t)) ==> (!old(self).searchmap@.contains_key(t.0) && !old(self).resultmap@.contains_key(t.0) ==>
            final(self).resultmap@ == old(self).resultmap@ && final(self).searchmap@ == old(self).searchmap@
            && final(self).msgmap.1@ == old(self).msgmap.1@), //# C01+C12.unmatched_id_changes_nothing
        // E1: single result delivered => route and id released
        resp matches Some(Ok(t)) ==> (old(self).resultmap@.contains_key(t.0) && !old(self).searchmap@.contains_key(t.0) ==>
            final(self).resultmap@ == old(self).resultmap@.remove(t.0) && !final(self).msgmap.1@.contains(t.0)
            && final(self).searchmap@ == old(self).searchmap@), //# C13.E1_single_result_releases_route_and_id
        // search item: the route stays or goes, nothing else
        resp matches Some(Ok(t)) ==> (old(self).searchmap@.contains_key(t.0) ==>
            final(self).resultmap@ == old(self).resultmap@
            && (final(self).searchmap@ == old(self).searchmap@ || final(self).searchmap@ == old(self).searchmap@.remove(t.0))), //# C01.search_item_touches_only_its_route
        // an entry / reference / intermediate response that its stream accepted leaves the search registered: the
        // operation keeps receiving everything the server sends under its ID, up to SearchResultDone
        resp matches Some(Ok(t)) ==> (old(self).searchmap@.contains_key(t.0) && (t.1.0 matches Tag::StructureTag(s)
            && ((s.id == 4 || s.id == 25) && old(self).searchmap@[t.0].accepts((SearchItem::Entry(s), t.1.1))
                || s.id == 19 && old(self).searchmap@[t.0].accepts((SearchItem::Referral(s), t.1.1)))) ==>
            final(self).searchmap@ == old(self).searchmap@ && final(self).msgmap.1@ == old(self).msgmap.1@), //# C01+C05+C10.search_stays_registered_and_its_id_reserved_until_done_or_its_stream_is_dropped
        // E2b: an entry / reference for a search whose stream was dropped (the item cannot be delivered): the search is
        // over for the client -- its route and its id are released at once ("prematurely finished searches" of C13)
        resp matches Some(Ok(t)) ==> (old(self).searchmap@.contains_key(t.0) && (t.1.0 matches Tag::StructureTag(s)
            && ((s.id == 4 || s.id == 25) && !old(self).searchmap@[t.0].accepts((SearchItem::Entry(s), t.1.1))
                || s.id == 19 && !old(self).searchmap@[t.0].accepts((SearchItem::Referral(s), t.1.1)))) ==>
            !final(self).searchmap@.contains_key(t.0) && !final(self).msgmap.1@.contains(t.0)), //# C10+C13.E2b_an_item_for_a_dropped_stream_releases_route_and_id
        // E2: SearchResultDone delivered => route released and id released
        resp matches Some(Ok(t)) ==> (old(self).searchmap@.contains_key(t.0) && (t.1.0 matches Tag::StructureTag(s) && s.id == 5) ==>
            !final(self).searchmap@.contains_key(t.0)), //# C13.E2_search_done_releases_route
        resp matches Some(Ok(t)) ==> (old(self).searchmap@.contains_key(t.0) && !final(self).searchmap@.contains_key(t.0) ==>
            !final(self).msgmap.1@.contains(t.0)), //# C13.E2_search_end_releases_id
        forall|k: i32| final(self).msgmap.1@.contains(k) ==> old(self).msgmap.1@.contains(k), //# C05+C13.E6_arm_never_adds_to_in_use
//@end
}

} // verus!
fn main() {}
