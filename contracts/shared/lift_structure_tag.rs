// lber::structure::StructureTag helper methods, lifted from lber/src/structure.rs (not stubbed).
impl StructureTag {
//@lift name=StructureTag::match_class file=lber/src/structure.rs impl="impl\s+StructureTag\s*\{" fn=match_class
//@ ret r
//@ spec
    ensures r == (if self.class == class { Some(self) } else { None }),
//@end

//@lift name=StructureTag::match_id file=lber/src/structure.rs impl="impl\s+StructureTag\s*\{" fn=match_id
//@ ret r
//@ spec
    ensures r == (if self.id == id { Some(self) } else { None }),
//@end

//@lift name=StructureTag::expect_constructed file=lber/src/structure.rs impl="impl\s+StructureTag\s*\{" fn=expect_constructed
//@ ret r
//@ spec
    ensures r == (match self.payload { PL::P(_) => None::<Vec<StructureTag>>, PL::C(i) => Some(i) }),
//@end

//@lift name=StructureTag::expect_primitive file=lber/src/structure.rs impl="impl\s+StructureTag\s*\{" fn=expect_primitive
//@ ret r
//@ spec
    ensures r == (match self.payload { PL::P(i) => Some(i), PL::C(_) => None::<Vec<u8>> }),
//@end
}
