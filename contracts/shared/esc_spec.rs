// RFC 4515 section 3 escaping as a function of the bytes: NUL ( ) * \ become backslash + two lower-case hex digits
pub open spec fn special(b: u8) -> bool { b == 0 || b == 0x28 || b == 0x29 || b == 0x2a || b == 0x5c }
pub open spec fn hexdig(n: int) -> u8 { if n < 10 { (0x30 + n) as u8 } else { (0x61 + n - 10) as u8 } }
pub open spec fn esc_byte(b: u8) -> Seq<u8> { if special(b) { seq![0x5cu8, hexdig(b as int / 16), hexdig(b as int % 16)] } else { seq![b] } }
pub open spec fn esc(v: Seq<u8>) -> Seq<u8> decreases v.len() { if v.len() == 0 { Seq::<u8>::empty() } else { esc_byte(v[0]) + esc(v.skip(1)) } }

