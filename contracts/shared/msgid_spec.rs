// Shared spec vocabulary for the message-ID allocator (used by V-msgid, V-opcall, V-driver).
pub open spec fn free_exists(s: Set<i32>) -> bool { exists|k: i32| #![trigger s.contains(k)] 1 <= k <= i32::MAX && !s.contains(k) }
// ids already examined when the cursor stands at `next`, having started after `last`
pub open spec fn visited(last: i32, next: i32, k: i32) -> bool {
    1 <= k <= i32::MAX && (if next >= last { last < k <= next } else { k > last || k <= next })
}
pub open spec fn dist(last: i32, next: i32) -> int {
    if next >= last { next - last } else { next - last + i32::MAX }
}
