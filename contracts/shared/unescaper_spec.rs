// The hex un-escaper of src/filter.rs (shared by the filter value lexer and ldap_unescape): the enum is lifted, `feed` is
// assumed with exactly the table Kani proves on the real code for every state x byte (KX-escape::feed_table_complete)
pub open spec fn hexval(c: u8) -> Option<u8> {
    if 0x30 <= c <= 0x39 { Some((c - 0x30) as u8) } else if 0x61 <= c <= 0x66 { Some((c - 0x61 + 10) as u8) } else if 0x41 <= c <= 0x46 { Some((c - 0x41 + 10) as u8) } else { None }
}
//@item file=src/filter.rs kind=enum name=Unescaper
pub open spec fn wf_un(u: Unescaper) -> bool { u matches Unescaper::WantSecond(p) ==> p < 16 }
pub open spec fn feed_spec(u: Unescaper, c: u8) -> Unescaper {
    match u {
        Unescaper::Error => Unescaper::Error,
        Unescaper::WantFirst => match hexval(c) { Some(h) => Unescaper::WantSecond(h), None => Unescaper::Error },
        Unescaper::WantSecond(p) => match hexval(c) { Some(h) => Unescaper::Value((p * 16 + h) as u8), None => Unescaper::Error },
        Unescaper::Value(_) => if c == 0x5c { Unescaper::WantFirst } else { Unescaper::Value(c) },
    }
}
impl Unescaper {
    // KX-escape::feed_table_complete (Kani on the real code: every state x byte, partial < 16) -- the same table
    #[verifier::external_body]
    pub fn feed(&self, c: u8) -> (r: Unescaper) ensures wf_un(*self) ==> r == feed_spec(*self, c) && wf_un(r) { unimplemented!() }
}
