// Trusted specifications of std functions that vstd does not specify (listed under assumptions).
pub assume_specification<'a> [<Vec<u8> as From<&'a str>>::from] (s: &str) -> (v: Vec<u8>) ensures v@ == s.spec_bytes();
pub assume_specification<'a, T: Clone> [<Vec<T> as From<&'a [T]>>::from] (s: &[T]) -> (v: Vec<T>) ensures v@ == s@;
pub assume_specification<T: Clone> [<[T]>::to_vec] (s: &[T]) -> (v: Vec<T>) ensures v@ == s@;
// Option::filter (std): None stays None; Some(x) is kept exactly when the predicate answers true for it
pub assume_specification<T, P: FnOnce(&T) -> bool> [Option::<T>::filter] (o: Option<T>, predicate: P) -> (r: Option<T>)
    requires o matches Some(x) ==> predicate.requires((&x,)),
    ensures o is None ==> r is None,
        o matches Some(x) ==> (exists|b: bool| predicate.ensures((&x,), b) && (if b { r == Some(x) } else { r is None }));
