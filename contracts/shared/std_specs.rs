// Trusted specifications of std functions that vstd does not specify (listed under assumptions).
pub assume_specification<'a> [<Vec<u8> as From<&'a str>>::from] (s: &str) -> (v: Vec<u8>) ensures v@ == s.spec_bytes();
pub assume_specification<'a, T: Clone> [<Vec<T> as From<&'a [T]>>::from] (s: &[T]) -> (v: Vec<T>) ensures v@ == s@;
pub assume_specification<T: Clone> [<[T]>::to_vec] (s: &[T]) -> (v: Vec<T>) ensures v@ == s@;
