// lber::universal::Types, the repo's own definition (lber/src/universal.rs), lifted
//@item file=lber/src/universal.rs kind=enum name=Types derive="Clone, Copy"
// X.680 8.4: universal class tag assignments used by LDAP
pub proof fn universal_tag_numbers_x680()
    ensures Types::Boolean as u64 == 1 && Types::Integer as u64 == 2 && Types::OctetString as u64 == 4 && Types::Null as u64 == 5
        && Types::Enumerated as u64 == 10 && Types::Sequence as u64 == 16 && Types::Set as u64 == 17, //# C07+C02+C03.universal_tag_numbers_x680
{ }
