// Trusted specification of std's UTF-8 validation (String::from_utf8): uninterpreted validity predicate and decoder.
pub uninterp spec fn valid_utf8(b: Seq<u8>) -> bool;
pub uninterp spec fn utf8_decode(b: Seq<u8>) -> Seq<char>;
pub uninterp spec fn utf8_encode(s: Seq<char>) -> Seq<u8>;
pub broadcast axiom fn axiom_utf8_roundtrip(s: Seq<char>)
    ensures valid_utf8(#[trigger] utf8_encode(s)), utf8_decode(utf8_encode(s)) == s;
pub trait SpecBytesOf { spec fn spec_bytes_of(self) -> Seq<u8>; }
impl SpecBytesOf for Seq<char> { open spec fn spec_bytes_of(self) -> Seq<u8> { utf8_encode(self) } }
#[verifier::external_type_specification]
#[verifier::external_body]
pub struct ExFromUtf8Error(std::string::FromUtf8Error);
pub assume_specification [String::from_utf8] (v: Vec<u8>) -> (r: core::result::Result<String, std::string::FromUtf8Error>)
    ensures r is Ok <==> valid_utf8(v@), r matches Ok(s) ==> s@ == utf8_decode(v@);
pub assume_specification [String::as_bytes] (s: &String) -> (r: &[u8]) ensures r@ == utf8_encode(s@);
