// Shared specification vocabulary: the ghost tag tree `T` (what X.690 calls a data value: class, number,
// primitive contents or constructed children), the structure of a lber `Tag` (= what Tag::into_structure
// computes; discharged against the real impls in V-lber-struct), and builders for RFC 4511 shapes.
pub enum T { P(TagClass, u64, Seq<u8>), C(TagClass, u64, Seq<T>) }

// contents octets of INTEGER/ENUMERATED: minimal two's complement (leaf clause discharged by Kani on
// i_e_into_structure over all i64: K-lber::C07.int_minimal_twos_complement_all_i64)
pub uninterp spec fn int_octets(x: int) -> Seq<u8>;

pub open spec fn st_tree(s: StructureTag) -> T decreases s, 0nat {
    match s.payload {
        PL::P(v) => T::P(s.class, s.id, v@),
        PL::C(ch) => T::C(s.class, s.id, st_trees(ch@, ch@.len())),
    }
}
pub open spec fn st_trees(s: Seq<StructureTag>, n: nat) -> Seq<T> decreases s, n {
    if n == 0 || n > s.len() { Seq::empty() } else { st_trees(s, (n - 1) as nat).push(st_tree(s[n - 1])) }
}
pub open spec fn tree(t: Tag) -> T decreases t, 0nat {
    match t {
        Tag::Integer(i) => T::P(i.class, i.id, int_octets(i.inner as int)),
        Tag::Enumerated(i) => T::P(i.class, i.id, int_octets(i.inner as int)),
        Tag::Boolean(b) => T::P(b.class, b.id, if b.inner { seq![0xffu8] } else { seq![0x00u8] }),
        Tag::Null(n) => T::P(n.class, n.id, Seq::empty()),
        Tag::OctetString(o) => T::P(o.class, o.id, o.inner@),
        Tag::Sequence(s) => T::C(s.class, s.id, trees(s.inner@, s.inner@.len())),
        Tag::Set(s) => T::C(s.class, s.id, trees(s.inner@, s.inner@.len())),
        Tag::ExplicitTag(e) => T::C(e.class, e.id, seq![tree(*e.inner)]),
        Tag::StructureTag(s) => st_tree(s),
    }
}
pub open spec fn trees(s: Seq<Tag>, n: nat) -> Seq<T> decreases s, n {
    if n == 0 || n > s.len() { Seq::empty() } else { trees(s, (n - 1) as nat).push(tree(s[n - 1])) }
}
pub proof fn lemma_trees_len(s: Seq<Tag>, n: nat)
    requires n <= s.len(),
    ensures trees(s, n).len() == n, forall|i: int| 0 <= i < n ==> #[trigger] trees(s, n)[i] == tree(s[i]),
    decreases n,
{
    if n > 0 { lemma_trees_len(s, (n - 1) as nat); }
}
pub proof fn lemma_st_trees_len(s: Seq<StructureTag>, n: nat)
    requires n <= s.len(),
    ensures st_trees(s, n).len() == n, forall|i: int| 0 <= i < n ==> #[trigger] st_trees(s, n)[i] == st_tree(s[i]),
    decreases n,
{
    if n > 0 { lemma_st_trees_len(s, (n - 1) as nat); }
}

// universal shapes
pub open spec fn t_int(x: int) -> T { T::P(TagClass::Universal, 2, int_octets(x)) }
pub open spec fn t_enum(x: int) -> T { T::P(TagClass::Universal, 10, int_octets(x)) }
pub open spec fn t_bool(b: bool) -> T { T::P(TagClass::Universal, 1, if b { seq![0xffu8] } else { seq![0x00u8] }) }
pub open spec fn t_os(b: Seq<u8>) -> T { T::P(TagClass::Universal, 4, b) }
pub open spec fn t_seq(k: Seq<T>) -> T { T::C(TagClass::Universal, 16, k) }
pub open spec fn t_set(k: Seq<T>) -> T { T::C(TagClass::Universal, 17, k) }
pub open spec fn t_app_c(id: u64, k: Seq<T>) -> T { T::C(TagClass::Application, id, k) }
pub open spec fn t_app_p(id: u64, b: Seq<u8>) -> T { T::P(TagClass::Application, id, b) }
pub open spec fn t_ctx_p(id: u64, b: Seq<u8>) -> T { T::P(TagClass::Context, id, b) }
pub open spec fn t_ctx_c(id: u64, k: Seq<T>) -> T { T::C(TagClass::Context, id, k) }

pub mod tree_lemmas {
use super::*;
// unfolding lemmas (generic, broadcast: a function that says `broadcast use tree_lemmas::group_trees;` needs no
// property-specific hints)
pub broadcast proof fn lemma_trees0(s: Seq<Tag>, n: nat) requires n == 0 ensures #[trigger] trees(s, n) == Seq::<T>::empty() { }
pub broadcast proof fn lemma_trees1(s: Seq<Tag>, n: nat) requires n == 1, s.len() == 1 ensures #[trigger] trees(s, n) == seq![tree(s[0])]
{ reveal_with_fuel(trees, 3); assert(trees(s, 1) =~= seq![tree(s[0])]); }
pub broadcast proof fn lemma_trees2(s: Seq<Tag>, n: nat) requires n == 2, s.len() == 2 ensures #[trigger] trees(s, n) == seq![tree(s[0]), tree(s[1])]
{ reveal_with_fuel(trees, 4); assert(trees(s, 2) =~= seq![tree(s[0]), tree(s[1])]); }
pub broadcast proof fn lemma_trees3(s: Seq<Tag>, n: nat) requires n == 3, s.len() == 3 ensures #[trigger] trees(s, n) == seq![tree(s[0]), tree(s[1]), tree(s[2])]
{ reveal_with_fuel(trees, 5); assert(trees(s, 3) =~= seq![tree(s[0]), tree(s[1]), tree(s[2])]); }
pub broadcast proof fn lemma_trees4(s: Seq<Tag>, n: nat) requires n == 4, s.len() == 4 ensures #[trigger] trees(s, n) == seq![tree(s[0]), tree(s[1]), tree(s[2]), tree(s[3])]
{ reveal_with_fuel(trees, 6); assert(trees(s, 4) =~= seq![tree(s[0]), tree(s[1]), tree(s[2]), tree(s[3])]); }
pub broadcast group group_trees { lemma_trees0, lemma_trees1, lemma_trees2, lemma_trees3, lemma_trees4 }
}

// ---- BER (X.690 8.1): identifier octets, definite length octets, contents.  `ident` and `len_octets` are the
// leaf writers' contracts (Kani: K-lber C07.write_type_single_octet_ids_le30, C07.write_length_minimal_definite_all_usize)
pub uninterp spec fn ident(c: TagClass, s: TagStructure, id: u64) -> Seq<u8>;
pub uninterp spec fn len_octets(n: nat) -> Seq<u8>;
pub open spec fn ber_t(t: T) -> Seq<u8> decreases t, 0nat {
    match t {
        T::P(c, id, v) => ident(c, TagStructure::Primitive, id) + len_octets(v.len()) + v,
        T::C(c, id, k) => { let body = ber_ts(k, k.len()); ident(c, TagStructure::Constructed, id) + len_octets(body.len()) + body },
    }
}
pub open spec fn ber_ts(s: Seq<T>, n: nat) -> Seq<u8> decreases s, n {
    if n == 0 || n > s.len() { Seq::empty() } else { ber_ts(s, (n - 1) as nat) + ber_t(s[n - 1]) }
}
// ber_ts only looks at the first n elements
pub proof fn lemma_ber_ts_prefix(a: Seq<T>, b: Seq<T>, n: nat)
    requires n <= a.len(), n <= b.len(), forall|j: int| 0 <= j < n ==> a[j] == b[j],
    ensures ber_ts(a, n) == ber_ts(b, n),
    decreases n,
{
    if n > 0 { lemma_ber_ts_prefix(a, b, (n - 1) as nat); }
}
