// R2 support: `.await` on a call to an `async fn` that is itself lifted (as a plain fn) in the same unit is the
// identity on the value already computed; stub future types define an inherent `verif_await`, which takes precedence.
pub trait VerifAwait: Sized {
    fn verif_await(self) -> (r: Self) ensures r == self;
}
impl<T> VerifAwait for T { fn verif_await(self) -> (r: Self) { self } }
