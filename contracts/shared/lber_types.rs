// Shared prelude: shapes of the lber tag types (lber/src/structures/*.rs, structure.rs, common.rs) and the
// tree-level specification vocabulary.  Trusted shapes: a field or variant that disagrees with /repo makes the
// lifted text fail to type-check (exit 2).  The Default values are discharged against the real impls in unit
// V-lber-struct; here they are contracts of external_body stubs.
// the two header enums are the repo's own definitions (lber/src/common.rs), lifted
//@item file=lber/src/common.rs kind=enum name=TagStructure derive="PartialEq, Eq, Clone, Copy, Structural"
//@item file=lber/src/common.rs kind=enum name=TagClass derive="PartialEq, Eq, Clone, Copy, Structural"
// X.690 8.1.2.2: class bits 00 universal, 01 application, 10 context-specific, 11 private; bit 6: 0 primitive, 1 constructed
pub proof fn header_enum_discriminants_x690()
    ensures TagClass::Universal as u8 == 0 && TagClass::Application as u8 == 1 && TagClass::Context as u8 == 2 && TagClass::Private as u8 == 3, //# C07.tag_class_numbers_x690
            TagStructure::Primitive as u8 == 0 && TagStructure::Constructed as u8 == 1, //# C07.primitive_constructed_bit_x690
{ }

pub struct StructureTag { pub class: TagClass, pub id: u64, pub payload: PL }
pub enum PL { P(Vec<u8>), C(Vec<StructureTag>) }

pub struct Integer { pub id: u64, pub class: TagClass, pub inner: i64 }
pub struct Enumerated { pub id: u64, pub class: TagClass, pub inner: i64 }
pub struct Boolean { pub id: u64, pub class: TagClass, pub inner: bool }
pub struct Null { pub id: u64, pub class: TagClass, pub inner: () }
pub struct OctetString { pub id: u64, pub class: TagClass, pub inner: Vec<u8> }
pub struct Sequence { pub id: u64, pub class: TagClass, pub inner: Vec<Tag> }
pub struct Set { pub id: u64, pub class: TagClass, pub inner: Vec<Tag> }
pub struct ExplicitTag { pub id: u64, pub class: TagClass, pub inner: Box<Tag> }
pub enum Tag {
    Integer(Integer),
    Enumerated(Enumerated),
    Sequence(Sequence),
    Set(Set),
    OctetString(OctetString),
    Boolean(Boolean),
    Null(Null),
    ExplicitTag(ExplicitTag),
    StructureTag(StructureTag),
}

// universal::Types numbers used by the Default impls (X.680 8.4)
impl Default for Integer { #[verifier::external_body] fn default() -> (r: Integer) ensures r.id == 2, r.class == TagClass::Universal, r.inner == 0 { unimplemented!() } }
impl Default for Enumerated { #[verifier::external_body] fn default() -> (r: Enumerated) ensures r.id == 10, r.class == TagClass::Universal, r.inner == 0 { unimplemented!() } }
impl Default for Boolean { #[verifier::external_body] fn default() -> (r: Boolean) ensures r.id == 1, r.class == TagClass::Universal, r.inner == false { unimplemented!() } }
impl Default for Null { #[verifier::external_body] fn default() -> (r: Null) ensures r.id == 5, r.class == TagClass::Universal { unimplemented!() } }
impl Default for OctetString { #[verifier::external_body] fn default() -> (r: OctetString) ensures r.id == 4, r.class == TagClass::Universal, r.inner@ == Seq::<u8>::empty() { unimplemented!() } }
impl Default for Sequence { #[verifier::external_body] fn default() -> (r: Sequence) ensures r.id == 16, r.class == TagClass::Universal, r.inner@ == Seq::<Tag>::empty() { unimplemented!() } }
impl Default for Set { #[verifier::external_body] fn default() -> (r: Set) ensures r.id == 17, r.class == TagClass::Universal, r.inner@ == Seq::<Tag>::empty() { unimplemented!() } }

// the real lber types derive Clone (and PartialEq); mirrored so that a change which clones a value is still decided
impl Clone for StructureTag { #[verifier::external_body] fn clone(&self) -> (r: StructureTag) ensures r == *self { unimplemented!() } }
impl Clone for PL { #[verifier::external_body] fn clone(&self) -> (r: PL) ensures r == *self { unimplemented!() } }
impl Clone for Tag { #[verifier::external_body] fn clone(&self) -> (r: Tag) ensures r == *self { unimplemented!() } }
impl Clone for OctetString { #[verifier::external_body] fn clone(&self) -> (r: OctetString) ensures r == *self { unimplemented!() } }
impl Clone for Sequence { #[verifier::external_body] fn clone(&self) -> (r: Sequence) ensures r == *self { unimplemented!() } }
impl Clone for Set { #[verifier::external_body] fn clone(&self) -> (r: Set) ensures r == *self { unimplemented!() } }
impl Clone for Integer { #[verifier::external_body] fn clone(&self) -> (r: Integer) ensures r == *self { unimplemented!() } }
impl Clone for Enumerated { #[verifier::external_body] fn clone(&self) -> (r: Enumerated) ensures r == *self { unimplemented!() } }
impl Clone for Boolean { #[verifier::external_body] fn clone(&self) -> (r: Boolean) ensures r == *self { unimplemented!() } }
impl Clone for Null { #[verifier::external_body] fn clone(&self) -> (r: Null) ensures r == *self { unimplemented!() } }
