#![feature(allocator_api)]
// Unit V-entry: `SearchEntry::construct` (src/search.rs) -- DN, and the text/binary classification of attribute values.
// The function is one iterator pipeline whose `filter_map` closure mutates captured state; it is lifted in two pieces:
//   * the closure BODY as a function of its own (lifter L7; captured variables become parameters), under contract;
//   * the enclosing function with that one call argument replaced (lifter R12), where `filter_map(..).collect()` is the
//     verified loop `Octets::filter_map` below -- the meaning std gives to the adapter pair: call the closure on each
//     item in order, keep the `Some` results.
// Serves C15.
use vstd::prelude::*;
use vstd::string::*;
use vstd::std_specs::iter::IteratorSpec;
verus! {

//@include contracts/shared/lber_types.rs
//@include contracts/shared/std_specs.rs
//@include contracts/shared/utf8_specs.rs
//@include contracts/shared/lift_structure_tag.rs

pub uninterp spec fn iter_seq<T, I>(i: I) -> Seq<T>;
pub broadcast proof fn ax_iter_seq_vec<T>(v: Vec<T>) ensures #[trigger] iter_seq::<T, Vec<T>>(v) == v@ { admit(); }
pub assume_specification<T, A: std::alloc::Allocator, I: IntoIterator<Item = T>> [<Vec<T, A> as Extend<T>>::extend] (s: &mut Vec<T, A>, it: I)
    ensures final(s)@ == old(s)@ + iter_seq::<T, I>(it);
pub assume_specification<T, A: std::alloc::Allocator> [<Vec<T, A> as AsRef<[T]>>::as_ref] (v: &Vec<T, A>) -> (r: &[T]) ensures r@ == v@;
pub assume_specification [String::into_bytes] (s: String) -> (r: Vec<u8>) ensures r@ == utf8_encode(s@);
// std::str::from_utf8: Ok exactly on valid UTF-8, and then the text is the decoding
pub struct Utf8Error { pub g: u8 }
#[verifier::external_body]
pub fn verif_from_utf8<'a>(b: &'a [u8]) -> (r: core::result::Result<&'a str, Utf8Error>)
    ensures r is Ok <==> valid_utf8(b@), r matches Ok(s) ==> s@ == utf8_decode(b@)
{ unimplemented!() }
#[verifier::external_body]
pub fn verif_string_of(s: &str) -> (r: String) ensures r@ == s@ { unimplemented!() }

// std::collections::HashMap<String, V>, seen as the map from key text to value
pub struct HashMap<V> { pub m: Ghost<Map<Seq<char>, V>> }
pub struct Entry<'a, V> { pub map: &'a mut HashMap<V>, pub k: String }
impl<V> HashMap<V> {
    #[verifier::external_body] pub fn new() -> (r: Self) ensures r.m@ == Map::<Seq<char>, V>::empty() { unimplemented!() }
    #[verifier::external_body] pub fn insert(&mut self, k: String, v: V) -> (r: Option<V>) ensures final(self).m@ == old(self).m@.insert(k@, v) { unimplemented!() }
    #[verifier::external_body]
    pub fn entry(&mut self, k: String) -> (e: Entry<'_, V>)
        ensures *e.map == *old(self), e.k == k, *final(self) == *final(e.map)
    { unimplemented!() }
    #[verifier::external_body]
    pub fn get_mut(&mut self, k: &String) -> (r: Option<&mut V>)
        ensures !old(self).m@.contains_key(k@) ==> r is None && *final(self) == *old(self),
            old(self).m@.contains_key(k@) ==> (r matches Some(v) && *v == old(self).m@[k@] && final(self).m@ == old(self).m@.insert(k@, *final(v))),
    { unimplemented!() }
}
pub open spec fn deep(v: Seq<Vec<u8>>) -> Seq<Seq<u8>> { v.map_values(|x: Vec<u8>| x@) }
pub open spec fn bin_at(m: Map<Seq<char>, Vec<Vec<u8>>>, k: Seq<char>) -> Seq<Seq<u8>> { if m.contains_key(k) { deep(m[k]@) } else { Seq::<Seq<u8>>::empty() } }
impl<'a> Entry<'a, Vec<Vec<u8>>> {
    #[verifier::external_body]
    pub fn or_insert_with<F: FnOnce() -> Vec<Vec<u8>>>(self, f: F) -> (r: &'a mut Vec<Vec<u8>>)
        ensures deep(r@) == bin_at(old(self.map).m@, self.k@),     // (the closure passed is Vec::new)
            final(self.map).m@ == old(self.map).m@.insert(self.k@, *final(r)),
    { unimplemented!() }
}

// ---- what the classification must compute ---------------------------------------------------------------------------
// among the first n values: the valid-UTF-8 ones, decoded, in order / the others, in order
pub open spec fn text_vals(vals: Seq<Seq<u8>>, n: nat) -> Seq<Seq<char>>
    decreases n
{
    if n == 0 || n > vals.len() { Seq::<Seq<char>>::empty() } else {
        let r = text_vals(vals, (n - 1) as nat);
        if valid_utf8(vals[n - 1]) { r.push(utf8_decode(vals[n - 1])) } else { r }
    }
}
pub open spec fn bin_vals(vals: Seq<Seq<u8>>, n: nat) -> Seq<Seq<u8>>
    decreases n
{
    if n == 0 || n > vals.len() { Seq::<Seq<u8>>::empty() } else {
        let r = bin_vals(vals, (n - 1) as nat);
        if valid_utf8(vals[n - 1]) { r } else { r.push(vals[n - 1]) }
    }
}
pub open spec fn strs(v: Seq<String>) -> Seq<Seq<char>> { v.map_values(|s: String| s@) }

//@lift name=construct::classify_value file=src/search.rs block=".filter_map(|s|" as="fn classify_value(s: Vec<u8>, a_type: &String, bin_attr_vals: &mut HashMap<Vec<Vec<u8>>>, any_binary: &mut bool) -> (r: Option<String>)"
//@ sub "any_binary = " => "*any_binary = " count=*
//@ sub "std::str::from_utf8(" => "verif_from_utf8(" count=*
//@ sub "s.to_owned()" => "verif_string_of(s)" count=*
//@ spec
    ensures
        valid_utf8(s@) ==> (r matches Some(t) && t@ == utf8_decode(s@) && *final(bin_attr_vals) == *old(bin_attr_vals) && *final(any_binary) == *old(any_binary)), //# C15+C19.a_valid_utf8_value_is_kept_as_text_unchanged
        !valid_utf8(s@) ==> (r is None && *final(any_binary)
            && final(bin_attr_vals).m@.dom() == old(bin_attr_vals).m@.dom().insert(a_type@)
            && bin_at(final(bin_attr_vals).m@, a_type@) == bin_at(old(bin_attr_vals).m@, a_type@).push(s@)
            && (forall|k: Seq<char>| k != a_type@ && old(bin_attr_vals).m@.contains_key(k) ==> final(bin_attr_vals).m@[k] == old(bin_attr_vals).m@[k])), //# C15+C19.an_invalid_value_goes_to_the_binary_map_under_its_attribute_unaltered
//@end


pub open spec fn octets(ts: Seq<StructureTag>) -> Seq<Seq<u8>> { ts.map_values(|t: StructureTag| t.payload->P_0@) }
// ---- `iter.map(f).filter_map(g).collect::<Vec<String>>()` -----------------------------------------------------------
pub struct Octets { pub items: Vec<Vec<u8>> }
pub struct Collected { pub out: Vec<String> }
// std's `Iterator::map`: f on each remaining item, in order (stub: the adapter itself is std's)
#[verifier::external_body]
pub fn verif_map_raw<F: Fn(StructureTag) -> Vec<u8>>(it: std::vec::IntoIter<StructureTag>, f: F) -> (o: Octets)
    requires forall|i: int| 0 <= i < it.remaining().len() ==> f.requires((#[trigger] it.remaining()[i],)),
    ensures o.items@.len() == it.remaining().len(), forall|i: int| 0 <= i < it.remaining().len() ==> f.ensures((it.remaining()[i],), #[trigger] o.items@[i]),
{ unimplemented!() }
pub trait TagIterExt: Sized {
    #[verifier::prophetic] spec fn rest(self) -> Seq<StructureTag>;
    // the same call, with the consequence the caller needs spelled out (PROVED in the impl below, not assumed): if every
    // result of f is the primitive payload of its argument, the mapped values are the items' octets
    fn verif_map<F: Fn(StructureTag) -> Vec<u8>>(self, f: F) -> (o: Octets)
        requires forall|i: int| 0 <= i < self.rest().len() ==> f.requires((#[trigger] self.rest()[i],)),
        ensures o.items@.len() == self.rest().len(), forall|i: int| 0 <= i < self.rest().len() ==> f.ensures((self.rest()[i],), #[trigger] o.items@[i]),
            (forall|t: StructureTag, b: Vec<u8>| #[trigger] f.ensures((t,), b) ==> t.payload == PL::P(b)) ==> deep(o.items@) == octets(self.rest());
}
impl TagIterExt for std::vec::IntoIter<StructureTag> {
    #[verifier::prophetic] open spec fn rest(self) -> Seq<StructureTag> { self.remaining() }
    fn verif_map<F: Fn(StructureTag) -> Vec<u8>>(self, f: F) -> (o: Octets) {
        let ghost rest = self.remaining();
        proof { assert forall|i: int| 0 <= i < rest.len() implies f.requires((#[trigger] rest[i],)) by { assert(f.requires((self.rest()[i],))); } }
        let o = verif_map_raw(self, f);
        proof {
            if forall|t: StructureTag, b: Vec<u8>| #[trigger] f.ensures((t,), b) ==> t.payload == PL::P(b) {
                assert forall|i: int| 0 <= i < rest.len() implies deep(o.items@)[i] == octets(rest)[i] by { assert(f.ensures((rest[i],), o.items@[i])); }
                assert(deep(o.items@) =~= octets(rest));
            }
        }
        o
    }
}
impl Octets {
    // std's `filter_map(g).collect()`: g on each item in order, the `Some` results kept in order.  NOT a stub: this loop
    // is verified, and it calls the lifted closure body, so the contract below follows from the closure's own contract.
    pub fn filter_map(self, a_type: &String, bin_attr_vals: &mut HashMap<Vec<Vec<u8>>>, any_binary: &mut bool) -> (c: Collected)
        ensures
            strs(c.out@) == text_vals(deep(self.items@), self.items@.len() as nat),
            *final(any_binary) == (*old(any_binary) || bin_vals(deep(self.items@), self.items@.len() as nat).len() > 0),
            bin_vals(deep(self.items@), self.items@.len() as nat).len() == 0 ==> *final(bin_attr_vals) == *old(bin_attr_vals),
            bin_vals(deep(self.items@), self.items@.len() as nat).len() > 0 ==> (
                final(bin_attr_vals).m@.dom() == old(bin_attr_vals).m@.dom().insert(a_type@)
                && bin_at(final(bin_attr_vals).m@, a_type@) == bin_at(old(bin_attr_vals).m@, a_type@) + bin_vals(deep(self.items@), self.items@.len() as nat)
                && (forall|k: Seq<char>| k != a_type@ && old(bin_attr_vals).m@.contains_key(k) ==> final(bin_attr_vals).m@[k] == old(bin_attr_vals).m@[k])),
    {
        let mut out: Vec<String> = Vec::new();
        let ghost all = deep(self.items@);
        let ghost bin0 = bin_attr_vals.m@;
        let ghost any0 = *any_binary;
        for s in it: self.items
            invariant
                deep(it.seq()) == all,
                strs(out@) == text_vals(all, it.index@ as nat),
                *any_binary == (any0 || bin_vals(all, it.index@ as nat).len() > 0),
                bin_vals(all, it.index@ as nat).len() == 0 ==> bin_attr_vals.m@ == bin0,
                bin_vals(all, it.index@ as nat).len() > 0 ==> (
                    bin_attr_vals.m@.dom() == bin0.dom().insert(a_type@)
                    && bin_at(bin_attr_vals.m@, a_type@) == bin_at(bin0, a_type@) + bin_vals(all, it.index@ as nat)
                    && (forall|k: Seq<char>| k != a_type@ && bin0.contains_key(k) ==> bin_attr_vals.m@[k] == bin0[k])),
        {
            proof { assert(all[it.index@] == s@); }
            let ghost before = strs(out@);
            let ghost bin1 = bin_attr_vals.m@;
            if let Some(v) = classify_value(s, a_type, bin_attr_vals, any_binary) {
                out.push(v);
                proof { assert(strs(out@) =~= before.push(v@)); }
            } else {
                proof {
                    let b0 = bin_vals(all, it.index@ as nat);
                    assert(bin_at(bin0, a_type@) + b0.push(all[it.index@]) =~= (bin_at(bin0, a_type@) + b0).push(all[it.index@]));
                    if b0.len() == 0 { assert(bin_at(bin0, a_type@) + b0 =~= bin_at(bin0, a_type@)); }
                    assert(bin_attr_vals.m@.dom() =~= bin0.dom().insert(a_type@));
                }
            }
        }
        Collected { out }
    }
}
impl Collected { pub fn collect<B>(self) -> (r: Vec<String>) ensures r == self.out { self.out } }

// ---- SearchEntry::construct -------------------------------------------------------------------------------------------
pub struct Control { pub x: u8 }
pub struct ResultEntry(pub StructureTag, pub Vec<Control>);
pub struct SearchEntry { pub dn: String, pub attrs: HashMap<Vec<String>>, pub bin_attrs: HashMap<Vec<Vec<u8>>> }

// RFC 4511 4.5.2: SearchResultEntry ::= [APPLICATION 4] SEQUENCE { objectName LDAPDN, attributes SEQUENCE OF PartialAttribute },
// PartialAttribute ::= SEQUENCE { type AttributeDescription, vals SET OF value }.  DN and attribute types are UTF-8 (LDAPString).
pub open spec fn prims(ts: Seq<StructureTag>) -> bool { forall|j: int| 0 <= j < ts.len() ==> (#[trigger] ts[j]).payload is P }
pub open spec fn wf_attr(a: StructureTag) -> bool {
    a.payload matches PL::C(p) && p@.len() >= 2 && (p@[0].payload matches PL::P(ty) && valid_utf8(ty@)) && (p@[1].payload matches PL::C(vals) && prims(vals@))
}
pub open spec fn wf_entry(t: StructureTag) -> bool {
    t.id == 4 && (t.payload matches PL::C(k) && k@.len() >= 2 && (k@[0].payload matches PL::P(dn) && valid_utf8(dn@))
        && (k@[1].payload matches PL::C(attrs) && forall|i: int| 0 <= i < attrs@.len() ==> wf_attr(#[trigger] attrs@[i])))
}
pub open spec fn entry_dn(t: StructureTag) -> Seq<u8> { t.payload->C_0@[0].payload->P_0@ }
pub open spec fn entry_attrs(t: StructureTag) -> Seq<StructureTag> { t.payload->C_0@[1].payload->C_0@ }
pub open spec fn attr_type(a: StructureTag) -> Seq<char> { utf8_decode(a.payload->C_0@[0].payload->P_0@) }
pub open spec fn attr_values(a: StructureTag) -> Seq<Seq<u8>> { octets(a.payload->C_0@[1].payload->C_0@) }
pub open spec fn all_text(v: Seq<Seq<u8>>) -> bool { bin_vals(v, v.len()).len() == 0 }
pub open spec fn encs(v: Seq<Seq<char>>) -> Seq<Seq<u8>> { v.map_values(|s: Seq<char>| utf8_encode(s)) }
// the two maps after the first n attributes (as the server sent them, in order)
pub struct Maps { pub text: Map<Seq<char>, Seq<Seq<char>>>, pub bin: Map<Seq<char>, Seq<Seq<u8>>> }
pub open spec fn bin_of(m: Map<Seq<char>, Seq<Seq<u8>>>, k: Seq<char>) -> Seq<Seq<u8>> { if m.contains_key(k) { m[k] } else { Seq::<Seq<u8>>::empty() } }
pub open spec fn entry_fold(attrs: Seq<StructureTag>, n: nat) -> Maps
    decreases n
{
    if n == 0 || n > attrs.len() { Maps { text: Map::empty(), bin: Map::empty() } } else {
        let m = entry_fold(attrs, (n - 1) as nat);
        let t = attr_type(attrs[n - 1]);
        let v = attr_values(attrs[n - 1]);
        if all_text(v) { Maps { text: m.text.insert(t, text_vals(v, v.len())), bin: m.bin } }
        // mixed or binary: the invalid values in order, then the valid ones (re-encoded) in order
        else { Maps { text: m.text, bin: m.bin.insert(t, bin_of(m.bin, t) + bin_vals(v, v.len()) + encs(text_vals(v, v.len()))) } }
    }
}
pub open spec fn text_view(m: Map<Seq<char>, Vec<String>>) -> Map<Seq<char>, Seq<Seq<char>>> { Map::new(m.dom(), |k: Seq<char>| strs(m[k]@)) }
pub open spec fn bin_view(m: Map<Seq<char>, Vec<Vec<u8>>>) -> Map<Seq<char>, Seq<Seq<u8>>> { Map::new(m.dom(), |k: Seq<char>| deep(m[k]@)) }

// ---- from the fold to the property's wording ------------------------------------------------------------------------
// std's guarantee for valid input: the String made by from_utf8 has exactly the given bytes (decoding loses nothing)
pub broadcast axiom fn axiom_utf8_encode_decode(b: Seq<u8>)
    requires valid_utf8(b)
    ensures #[trigger] utf8_encode(utf8_decode(b)) == b;
pub proof fn lemma_bin_vals_grow(v: Seq<Seq<u8>>, n: nat, m: nat)
    requires n <= m <= v.len()
    ensures bin_vals(v, n).len() <= bin_vals(v, m).len()
    decreases m
{ if n < m { lemma_bin_vals_grow(v, n, (m - 1) as nat); } }
// an attribute all of whose values are valid UTF-8: the text values are ALL its values, decoded, in the server's order
pub proof fn theorem_all_text_keeps_every_value_in_order(v: Seq<Seq<u8>>, n: nat)
    requires n <= v.len(), bin_vals(v, n).len() == 0
    ensures text_vals(v, n).len() == n, forall|j: int| 0 <= j < n ==> valid_utf8(#[trigger] v[j]),
        forall|j: int| 0 <= j < n ==> #[trigger] text_vals(v, n)[j] == utf8_decode(v[j]) //# C15+C19.theorem_a_text_attribute_keeps_every_value_in_order
    decreases n
{
    if n > 0 {
        lemma_bin_vals_grow(v, (n - 1) as nat, n);
        theorem_all_text_keeps_every_value_in_order(v, (n - 1) as nat);
        let p = text_vals(v, (n - 1) as nat);
        assert(valid_utf8(v[n - 1]));
        assert(text_vals(v, n) == p.push(utf8_decode(v[n - 1])));
        assert forall|j: int| 0 <= j < n implies #[trigger] text_vals(v, n)[j] == utf8_decode(v[j]) by {
            if j < n - 1 { assert(text_vals(v, n)[j] == p[j]); }
        }
        assert(text_vals(v, n).len() == n);
    } else {
        assert(text_vals(v, n).len() == 0);
    }
}
// any attribute: the invalid values followed by the re-encoded valid ones are a PERMUTATION of its values -- nothing lost,
// duplicated or altered
pub proof fn theorem_binary_attribute_holds_the_multiset_of_its_values(v: Seq<Seq<u8>>, n: nat)
    requires n <= v.len()
    ensures (bin_vals(v, n) + encs(text_vals(v, n))).to_multiset() =~= v.take(n as int).to_multiset() //# C15+C19.theorem_a_binary_attribute_holds_exactly_the_multiset_of_its_values
    decreases n
{
    broadcast use axiom_utf8_encode_decode;
    if n == 0 {
        assert(bin_vals(v, 0) + encs(text_vals(v, 0)) =~= Seq::<Seq<u8>>::empty());
        assert(v.take(0) =~= Seq::<Seq<u8>>::empty());
    } else {
        let p = (n - 1) as nat;
        theorem_binary_attribute_holds_the_multiset_of_its_values(v, p);
        let x = v[n - 1];
        let b0 = bin_vals(v, p); let t0 = encs(text_vals(v, p));
        assert(v.take(n as int) =~= v.take(p as int).push(x));
        vstd::seq_lib::to_multiset_build(v.take(p as int), x);
        vstd::seq_lib::lemma_multiset_commutative(b0, t0);
        if valid_utf8(x) {
            assert(encs(text_vals(v, n)) =~= t0.push(x));
            vstd::seq_lib::to_multiset_build(t0, x);
            vstd::seq_lib::lemma_multiset_commutative(b0, t0.push(x));
        } else {
            vstd::seq_lib::to_multiset_build(b0, x);
            vstd::seq_lib::lemma_multiset_commutative(b0.push(x), t0);
        }
    }
}
// entries whose attribute types are pairwise different (RFC 4511 4.1.7: an attribute description appears once)
pub open spec fn distinct_types(attrs: Seq<StructureTag>) -> bool { forall|i: int, j: int| 0 <= i < j < attrs.len() ==> attr_type(attrs[i]) != attr_type(attrs[j]) }
pub proof fn lemma_fold_keys(attrs: Seq<StructureTag>, n: nat, k: Seq<char>)
    requires n <= attrs.len()
    ensures (entry_fold(attrs, n).text.contains_key(k) || entry_fold(attrs, n).bin.contains_key(k)) ==> exists|i: int| 0 <= i < n && attr_type(#[trigger] attrs[i]) == k
    decreases n
{ if n > 0 { lemma_fold_keys(attrs, (n - 1) as nat, k); } }
// every attribute is in exactly one of the two maps: the text map (all values, in order) exactly when all its values are
// valid UTF-8, otherwise the binary map (invalid values in order, then the valid ones re-encoded)
pub proof fn theorem_each_attribute_is_in_exactly_one_map(attrs: Seq<StructureTag>, n: nat, i: int)
    requires n <= attrs.len(), 0 <= i < n, distinct_types(attrs)
    ensures ({
        let m = entry_fold(attrs, n); let t = attr_type(attrs[i]); let v = attr_values(attrs[i]);
        &&& all_text(v) ==> (m.text.contains_key(t) && m.text[t] == text_vals(v, v.len()) && !m.bin.contains_key(t))
        &&& !all_text(v) ==> (m.bin.contains_key(t) && m.bin[t] == bin_vals(v, v.len()) + encs(text_vals(v, v.len())) && !m.text.contains_key(t))
    }) //# C15+C19.theorem_every_attribute_is_in_exactly_one_map_text_iff_all_values_are_utf8
    decreases n
{
    let t = attr_type(attrs[i]);
    if i < n - 1 {
        theorem_each_attribute_is_in_exactly_one_map(attrs, (n - 1) as nat, i);
    } else {
        lemma_fold_keys(attrs, (n - 1) as nat, t);
        let m0 = entry_fold(attrs, (n - 1) as nat);
        assert(!m0.bin.contains_key(t) && !m0.text.contains_key(t));
        let v = attr_values(attrs[i]);
        assert(bin_of(m0.bin, t) + bin_vals(v, v.len()) + encs(text_vals(v, v.len())) =~= bin_vals(v, v.len()) + encs(text_vals(v, v.len())));
    }
}

//@lift name=SearchEntry::construct file=src/search.rs impl="impl\s+SearchEntry\s*\{" fn=construct
//@ sub "fn construct(re: ResultEntry) -> SearchEntry" => "fn construct(re: ResultEntry) -> SearchEntry"
//@ arg ".filter_map(|s|" => "&a_type, &mut bin_attr_vals, &mut any_binary"
//@ sub "Self {" => "SearchEntry {" count=*
//@ sub ".map(|t| t.expect_primitive()" => ".verif_map(|t| t.expect_primitive()"
//@ closure at="|t| t.expect_constructed()" params="t: StructureTag" ret="(o: Option<Vec<StructureTag>>)"
            ensures o == (match t.payload { PL::P(_) => None::<Vec<StructureTag>>, PL::C(i) => Some(i) })
//@ closure at="|t| t.expect_primitive()" params="t: StructureTag" ret="(o: Vec<u8>)"
            requires t.payload is P
            ensures t.payload == PL::P(o)
//@ ret r
//@ insert entry
    broadcast use ax_iter_seq_vec;
//@ loop 1 iter=it
            invariant
                it.seq() == entry_attrs(re.0), forall|i: int| 0 <= i < it.seq().len() ==> wf_attr(#[trigger] it.seq()[i]),
                text_view(attr_vals.m@) =~= entry_fold(it.seq(), it.index@ as nat).text,
                bin_view(bin_attr_vals.m@) =~= entry_fold(it.seq(), it.index@ as nat).bin, //# C15+C19.inv_the_two_maps_hold_the_attributes_read_so_far
//@ insert after ".collect::<Vec<String>>();"
            let ghost vals0 = values@;
            let ghost bin1 = bin_attr_vals.m@;
//@ insert loop-start 1
            broadcast use ax_iter_seq_vec;
            let ghost text0 = attr_vals.m@;
            let ghost bin0 = bin_attr_vals.m@;
            let ghost cur = a_v;
            let ghost idx = it.index@;
            proof { assert(it.seq()[idx] == cur); assert(wf_attr(cur)); }
//@ insert loop-end 1
            proof {
                let v = attr_values(cur);
                let t = attr_type(cur);
                let m0 = entry_fold(it.seq(), idx as nat);
                let m1 = entry_fold(it.seq(), (idx + 1) as nat);
                assert(bin_of(m0.bin, t) == bin_at(bin0, t));
                if all_text(v) {
                    assert(text_view(attr_vals.m@) =~= m1.text); //# C15+C19.an_all_utf8_attribute_goes_to_the_text_map_with_all_its_values_in_order
                    assert(bin_view(bin_attr_vals.m@) =~= m1.bin); //# C15+C19.an_all_utf8_attribute_leaves_the_binary_map_alone
                } else {
                    assert(text_view(attr_vals.m@) =~= m1.text); //# C15+C19.a_mixed_or_binary_attribute_leaves_the_text_map_alone
                    assert(strs(vals0) == text_vals(v, v.len()));
                    assert(bin_at(bin1, t) == bin_at(bin0, t) + bin_vals(v, v.len()));
                    assert(bin_attr_vals.m@.dom() =~= bin1.dom()); //# C15+C19.the_valid_values_of_a_mixed_attribute_are_appended_to_its_binary_values_re_encoded
                    let nv = bin_attr_vals.m@[t]@;
                    assert(nv.len() == bin1[t]@.len() + vals0.len()); //# C15+C19.the_valid_values_of_a_mixed_attribute_are_appended_to_its_binary_values_re_encoded
                    assert(forall|i: int| 0 <= i < bin1[t]@.len() ==> nv[i] == bin1[t]@[i]); //# C15+C19.the_valid_values_of_a_mixed_attribute_are_appended_to_its_binary_values_re_encoded
                    assert(forall|i: int| 0 <= i < vals0.len() ==> nv[bin1[t]@.len() + i]@ == utf8_encode(vals0[i]@)); //# C15+C19.the_valid_values_of_a_mixed_attribute_are_appended_to_its_binary_values_re_encoded
                    assert(deep(nv) =~= deep(bin1[t]@) + encs(strs(vals0))); //# C15+C19.the_valid_values_of_a_mixed_attribute_are_appended_to_its_binary_values_re_encoded
                    assert(bin_view(bin_attr_vals.m@) =~= m1.bin); //# C15+C19.a_mixed_or_binary_attribute_has_all_its_values_in_the_binary_map
                }
            }
//@ spec
    requires wf_entry(re.0),
    ensures
        r.dn@ == utf8_decode(entry_dn(re.0)), //# C15.the_dn_is_the_servers
        text_view(r.attrs.m@) =~= entry_fold(entry_attrs(re.0), entry_attrs(re.0).len()).text, //# C15+C19.text_map_holds_exactly_the_all_utf8_attributes_values_in_order
        bin_view(r.bin_attrs.m@) =~= entry_fold(entry_attrs(re.0), entry_attrs(re.0).len()).bin, //# C15+C19.binary_map_holds_every_value_of_the_other_attributes
//@end

// ---- Pre/PostRead response control (RFC 4527): the control value is a SearchResultEntry; ReadEntryResp::parse is
// parse_tag + ResultEntry::new + SearchEntry::construct.  parse_tag is a function of the bytes here (V-lber-dec proves it is
// the reference decoder and that it inverts ber); "well-formed response value" = it parses to a tree of the RFC 4511 4.5.2 shape.
pub struct NomErr { pub k: u8 }
pub type IResult<I, O> = core::result::Result<(I, O), NomErr>;
pub uninterp spec fn parse_spec(b: Seq<u8>) -> Option<StructureTag>;
#[verifier::external_body]
pub fn parse_tag<'a>(i: &'a [u8]) -> (r: IResult<&'a [u8], StructureTag>)
    ensures match parse_spec(i@) { Some(t) => r matches Ok(p) && p.1 == t, None => r is Err }
{ unimplemented!() }
pub struct ReadEntryResp { pub attrs: HashMap<Vec<String>>, pub bin_attrs: HashMap<Vec<Vec<u8>>> }
//@lift name=ResultEntry::new file=src/search.rs impl="impl\s+ResultEntry\s*\{" fn=new
//@ sub "fn new(st: StructureTag) -> ResultEntry" => "fn result_entry_new(st: StructureTag) -> ResultEntry"
//@ ret r
//@ spec
    ensures r.0 == st, r.1@.len() == 0, //# C15+C19.result_entry_new_wraps_the_tag_with_no_controls
//@end
//@lift name=ReadEntryResp::parse file=src/controls_impl/read_entry.rs impl="impl\s+ControlParser\s+for\s+ReadEntryResp\s*\{" fn=parse
//@ sub "fn parse(val: &[u8]) -> ReadEntryResp" => "fn read_entry_resp_parse(val: &[u8]) -> ReadEntryResp"
//@ sub "SearchEntry::construct(" => "construct("
//@ sub "ResultEntry::new(" => "result_entry_new("
//@ ret r
//@ spec
    requires parse_spec(val@) matches Some(t) && wf_entry(t), //# C19.read_entry_response_must_be_a_well_formed_entry_else_panics_by_contract
    ensures
        text_view(r.attrs.m@) =~= entry_fold(entry_attrs(parse_spec(val@)->0), entry_attrs(parse_spec(val@)->0).len()).text, //# C19.read_entry_response_text_attributes_are_the_entrys
        bin_view(r.bin_attrs.m@) =~= entry_fold(entry_attrs(parse_spec(val@)->0), entry_attrs(parse_spec(val@)->0).len()).bin, //# C19.read_entry_response_binary_attributes_are_the_entrys
//@end
} // verus!
fn main() {}
