// Unit V-filter-leaf: the leaf functions of src/filter.rs that are within Verus' reach -- the RFC 4511 4.5.1 filter
// tag numbers (constants, lifted), filtertag, is_value_char, extensible_tag.  The nom grammar itself (acceptance /
// rejection over all strings, placement of substring components) is NOT decided by this technique (DESIGN.md C08).
use vstd::prelude::*;
use vstd::string::*;
verus! {

//@include contracts/shared/lber_types.rs
//@include contracts/shared/tree_spec.rs
//@include contracts/shared/std_specs.rs

//@const file=src/filter.rs name=AND_FILT
//@const file=src/filter.rs name=OR_FILT
//@const file=src/filter.rs name=NOT_FILT
//@const file=src/filter.rs name=EQ_MATCH
//@const file=src/filter.rs name=SUBSTR_MATCH
//@const file=src/filter.rs name=GTE_MATCH
//@const file=src/filter.rs name=LTE_MATCH
//@const file=src/filter.rs name=PRES_MATCH
//@const file=src/filter.rs name=APPROX_MATCH
//@const file=src/filter.rs name=EXT_MATCH
//@const file=src/filter.rs name=SUB_INITIAL
//@const file=src/filter.rs name=SUB_ANY
//@const file=src/filter.rs name=SUB_FINAL

// RFC 4511 4.5.1: Filter ::= CHOICE { and [0], or [1], not [2], equalityMatch [3], substrings [4], greaterOrEqual [5],
//   lessOrEqual [6], present [7], approxMatch [8], extensibleMatch [9] }; SubstringFilter: initial [0], any [1], final [2]
pub proof fn filter_tag_numbers_rfc4511()
    ensures
        AND_FILT == 0 && OR_FILT == 1 && NOT_FILT == 2, //# C08.and_or_not_tag_numbers
        EQ_MATCH == 3 && SUBSTR_MATCH == 4 && GTE_MATCH == 5 && LTE_MATCH == 6 && PRES_MATCH == 7 && APPROX_MATCH == 8 && EXT_MATCH == 9, //# C08.match_tag_numbers
        SUB_INITIAL == 0 && SUB_ANY == 1 && SUB_FINAL == 2, //# C08.substring_tag_numbers
{ }

//@lift name=is_value_char file=src/filter.rs fn=is_value_char
//@ sub "fn is_value_char(&c: &u8) -> bool" => "fn is_value_char(c0: &u8) -> bool"
//@ ret r
//@ insert entry
    let c = *c0;
//@ spec
    ensures r == !(*c0 == 0 || *c0 == 0x28 || *c0 == 0x29 || *c0 == 0x2a), //# C08.value_chars_exclude_exactly_nul_parens_asterisk
//@end

//@lift name=extensible_tag file=src/filter.rs fn=extensible_tag
//@ sub "let mut inner = vec![];" => "let mut inner: Vec<Tag> = vec![];"
//@ ret r
//@ insert before "Tag::Sequence(Sequence {\n        class: TagClass::Context,\n        id: EXT_MATCH,"
    proof {
        lemma_trees_len(inner@, inner@.len());
        assert(trees(inner@, inner@.len()) =~= ext_kids(mrule, attr, value@, dn));
    } //# C08.extensible_match_components_in_order
//@ spec
    ensures
        // RFC 4511 4.5.1 MatchingRuleAssertion ::= SEQUENCE { matchingRule [1] OPTIONAL, type [2] OPTIONAL, matchValue [3],
        //   dnAttributes [4] BOOLEAN DEFAULT FALSE }
        tree(r) == t_ctx_c(9, ext_kids(mrule, attr, value@, dn)), //# C08.extensible_match_assembly_rfc4511
//@end
pub open spec fn opt_p(id: u64, o: Option<&[u8]>) -> Seq<T> { match o { Some(s) => seq![t_ctx_p(id, s@)], None => Seq::empty() } }
pub open spec fn ext_kids(mrule: Option<&[u8]>, attr: Option<&[u8]>, value: Seq<u8>, dn: bool) -> Seq<T> {
    opt_p(1, mrule) + opt_p(2, attr) + seq![t_ctx_p(3, value)] + (if dn { seq![T::P(TagClass::Context, 4, seq![0xffu8])] } else { Seq::empty() })
}

} // verus!
fn main() {}
