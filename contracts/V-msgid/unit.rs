// Unit V-msgid: Ldap::next_msgid (src/ldap.rs) under contract.  Serves C05, C13 (E6).
// Prelude (trusted shapes): the locked pair (last id, in-use set) is a plain field; rule R4 replaces
// `self.msgmap.lock().expect(..)` by `&mut self.msgmap` (std Mutex exclusion is trusted).
use vstd::prelude::*;
use std::collections::HashSet;
verus! {
broadcast use vstd::std_specs::hash::group_hash_axioms;

//@include contracts/shared/msgid_spec.rs

pub struct Ldap { pub msgmap: (i32, HashSet<i32>) }

impl Ldap {
//@lift name=next_msgid file=src/ldap.rs impl="impl\s+Ldap\s*\{" fn=next_msgid
//@ rules +R4
//@ ret r
//@ spec
    requires
        0 <= old(self).msgmap.0 <= i32::MAX,
        free_exists(old(self).msgmap.1@),
    ensures
        1 <= r <= i32::MAX, //# C05.id_in_range
        !old(self).msgmap.1@.contains(r), //# C05.id_not_in_use
        final(self).msgmap.1@ == old(self).msgmap.1@.insert(r), //# C05.inuse_gains_exactly_r
        // the counter advances to the ID just handed out: an ID released by a timeout, an abandon or an early finish() is NOT the next
        // one to be reused, so a late response under it finds no operation (C01) until the whole ID space has been cycled through
        final(self).msgmap.0 == r, //# C01+C05.last_is_r
//@ loop 1
            invariant_except_break
                forall|k: i32| #![trigger msgmap.1@.contains(k)] visited(last_ldap_id, next_ldap_id, k) ==> msgmap.1@.contains(k), //# inv.visited_all_in_use
                dist(last_ldap_id, next_ldap_id) < i32::MAX, //# inv.dist_bound
            invariant
                0 <= last_ldap_id <= i32::MAX,
                0 <= next_ldap_id <= i32::MAX,
                next_ldap_id == 0 ==> last_ldap_id == 0,
                msgmap.1@ == old(self).msgmap.1@, //# inv.set_unchanged_in_loop
                msgmap.0 == old(self).msgmap.0,
                last_ldap_id == old(self).msgmap.0,
                free_exists(msgmap.1@),
            ensures
                1 <= next_ldap_id <= i32::MAX,
                !msgmap.1@.contains(next_ldap_id),
            decreases i32::MAX - dist(last_ldap_id, next_ldap_id), //# termination
//@end
}

} // verus!
fn main() {}
