#![feature(allocator_api)]
// Unit V-lber-enc: lber/src/write.rs -- the recursive encoder encode_inner and encode_into, text unchanged.
// The leaf writers write_type / write_length are contracted stubs (their contracts are discharged by Kani on the
// real functions over the full domain).  Serves C07 (the encoder emits exactly ber(tree): definite lengths,
// children in order), C02/C19 (what reaches the wire is ber of the request tree).
use vstd::prelude::*;
use vstd::string::*;
verus! {

//@include contracts/shared/lber_types.rs
//@include contracts/shared/tree_spec.rs
//@include contracts/shared/std_specs.rs

pub mod io {
    pub struct Error { pub k: u8 }
    pub type Result<T> = core::result::Result<T, Error>;
}
pub uninterp spec fn iter_seq<T, I>(i: I) -> Seq<T>;
pub broadcast proof fn ax_iter_seq_vec<T>(v: Vec<T>) ensures #[trigger] iter_seq::<T, Vec<T>>(v) == v@ { admit(); }
pub assume_specification<T, A: std::alloc::Allocator, I: IntoIterator<Item = T>> [<Vec<T, A> as Extend<T>>::extend] (s: &mut Vec<T, A>, it: I)
    ensures final(s)@ == old(s)@ + iter_seq::<T, I>(it);

// leaf writers (w: &mut dyn Write is always a Vec<u8> here); contracts = K-lber leaf clauses
#[verifier::external_body]
fn write_type(w: &mut Vec<u8>, class: TagClass, structure: TagStructure, id: u64)
    ensures final(w)@ == old(w)@ + ident(class, structure, id)
{ unimplemented!() }
#[verifier::external_body]
fn write_length(w: &mut Vec<u8>, length: usize)
    ensures final(w)@ == old(w)@ + len_octets(length as nat)
{ unimplemented!() }

//@lift name=encode_inner file=lber/src/write.rs fn=encode_inner
//@ ret r
//@ attr #[verifier::exec_allows_no_decreases_clause]
//@ insert entry
    broadcast use ax_iter_seq_vec;
    reveal_with_fuel(st_tree, 2);
//@ insert after-let tmp
            let ghost kids = tags@;
            proof { lemma_st_trees_len(kids, kids.len()); }
//@ loop 1 iter=it
                invariant
                    it.seq() == kids,
                    tmp@ == ber_ts(st_trees(kids, kids.len()), it.index@ as nat), //# inv.children_encoded_in_order
                    st_trees(kids, kids.len()).len() == kids.len(), forall|i: int| 0 <= i < kids.len() ==> #[trigger] st_trees(kids, kids.len())[i] == st_tree(kids[i]),
//@ spec
    ensures
        r is Ok, //# C07.encoder_never_fails
        final(buf)@ == old(buf)@ + ber_t(st_tree(tag)), //# C07.encoder_appends_exactly_ber_of_the_tree
//@end

// bytes::BytesMut with a view; extend(Vec<u8>) appends
#[verifier::external_body]
pub struct BytesMut { _p: u8 }
impl BytesMut {
    pub uninterp spec fn view(&self) -> Seq<u8>;
    #[verifier::external_body]
    pub fn extend(&mut self, v: Vec<u8>) ensures final(self).view() == old(self).view() + v@ { unimplemented!() }
}

//@lift name=encode_into file=lber/src/write.rs fn=encode_into
//@ ret r
//@ spec
    ensures
        r is Ok,
        final(buf).view() == old(buf).view() + ber_t(st_tree(tag)), //# C07+C02.encode_into_appends_ber_of_the_tree
//@end

} // verus!
fn main() {}
