// Unit K-lber: bit-level leaf functions of the real `lber` crate under Kani, full input domain.
// Each `//@append <file>` section is appended verbatim to that file of a scratch copy of /repo's
// working tree (nothing in the copied text is edited), so private functions are in scope unchanged.
// Each `//@contract <file> fn=<name>` section is inserted immediately before `fn <name>` in the
// scratch copy (attributes only).

// (A Kani function contract -- #[kani::ensures] on i_e_into_structure proved with proof_for_contract -- was
// tried first: CBMC exceeded 19 GB / 7 min on the write-set instrumentation of the Vec.  The same
// postcondition is therefore stated as an assertion around a call with a fully symbolic argument.)

//@append lber/src/structures/integer.rs
#[cfg(kani)]
mod verif_k {
    use super::*;
    use structure::PL;

    // independent decoder: big-endian two's complement (X.690 8.3)
    pub fn dec(v: &[u8]) -> i64 {
        let mut acc: i64 = if v[0] & 0x80 != 0 { -1 } else { 0 };
        let mut i = 0;
        while i < v.len() {
            acc = (acc << 8) | v[i] as i64;
            i += 1;
        }
        acc
    }

    /// payload is primitive, 1..=8 octets, decodes to x, and is the shortest such (X.690 8.3.2:
    /// the first nine bits are neither all zero nor all one)
    pub fn int_payload_ok(p: &PL, x: i64) -> bool {
        match p {
            PL::P(v) => {
                v.len() >= 1 && v.len() <= 8 && dec(v) == x
                    && (v.len() == 1 || !((v[0] == 0 && v[1] & 0x80 == 0) || (v[0] == 0xFF && v[1] & 0x80 != 0)))
            }
            PL::C(_) => false,
        }
    }

    // postcondition of i_e_into_structure for every i64, every class, every id
    #[kani::proof]
    #[kani::unwind(10)]
    fn int_all_i64() {
        let x: i64 = kani::any();
        let c: u8 = kani::any();
        kani::assume(c < 4);
        let id: u64 = kani::any();
        let class = TagClass::from_u8(c).unwrap();
        kani::cover!(x < -128, "negative multi-octet value reachable");
        kani::cover!(x > 0x7fff_ffff, "large positive value reachable");
        let r = i_e_into_structure(id, class, x);
        assert!(r.id == id && r.class == class);
        assert!(int_payload_ok(&r.payload, x));
    }

    // leaf clause used by the ldap3-level units: reading a non-negative INTEGER's contents as an unsigned
    // big-endian number (lber::parse::parse_uint) gives the value back
    #[kani::proof]
    #[kani::unwind(10)]
    fn uint_of_nonneg_int_octets() {
        let x: i64 = kani::any();
        kani::assume(x >= 0);
        let r = i_e_into_structure(2, TagClass::Universal, x);
        match r.payload {
            PL::P(v) => match ::parse::parse_uint(&v) {
                Ok((_, u)) => assert!(u == x as u64),
                Err(_) => assert!(false),
            },
            PL::C(_) => assert!(false),
        }
        kani::cover!(x > 0xffff_ffff, "five-octet value reachable");
    }

    // the same obligation through the public trait methods (Integer and Enumerated share the function)
    #[kani::proof]
    #[kani::unwind(10)]
    fn int_enum_public_all_i64() {
        let x: i64 = kani::any();
        let st = Integer { id: 2, class: TagClass::Universal, inner: x }.into_structure();
        assert!(st.id == 2 && st.class == TagClass::Universal);
        assert!(int_payload_ok(&st.payload, x));
        let se = Enumerated { id: 10, class: TagClass::Universal, inner: x }.into_structure();
        assert!(se.id == 10 && int_payload_ok(&se.payload, x));
    }
}

//@append lber/src/structures/boolean.rs
#[cfg(kani)]
mod verif_k {
    use super::*;
    use structure::PL;

    #[kani::proof]
    #[kani::unwind(3)]
    fn boolean_all() {
        let b: bool = kani::any();
        let id: u64 = kani::any();
        let st = Boolean { id, class: TagClass::Context, inner: b }.into_structure();
        assert!(st.id == id && st.class == TagClass::Context);
        match st.payload {
            PL::P(v) => {
                assert!(v.len() == 1);
                assert!(v[0] == if b { 0xFF } else { 0x00 });
            }
            PL::C(_) => { assert!(false); }
        }
        kani::cover!(b, "true reachable");
    }
}

//@append lber/src/write.rs
#[cfg(kani)]
mod verif_k {
    use super::*;

    /// X.690 8.1.3: definite form, short iff n < 128, else 0x80|k then the k minimal big-endian octets
    fn spec_len(n: usize) -> Vec<u8> {
        if n < 128 {
            return vec![n as u8];
        }
        let n = n as u64;
        let mut k: u32 = 8;
        while k > 1 && (n >> (8 * (k - 1))) == 0 {
            k -= 1;
        }
        let mut v = vec![0x80u8 | k as u8];
        let mut j = k;
        while j > 0 {
            j -= 1;
            v.push(((n >> (8 * j)) & 0xff) as u8);
        }
        v
    }

    #[kani::proof]
    #[kani::unwind(10)]
    fn write_length_all_usize() {
        let n: usize = kani::any();
        let mut out: Vec<u8> = Vec::new();
        write_length(&mut out, n);
        assert!(out == spec_len(n));
        kani::cover!(n < 128, "short form reachable");
        kani::cover!(n >= 128 && n < 256, "one-octet long form reachable");
        kani::cover!(n > 0xffff_ffff, "five-or-more-octet long form reachable");
    }

    #[kani::proof]
    #[kani::unwind(3)]
    fn write_type_ids_le30() {
        let c: u8 = kani::any();
        kani::assume(c < 4);
        let s: u8 = kani::any();
        kani::assume(s < 2);
        let id: u64 = kani::any();
        kani::assume(id <= 30);
        let mut out: Vec<u8> = Vec::new();
        write_type(&mut out, TagClass::from_u8(c).unwrap(), TagStructure::from_u8(s).unwrap(), id);
        assert!(out.len() == 1 && out[0] == (c << 6) | (s << 5) | id as u8);
        kani::cover!(c == 3 && s == 1 && id == 30, "corner reachable");
    }

    // X.690 8.1.2.4: tag numbers above 30 -- leading octet with the five tag bits set, then the number in base 128, most
    // significant group first, bit 8 set on every octet but the last.  Every u64 above 30 (1..=10 groups).
    #[kani::proof]
    #[kani::unwind(12)]
    fn write_type_high_tag_numbers() {
        let c: u8 = kani::any();
        kani::assume(c < 4);
        let s: u8 = kani::any();
        kani::assume(s < 2);
        let id: u64 = kani::any();
        kani::assume(id > 30);
        let mut out: Vec<u8> = Vec::new();
        write_type(&mut out, TagClass::from_u8(c).unwrap(), TagStructure::from_u8(s).unwrap(), id);
        // oracle: number of 7-bit groups
        let mut groups: usize = 0;
        let mut t = id;
        while t > 0 { groups += 1; t >>= 7; }
        assert!(out.len() == 1 + groups);
        assert!(out[0] == (c << 6) | (s << 5) | 0x1f);
        let mut k: usize = 0;
        while k < groups {
            let g = ((id >> (7 * (groups - 1 - k))) & 0x7f) as u8;
            let want = if k + 1 == groups { g } else { g | 0x80 };
            assert!(out[1 + k] == want);
            k += 1;
        }
        kani::cover!(groups == 10, "ten groups reachable");
        kani::cover!(groups == 1, "one group reachable");
    }

    // parse_length inverts write_length for every usize and leaves the trailing byte untouched
    #[kani::proof]
    #[kani::unwind(11)]
    fn length_roundtrip_all_usize() {
        let n: usize = kani::any();
        let trail: u8 = kani::any();
        let mut out: Vec<u8> = Vec::new();
        write_length(&mut out, n);
        out.push(trail);
        match ::parse::verif_parse_length(&out) {
            Ok((rest, l)) => {
                assert!(l == n);
                assert!(rest.len() == 1 && rest[0] == trail);
            }
            Err(_) => { assert!(false); }
        }
    }
}

//@append lber/src/parse.rs
#[cfg(kani)]
pub fn verif_parse_length(i: &[u8]) -> nom::IResult<&[u8], usize> {
    parse_length(i)
}

#[cfg(kani)]
mod verif_k {
    use super::*;

    fn be_uint(s: &[u8]) -> u64 {
        let mut acc: u64 = 0;
        let mut i = 0;
        while i < s.len() {
            acc = (acc << 8) | s[i] as u64;
            i += 1;
        }
        acc
    }

    #[kani::proof]
    #[kani::unwind(11)]
    fn parse_uint_is_be_uint() {
        let b: [u8; 9] = kani::any();
        let n: usize = kani::any();
        kani::assume(n <= 9);
        match parse_uint(&b[..n]) {
            Ok((rest, v)) => {
                assert!(rest.len() == n);
                assert!(v == be_uint(&b[..n]));
            }
            Err(_) => { assert!(false); }
        }
        kani::cover!(n == 9, "nine octets (wrap) reachable");
    }

    // len_hdr: reference from X.690 8.1.3 (definite forms, any number of leading zero octets);
    // NeedMore exactly on a proper prefix of a header; nothing past the header is consumed.
    #[kani::proof]
    #[kani::unwind(12)]
    fn parse_length_is_len_hdr() {
        let b: [u8; 10] = kani::any();
        let n: usize = kani::any();
        kani::assume(n <= 10);
        let r = parse_length(&b[..n]);
        if n == 0 {
            assert!(matches!(r, Err(nom::Err::Incomplete(_))));
        } else if b[0] < 128 {
            match r {
                Ok((rest, l)) => {
                    assert!(l == b[0] as usize);
                    assert!(rest.len() == n - 1);
                    assert!(n == 1 || rest[0] == b[1]);
                }
                Err(_) => { assert!(false); }
            }
        } else {
            let k = (b[0] - 128) as usize;
            if n - 1 < k {
                assert!(matches!(r, Err(nom::Err::Incomplete(_))));
            } else {
                match r {
                    Ok((rest, l)) => {
                        assert!(l as u64 == be_uint(&b[1..1 + k]));
                        assert!(rest.len() == n - 1 - k);
                        assert!(rest.len() == 0 || rest[0] == b[1 + k]);
                    }
                    Err(_) => { assert!(false); }
                }
            }
        }
        kani::cover!(n == 10 && b[0] == 0x89, "nine-octet long form reachable");
        kani::cover!(n >= 3 && b[0] == 0x82 && b[1] == 0, "non-minimal long form reachable");
    }

    #[kani::proof]
    #[kani::unwind(4)]
    fn parse_type_header_is_type_hdr() {
        let b: [u8; 2] = kani::any();
        let n: usize = kani::any();
        kani::assume(n <= 2);
        let r = parse_type_header(&b[..n]);
        if n == 0 {
            assert!(matches!(r, Err(nom::Err::Incomplete(_))));
        } else {
            match r {
                Ok((rest, (c, s, id))) => {
                    assert!(rest.len() == n - 1);
                    assert!(n == 1 || rest[0] == b[1]);
                    assert!(c as u8 == b[0] >> 6);
                    assert!(s as u8 == (b[0] >> 5) & 1);
                    assert!(id == (b[0] & 0x1f) as u64);
                }
                Err(_) => { assert!(false); }
            }
        }
        kani::cover!(n == 2 && b[0] == 0xff, "all-ones identifier reachable");
    }

    // thorough tier: the recursive parser itself on every buffer of <= 4 bytes against the framing reference
    // (cross-check of the seam between the Kani leaf clauses and the Verus contract of parse_tag)
    #[kani::proof]
    #[kani::unwind(2)]
    fn parse_tag_framing_le4() {
        let b: [u8; 4] = kani::any();
        let n: usize = kani::any();
        kani::assume(n <= 4);
        let r = parse_tag(&b[..n]);
        // bytes announced by the outer header, when the header is complete within n bytes
        let need: Option<usize> = if n < 2 { None } else if b[1] < 128 { Some(2 + b[1] as usize) }
            else if b[1] == 0x81 { if n >= 3 { Some(3 + b[2] as usize) } else { None } }
            else if b[1] == 0x82 { if n >= 4 { Some(4 + ((b[2] as usize) << 8 | b[3] as usize)) } else { None } }
            else if b[1] == 0x80 { Some(2) }
            else { None };
        if n == 0 { assert!(matches!(r, Err(nom::Err::Incomplete(_)))); }
        if let Some(k) = need {
            if n < k { assert!(matches!(r, Err(nom::Err::Incomplete(_)))); }
            else {
                assert!(!matches!(r, Err(nom::Err::Incomplete(_))));
                if let Ok((rest, t)) = &r {
                    assert!(rest.len() == n - k);
                    assert!(t.class as u8 == b[0] >> 6 && t.id == (b[0] & 0x1f) as u64);
                }
                if b[0] & 0x20 == 0 { assert!(r.is_ok()); }
            }
        }
        kani::cover!(n == 4 && b[0] == 0x30 && b[1] == 2, "constructed with inner TLV reachable");
    }

    // (the same harness restricted to <= 2 or <= 3 bytes did not finish in 7-10 min either: CBMC's cost is dominated by
    //  the unwound recursive instance, not by the buffer size, so there is no quick-tier variant)
}
