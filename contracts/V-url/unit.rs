// Unit V-url: `get_url_params` (src/util.rs) -- the RFC 4516 field extraction -- with the real `PartialEq for LdapUrlExt`.
// The url crate, str::splitn / split, percent_decode_str(..).decode_utf8(), chars().next(), &s[1..] / &s[..1] are stubs whose
// contracts are stated over mathematical splitting / decoding functions on Seq<char>; what is decided is the code BETWEEN
// them: field order, defaults, scope words, criticality, extension recognition, set semantics.  Serves C20 (partly).
use vstd::prelude::*;
use vstd::string::*;
verus! {

// ---- mathematical strings -------------------------------------------------------------------------------------------
pub open spec fn index_of(s: Seq<char>, c: char) -> int
    decreases s.len()
{
    if s.len() == 0 { -1 } else if s[0] == c { 0 } else { let r = index_of(s.skip(1), c); if r < 0 { -1 } else { r + 1 } }
}
// str::splitn(n, c): at most n pieces, the last one taking the rest (n >= 1)
pub open spec fn splitn_spec(s: Seq<char>, n: nat, c: char) -> Seq<Seq<char>>
    decreases n
{
    if n <= 1 { seq![s] } else {
        let i = index_of(s, c);
        if i < 0 { seq![s] } else { seq![s.subrange(0, i)] + splitn_spec(s.subrange(i + 1, s.len() as int), (n - 1) as nat, c) }
    }
}
// str::split(c): every piece
pub open spec fn split_spec(s: Seq<char>, c: char) -> Seq<Seq<char>>
    decreases s.len()
{
    let i = index_of(s, c);
    if i < 0 || i >= s.len() { seq![s] } else { seq![s.subrange(0, i)] + split_spec(s.subrange(i + 1, s.len() as int), c) }
}
pub open spec fn all_ascii(s: Seq<char>) -> bool { forall|i: int| 0 <= i < s.len() ==> (#[trigger] s[i] as u32) < 128 }
pub open spec fn all_ascii_seq(ss: Seq<Seq<char>>) -> bool { forall|i: int| 0 <= i < ss.len() ==> all_ascii(#[trigger] ss[i]) }
// RFC 3986 percent-decoding followed by UTF-8 validation: None when the decoded bytes are not UTF-8 (uninterpreted)
pub uninterp spec fn pct_utf8(s: Seq<char>) -> Option<Seq<char>>;
pub open spec fn lower(c: char) -> char { if 'A' <= c && c <= 'Z' { ((c as u8) + 32u8) as char } else { c } }
// ascii_lc_equal(s, t): s equals t lowercased (byte-wise; on ASCII strings bytes are chars)
pub open spec fn lc_eq(s: Seq<char>, t: Seq<char>) -> bool { s.len() == t.len() && forall|i: int| 0 <= i < s.len() ==> s[i] == lower(#[trigger] t[i]) }

// Rust's str equality is equality of content (assumption: Verus' `==` on &str is identity of the abstract value)
#[verifier::external_body]
pub broadcast proof fn axiom_str_eq_is_content_eq(a: &str, b: &str)
    ensures (#[trigger] a@ == #[trigger] b@) ==> a == b
{ }

// ---- stubs: url::Url, str pieces, percent-decoding ------------------------------------------------------------------
pub struct Url { pub g: u8 }
impl Url {
    pub uninterp spec fn path_of(&self) -> &'static str;
    pub uninterp spec fn query_of(&self) -> Option<&'static str>;
    // url's serialization is ASCII: everything else is percent-encoded by Url::parse (assumed contract on the url crate)
    #[verifier::external_body] pub fn path(&self) -> (r: &str) ensures r == self.path_of(), all_ascii(r@) { unimplemented!() }
    #[verifier::external_body] pub fn query(&self) -> (r: Option<&str>) ensures r == self.query_of(), r matches Some(q) ==> all_ascii(q@) { unimplemented!() }
}
pub struct SplitIter<'a> { pub all: Ghost<Seq<&'a str>>, pub pos: Ghost<int> }
pub open spec fn views(ss: Seq<&str>) -> Seq<Seq<char>> { ss.map_values(|s: &str| s@) }
impl<'a> SplitIter<'a> {
    #[verifier::external_body]
    pub fn next(&mut self) -> (r: Option<&'a str>)
        ensures final(self).all@ == old(self).all@,
            old(self).pos@ >= old(self).all@.len() ==> r is None && final(self).pos@ == old(self).pos@,
            old(self).pos@ < old(self).all@.len() ==> r == Some(old(self).all@[old(self).pos@]) && final(self).pos@ == old(self).pos@ + 1,
            r matches Some(x) ==> x@ == views(old(self).all@)[old(self).pos@],
    { unimplemented!() }
}
// `.collect()` of a Split into a Vec<&str>: the list of pieces itself
pub fn verif_collect_id<'a>(v: Vec<&'a str>) -> (r: Vec<&'a str>) ensures r == v { v }
pub trait VecExt<'a>: Sized { fn verif_collect(self) -> (r: Self) ensures r == self; }
impl<'a> VecExt<'a> for Vec<&'a str> { fn verif_collect(self) -> (r: Self) { self } }
pub trait StrExt<'a> {
    fn verif_splitn(self, n: usize, c: char) -> (r: SplitIter<'a>) requires n >= 1;
    fn verif_split(self, c: char) -> (r: Vec<&'a str>);
}
impl<'a> StrExt<'a> for &'a str {
    #[verifier::external_body]
    fn verif_splitn(self, n: usize, c: char) -> (r: SplitIter<'a>)
        ensures views(r.all@) == splitn_spec(self@, n as nat, c), r.pos@ == 0
    { unimplemented!() }
    #[verifier::external_body]
    fn verif_split(self, c: char) -> (r: Vec<&'a str>)      // the Split iterator, seen as the list of its pieces
        ensures views(r@) == split_spec(self@, c)
    { unimplemented!() }
}
// idioms: `s.chars().next().unwrap_or('\0')`, `&s[1..]`, `&s[..1] == "!"`, `s.is_empty()`
#[verifier::external_body]
pub fn verif_first_char_or_nul(s: &str) -> (r: char) ensures r == (if s@.len() > 0 { s@[0] } else { '\0' }) { unimplemented!() }
#[verifier::external_body]
pub fn verif_skip1<'a>(s: &'a str) -> (r: &'a str)
    requires s@.len() > 0, (s@[0] as u32) < 128,      // &s[1..] panics unless byte 1 is a char boundary
    ensures r@ == s@.skip(1)
{ unimplemented!() }
#[verifier::external_body]
pub fn verif_first_is<'a>(s: &'a str, lit: &str) -> (r: bool)
    requires s@.len() > 0, (s@[0] as u32) < 128, lit@.len() == 1,     // &s[..1] panics unless byte 1 is a char boundary
    ensures r == (s@[0] == lit@[0])
{ unimplemented!() }
#[verifier::external_body]
pub fn verif_is_empty(s: &str) -> (r: bool) ensures r == (s@.len() == 0) { unimplemented!() }

#[derive(Clone)]
pub enum Cow<'a> { Borrowed(&'a str), Owned(String) }
impl<'a> Cow<'a> {
    pub open spec fn text(&self) -> Seq<char> { match self { Cow::Borrowed(s) => s@, Cow::Owned(s) => s@ } }
}
impl<'a> vstd::std_specs::convert::FromSpecImpl<&'a str> for Cow<'a> { open spec fn obeys_from_spec() -> bool { true } open spec fn from_spec(s: &'a str) -> Cow<'a> { Cow::Borrowed(s) } }
impl<'a> From<&'a str> for Cow<'a> { fn from(s: &'a str) -> (r: Cow<'a>) { Cow::Borrowed(s) } }
pub struct PctDec<'a> { pub s: &'a str }
pub struct Utf8Error { pub g: u8 }
#[verifier::external_body]
pub fn percent_decode_str<'a>(s: &'a str) -> (r: PctDec<'a>) ensures r.s == s { unimplemented!() }
// the lossy sibling (U+FFFD for invalid sequences): never fails, agrees with the strict decoder where that succeeds
pub uninterp spec fn pct_lossy(s: Seq<char>) -> Seq<char>;
impl<'a> PctDec<'a> {
    #[verifier::external_body]
    pub fn decode_utf8_lossy(self) -> (r: Cow<'a>)
        ensures r.text() == pct_lossy(self.s@), pct_utf8(self.s@) matches Some(t) ==> r.text() == t
    { unimplemented!() }
    #[verifier::external_body]
    pub fn decode_utf8(self) -> (r: core::result::Result<Cow<'a>, Utf8Error>)
        ensures r is Ok <==> pct_utf8(self.s@) is Some, r matches Ok(c) ==> Some(c.text()) == pct_utf8(self.s@)
    { unimplemented!() }
}
pub enum LdapError { DecodingUTF8, InvalidScopeString(String), UnrecognizedCriticalExtension(String), Other(u8) }
pub type Result<T> = core::result::Result<T, LdapError>;
#[verifier::external_body]
pub fn verif_string_of(s: &str) -> (r: String) ensures r@ == s@ { unimplemented!() }
pub assume_specification<'a> [<String as From<&'a str>>::from] (s: &str) -> (r: String) ensures r@ == s@;

//@item file=src/search.rs kind=enum name=Scope
//@item file=src/util.rs kind=enum name=LdapUrlExt retype="Cow<'a, str> => Cow<'a>"

// idiom: format!("{:?}", ext) -- the Debug rendering of the unknown extension (content not modelled)
#[verifier::external_body]
pub fn verif_debug_ext(e: LdapUrlExt) -> (r: String) { unimplemented!() }

//@lift name=LdapUrlExt::eq file=src/util.rs impl="impl<'a>\s+PartialEq\s+for\s+LdapUrlExt<'a>\s*\{" fn=eq
//@ sub "fn eq(&self, other: &Self) -> bool" => "fn ldapurlext_eq<'a, 'b>(self_: &LdapUrlExt<'a>, other: &LdapUrlExt<'b>) -> bool"
//@ sub "(self, other)" => "(self_, other)"
//@ ret r
//@ spec
    ensures r == same_variant(*self_, *other), //# C20.extensions_compare_by_kind_only
//@end
pub open spec fn kind(e: LdapUrlExt) -> int { match e { LdapUrlExt::Bindname(_) => 0, LdapUrlExt::XBindpw(_) => 1, LdapUrlExt::Credentials(_) => 2, LdapUrlExt::SaslMech(_) => 3, LdapUrlExt::StartTLS => 4, LdapUrlExt::Unknown(_) => 5 } }
pub open spec fn same_variant(a: LdapUrlExt, b: LdapUrlExt) -> bool { kind(a) == kind(b) }
// `a == b` / `a != b` on LdapUrlExt values in lifted text mean the lifted `eq` above
impl<'a> vstd::std_specs::cmp::PartialEqSpecImpl for LdapUrlExt<'a> {
    open spec fn obeys_eq_spec() -> bool { true }
    open spec fn eq_spec(&self, other: &LdapUrlExt<'a>) -> bool { same_variant(*self, *other) }
}
impl<'a> PartialEq for LdapUrlExt<'a> { fn eq(&self, other: &LdapUrlExt<'a>) -> (r: bool) { ldapurlext_eq(self, other) } }

// `impl Hash for LdapUrlExt`: what is fed to the hasher is a word that depends on the kind only and differs between kinds,
// i.e. Hash is consistent with the PartialEq above (k1 == k2 ==> hash(k1) == hash(k2)) -- HashSet's requirement
pub struct HasherM { pub fed: Ghost<Seq<&'static str>> }
pub trait VerifHashStr { fn hash(&'static self, state: &mut HasherM) ensures final(state).fed@ == old(state).fed@.push(self.word()); spec fn word(&'static self) -> &'static str; }
impl VerifHashStr for str {
    open spec fn word(&'static self) -> &'static str { self }
    #[verifier::external_body] fn hash(&'static self, state: &mut HasherM) { unimplemented!() }
}
pub uninterp spec fn word_of_text(t: Seq<char>) -> &'static str;
impl<'a> Cow<'a> { #[verifier::external_body] pub fn hash(&self, state: &mut HasherM) ensures final(state).fed@ == old(state).fed@.push(word_of_text(self.text())) { unimplemented!() } }
pub open spec fn kind_word(k: int) -> &'static str {
    if k == 0 { "Bindname" } else if k == 1 { "XBindpw" } else if k == 2 { "Credentials" } else if k == 3 { "SaslMech" } else if k == 4 { "StartTLS" } else { "Unknown" }
}
//@lift name=LdapUrlExt::hash file=src/util.rs impl="impl<'a>\s+Hash\s+for\s+LdapUrlExt<'a>\s*\{" fn=hash
//@ sub "fn hash<H: Hasher>(&self, state: &mut H)" => "fn ldapurlext_hash<'a>(self_: &LdapUrlExt<'a>, state: &mut HasherM)"
//@ sub "match self {" => "match self_ {"
//@ spec
    ensures final(state).fed@ == old(state).fed@.push(kind_word(kind(*self_))), //# C20.extensions_hash_by_kind_only_consistently_with_eq
//@end
pub proof fn lemma_kind_words_differ(j: int, k: int)
    requires 0 <= j <= 5, 0 <= k <= 5, j != k
    ensures kind_word(j) != kind_word(k)
{ }

// std::collections::HashSet<LdapUrlExt> under that PartialEq/Hash (kind only): an insert of a kind already present keeps the old element
pub struct ExtSet<'a> { pub elems: Ghost<Seq<LdapUrlExt<'a>>> }
pub open spec fn has_kind(s: Seq<LdapUrlExt>, k: int) -> bool { exists|i: int| 0 <= i < s.len() && kind(#[trigger] s[i]) == k }
impl<'a> ExtSet<'a> {
    #[verifier::external_body] pub fn new() -> (r: ExtSet<'a>) ensures r.elems@.len() == 0 { unimplemented!() }
    #[verifier::external_body] pub fn insert(&mut self, e: LdapUrlExt<'a>) -> (r: bool)
        ensures final(self).elems@ == (if has_kind(old(self).elems@, kind(e)) { old(self).elems@ } else { old(self).elems@.push(e) })
    { unimplemented!() }
}
#[verifier::external_body]
pub fn ascii_lc_equal(s: &str, t: &str) -> (r: bool)
    ensures r == lc_eq(s@, t@)      // src/util.rs ascii_lc_equal: iterator zip/all, cross-checked under Kani (KX-escape::ascii_lc_equal_*)
{ unimplemented!() }

pub struct LdapUrlParams<'a> { pub base: Cow<'a>, pub attrs: Vec<&'a str>, pub scope: Scope, pub filter: Cow<'a>, pub extensions: ExtSet<'a> }

// ---- what get_url_params must compute (RFC 4516: ldapurl = scheme "://" [host] ["/" dn ["?" [attrs] ["?" [scope] ["?" [filter] ["?" exts]]]]]) ----
pub open spec fn qstr(url: &Url) -> Seq<char> { match url.query_of() { Some(q) => q@, None => ""@ } }
pub open spec fn fld(url: &Url, k: int) -> Option<Seq<char>> { let f = splitn_spec(qstr(url), 4, '?'); if 0 <= k < f.len() { Some(f[k]) } else { None } }
pub open spec fn present(f: Option<Seq<char>>) -> bool { f matches Some(s) && s != ""@ }
pub open spec fn base_raw(url: &Url) -> Seq<char> { let p = url.path_of()@; if p.len() > 0 && p[0] == '/' { p.skip(1) } else { p } }
pub open spec fn scope_of(f: Option<Seq<char>>) -> Option<Scope> {
    if !present(f) { Some(Scope::Subtree) } else if f->0 == "base"@ { Some(Scope::Base) } else if f->0 == "one"@ { Some(Scope::OneLevel) }
    else if f->0 == "sub"@ { Some(Scope::Subtree) } else { None }
}
pub open spec fn filter_raw(url: &Url) -> Seq<char> { if present(fld(url, 2)) { fld(url, 2)->0 } else { "(objectClass=*)"@ } }
pub open spec fn ext_items(url: &Url) -> Seq<Seq<char>> { if present(fld(url, 3)) { split_spec(fld(url, 3)->0, ',') } else { Seq::<Seq<char>>::empty() } }
// one extension "[!]id[=value]": (critical, id, raw value)
pub open spec fn ext_crit(e: Seq<char>) -> bool { let id0 = splitn_spec(e, 2, '=')[0]; id0.len() > 0 && id0[0] == '!' }
pub open spec fn ext_id(e: Seq<char>) -> Seq<char> { let id0 = splitn_spec(e, 2, '=')[0]; if ext_crit(e) { id0.skip(1) } else { id0 } }
pub open spec fn ext_rawval(e: Seq<char>) -> Seq<char> { let idv = splitn_spec(e, 2, '='); if idv.len() > 1 { idv[1] } else { ""@ } }
// kind of a recognised extension (as `kind` above); 5 = unknown and not critical (ignored); -1 = unknown and critical (error)
pub open spec fn classify(crit: bool, id: Seq<char>) -> int {
    if id == "1.3.6.1.4.1.10094.1.5.1"@ { 2 } else if id == "1.3.6.1.4.1.10094.1.5.2"@ { 3 } else if id == "1.3.6.1.4.1.1466.20037"@ { 4 }
    else if lc_eq("bindname"@, id) { 0 } else if lc_eq("x-bindpw"@, id) { 1 } else if crit { -1 } else { 5 }
}
pub struct ExtV { pub kind: int, pub val: Seq<char> }
pub open spec fn abs(e: LdapUrlExt) -> ExtV {
    match e { LdapUrlExt::Bindname(v) => ExtV { kind: 0, val: v.text() }, LdapUrlExt::XBindpw(v) => ExtV { kind: 1, val: v.text() },
        LdapUrlExt::Credentials(v) => ExtV { kind: 2, val: v.text() }, LdapUrlExt::SaslMech(v) => ExtV { kind: 3, val: v.text() },
        LdapUrlExt::StartTLS => ExtV { kind: 4, val: Seq::<char>::empty() }, LdapUrlExt::Unknown(v) => ExtV { kind: 5, val: v.text() } }
}
pub open spec fn abs_seq(s: Seq<LdapUrlExt>) -> Seq<ExtV> { s.map_values(|e: LdapUrlExt| abs(e)) }
pub open spec fn has_kind_v(s: Seq<ExtV>, k: int) -> bool { exists|i: int| 0 <= i < s.len() && (#[trigger] s[i]).kind == k }
// the set after the first n extensions: the FIRST instance of each recognised kind, with its percent-decoded value; None = error
pub open spec fn ext_fold(items: Seq<Seq<char>>, n: nat) -> Option<Seq<ExtV>>
    decreases n
{
    if n == 0 || n > items.len() { Some(Seq::<ExtV>::empty()) } else {
        match ext_fold(items, (n - 1) as nat) {
            None => None,
            Some(acc) => {
                let e = items[n - 1];
                match pct_utf8(ext_rawval(e)) {
                    None => None,
                    Some(val) => {
                        let k = classify(ext_crit(e), ext_id(e));
                        if k < 0 { None } else if k == 5 || has_kind_v(acc, k) { Some(acc) }
                        else { Some(acc.push(ExtV { kind: k, val: if k == 4 { Seq::<char>::empty() } else { val } })) }
                    }
                }
            }
        }
    }
}
pub proof fn lemma_fold_none(items: Seq<Seq<char>>, n: nat, m: nat)
    requires n <= m <= items.len(), ext_fold(items, n) is None
    ensures ext_fold(items, m) is None
    decreases m
{
    if n < m { lemma_fold_none(items, n, (m - 1) as nat); }
}
pub proof fn lemma_has_kind(s: Seq<LdapUrlExt>, k: int)
    ensures has_kind(s, k) == has_kind_v(abs_seq(s), k)
{
    if has_kind(s, k) { let i = choose|i: int| 0 <= i < s.len() && kind(#[trigger] s[i]) == k; assert(abs_seq(s)[i].kind == k); }
    if has_kind_v(abs_seq(s), k) { let i = choose|i: int| 0 <= i < abs_seq(s).len() && (#[trigger] abs_seq(s)[i]).kind == k; assert(kind(s[i]) == k); }
}
pub proof fn lemma_index_of(s: Seq<char>, c: char)
    ensures -1 <= index_of(s, c) < s.len(), index_of(s, c) >= 0 ==> s[index_of(s, c)] == c,
        forall|j: int| 0 <= j < s.len() && (index_of(s, c) < 0 || j < index_of(s, c)) ==> s[j] != c,
    decreases s.len()
{
    if s.len() > 0 && s[0] != c {
        lemma_index_of(s.skip(1), c);
        assert forall|j: int| 0 <= j < s.len() && (index_of(s, c) < 0 || j < index_of(s, c)) implies s[j] != c by {
            if j > 0 { assert(s.skip(1)[j - 1] == s[j]); }
        }
    }
}
pub proof fn lemma_splitn_ascii(s: Seq<char>, n: nat, c: char)
    requires all_ascii(s)
    ensures all_ascii_seq(splitn_spec(s, n, c)), splitn_spec(s, n, c).len() >= 1, splitn_spec(s, n, c).len() <= (if n == 0 { 1 } else { n }),
    decreases n
{
    lemma_index_of(s, c);
    if n > 1 && index_of(s, c) >= 0 {
        let i = index_of(s, c);
        lemma_splitn_ascii(s.subrange(i + 1, s.len() as int), (n - 1) as nat, c);
    }
}
pub proof fn lemma_split_ascii(s: Seq<char>, c: char)
    requires all_ascii(s)
    ensures all_ascii_seq(split_spec(s, c)), split_spec(s, c).len() >= 1,
    decreases s.len()
{
    lemma_index_of(s, c);
    let i = index_of(s, c);
    if 0 <= i < s.len() { lemma_split_ascii(s.subrange(i + 1, s.len() as int), c); }
}

// ---- the formatting side (RFC 4516 writer, as mathematics) and the round trip ---------------------------------------------
pub open spec fn no_char(s: Seq<char>, c: char) -> bool { forall|i: int| 0 <= i < s.len() ==> s[i] != c }
pub open spec fn join(parts: Seq<Seq<char>>, c: char) -> Seq<char>
    decreases parts.len()
{
    if parts.len() == 0 { Seq::<char>::empty() } else if parts.len() == 1 { parts[0] } else { parts[0] + seq![c] + join(parts.skip(1), c) }
}
pub proof fn lemma_index_of_none(a: Seq<char>, c: char)
    requires no_char(a, c)
    ensures index_of(a, c) == -1
    decreases a.len()
{
    if a.len() > 0 { assert(a[0] != c); assert forall|i: int| 0 <= i < a.skip(1).len() implies a.skip(1)[i] != c by { assert(a.skip(1)[i] == a[i + 1]); } lemma_index_of_none(a.skip(1), c); }
}
pub proof fn lemma_index_of_concat(a: Seq<char>, c: char, b: Seq<char>)
    requires no_char(a, c)
    ensures index_of(a + seq![c] + b, c) == a.len()
    decreases a.len()
{
    let w = a + seq![c] + b;
    if a.len() == 0 { assert(w[0] == c); } else {
        assert(w[0] == a[0]);
        assert forall|i: int| 0 <= i < a.skip(1).len() implies a.skip(1)[i] != c by { assert(a.skip(1)[i] == a[i + 1]); }
        assert(w.skip(1) =~= a.skip(1) + seq![c] + b);
        lemma_index_of_concat(a.skip(1), c, b);
    }
}
// splitting the '?'-joined fields gives the fields back: at most n of them, only the n-th may itself contain '?'
pub proof fn theorem_fields_round_trip(fields: Seq<Seq<char>>, n: nat, c: char)
    requires 1 <= fields.len() <= n,
        forall|i: int| 0 <= i < fields.len() - 1 ==> no_char(#[trigger] fields[i], c),
        fields.len() < n ==> no_char(fields[fields.len() - 1], c),
    ensures splitn_spec(join(fields, c), n, c) =~= fields //# C20.theorem_splitting_the_question_mark_joined_fields_returns_the_fields
    decreases n
{
    if fields.len() == 1 {
        if n > 1 { lemma_index_of_none(fields[0], c); }
    } else {
        let rest = fields.skip(1);
        let w = join(fields, c);
        lemma_index_of_concat(fields[0], c, join(rest, c));
        assert(w.subrange(0, fields[0].len() as int) =~= fields[0]);
        assert(w.subrange(fields[0].len() as int + 1, w.len() as int) =~= join(rest, c));
        assert forall|i: int| 0 <= i < rest.len() - 1 implies no_char(#[trigger] rest[i], c) by { assert(rest[i] == fields[i + 1]); }
        assert(rest[rest.len() - 1] == fields[fields.len() - 1]);
        theorem_fields_round_trip(rest, (n - 1) as nat, c);
        assert(splitn_spec(w, n, c) =~= seq![fields[0]] + rest);
    }
}
// splitting a comma-joined list gives the list back (attribute names / extensions contain no comma)
pub proof fn theorem_list_round_trip(parts: Seq<Seq<char>>, c: char)
    requires parts.len() >= 1, forall|i: int| 0 <= i < parts.len() ==> no_char(#[trigger] parts[i], c),
    ensures split_spec(join(parts, c), c) =~= parts //# C20.theorem_splitting_the_comma_joined_list_returns_the_list
    decreases parts.len()
{
    if parts.len() == 1 { lemma_index_of_none(parts[0], c); } else {
        let rest = parts.skip(1);
        let w = join(parts, c);
        lemma_index_of_concat(parts[0], c, join(rest, c));
        assert(w.subrange(0, parts[0].len() as int) =~= parts[0]);
        assert(w.subrange(parts[0].len() as int + 1, w.len() as int) =~= join(rest, c));
        assert forall|i: int| 0 <= i < rest.len() implies no_char(#[trigger] rest[i], c) by { assert(rest[i] == parts[i + 1]); }
        theorem_list_round_trip(rest, c);
        assert(split_spec(w, c) =~= seq![parts[0]] + rest);
    }
}
// one extension written as ["!"] id ["=" value]
pub open spec fn ext_text(crit: bool, id: Seq<char>, val: Option<Seq<char>>) -> Seq<char> {
    (if crit { seq!['!'] } else { Seq::<char>::empty() }) + id + (match val { Some(v) => seq!['='] + v, None => Seq::<char>::empty() })
}
pub proof fn theorem_ext_round_trip(crit: bool, id: Seq<char>, val: Option<Seq<char>>)
    requires id.len() > 0, id[0] != '!', no_char(id, '='),
    ensures ext_crit(ext_text(crit, id, val)) == crit, ext_id(ext_text(crit, id, val)) =~= id,
        ext_rawval(ext_text(crit, id, val)) =~= (match val { Some(v) => v, None => ""@ }) //# C20.theorem_an_extension_is_read_back_as_written
{
    reveal_strlit("");
    let e = ext_text(crit, id, val);
    let pre = (if crit { seq!['!'] } else { Seq::<char>::empty() }) + id;
    assert(no_char(pre, '=')) by { assert forall|i: int| 0 <= i < pre.len() implies pre[i] != '=' by { if crit { if i > 0 { assert(pre[i] == id[i - 1]); } } else { assert(pre[i] == id[i]); } } }
    match val {
        Some(v) => {
            assert(e =~= pre + seq!['='] + v);
            lemma_index_of_concat(pre, '=', v);
            assert(e.subrange(0, pre.len() as int) =~= pre);
            assert(e.subrange(pre.len() as int + 1, e.len() as int) =~= v);
            assert(splitn_spec(v, 1, '=') =~= seq![v]);
            assert(splitn_spec(e, 2, '=') =~= seq![pre, v]);
        }
        None => {
            assert(e =~= pre);
            lemma_index_of_none(pre, '=');
            assert(splitn_spec(e, 2, '=') =~= seq![pre]);
        }
    }
    if crit { assert(pre.skip(1) =~= id); assert(pre[0] == '!'); } else { assert(pre =~= id); }
}

//@lift name=get_url_params file=src/util.rs fn=get_url_params
//@ sub "fn get_url_params(url: &Url) -> Result<LdapUrlParams<'_>>" => "fn get_url_params<'a>(url: &'a Url) -> Result<LdapUrlParams<'a>>"
//@ sub "base.chars().next().unwrap_or('\\0')" => "verif_first_char_or_nul(base)" count=*
//@ sub "&base[1..]" => "verif_skip1(base)" count=*
//@ sub ".splitn(" => ".verif_splitn(" count=*
//@ sub ".split(" => ".verif_split(" count=*
//@ sub ".collect()" => ".verif_collect()" count=*
//@ sub "|_| " => "|_e| " count=*
//@ sub "HashSet::new()" => "ExtSet::new()" count=*
//@ sub "id.is_empty()" => "verif_is_empty(id)" count=*
//@ sub "&id[..1] == \"!\"" => "verif_first_is(id, \"!\")" count=*
//@ sub "&id[1..]" => "verif_skip1(id)" count=*
//@ sub "format!(\n                                \"{:?}\",\n                                LdapUrlExt::Unknown(ext.into())\n                            )" => "verif_debug_ext(LdapUrlExt::Unknown(ext.into()))"
//@ ret r
//@ insert entry
    broadcast use axiom_str_eq_is_content_eq;
    proof { reveal_strlit(""); reveal_strlit("!"); }
//@ insert before "let attrs"
    proof { lemma_splitn_ascii(qstr(url), 4, '?'); }
//@ insert before "for ext in"
            proof { lemma_split_ascii(exts@, ','); }
//@ loop 1 iter=it
                invariant
                    views(it.seq()) == split_spec(exts@, ','), all_ascii_seq(views(it.seq())),
                    pct_utf8(base_raw(url)) is Some, scope_of(fld(url, 1)) is Some, pct_utf8(filter_raw(url)) is Some, present(fld(url, 3)), exts@ == fld(url, 3)->0,
                    ext_fold(views(it.seq()), it.index@ as nat) == Some(abs_seq(ext_set.elems@)), //# C20.inv_the_set_holds_the_first_instance_of_each_recognised_extension_so_far
//@ insert loop-start 1
                    proof { lemma_splitn_ascii(ext@, 2, '='); reveal_strlit(""); reveal_strlit("!"); }
                    broadcast use axiom_str_eq_is_content_eq;
                    let ghost set0 = ext_set.elems@;
                    proof {
                        let items = views(it.seq());
                        assert(items[it.index@] == ext@);
                        if ext_fold(items, (it.index@ + 1) as nat) is None { lemma_fold_none(items, (it.index@ + 1) as nat, items.len()); }
                        assert forall|k: int| has_kind(set0, k) == has_kind_v(abs_seq(set0), k) by { lemma_has_kind(set0, k); }
                        assert forall|e: LdapUrlExt| abs_seq(set0.push(e)) =~= abs_seq(set0).push(#[trigger] abs(e)) by { }
                    }
//@ spec
    ensures
        r is Ok <==> (pct_utf8(base_raw(url)) is Some && scope_of(fld(url, 1)) is Some && pct_utf8(filter_raw(url)) is Some
            && ext_fold(ext_items(url), ext_items(url).len()) is Some), //# C20.an_undecodable_value_an_invalid_scope_word_or_an_unknown_critical_extension_is_an_error_and_nothing_else_is
        r matches Ok(x) ==> Some(x.base.text()) == pct_utf8(base_raw(url)), //# C20.base_is_the_percent_decoded_path_without_its_leading_slash
        r matches Ok(x) ==> (if present(fld(url, 0)) { views(x.attrs@) == split_spec(fld(url, 0)->0, ',') } else { x.attrs@ =~= seq!["*"] }), //# C20.attrs_are_the_comma_separated_first_field_or_all_attributes
        r matches Ok(x) ==> Some(x.scope) == scope_of(fld(url, 1)), //# C20.scope_is_the_second_field_base_one_sub_default_subtree
        (pct_utf8(base_raw(url)) is Some && scope_of(fld(url, 1)) is None) ==> (r matches Err(LdapError::InvalidScopeString(w)) && w@ == fld(url, 1)->0), //# C20.an_invalid_scope_word_is_reported
        r matches Ok(x) ==> Some(x.filter.text()) == pct_utf8(filter_raw(url)), //# C20.filter_is_the_percent_decoded_third_field_default_objectclass_present
        r matches Ok(x) ==> Some(abs_seq(x.extensions.elems@)) == ext_fold(ext_items(url), ext_items(url).len()), //# C20.extensions_are_recognised_by_oid_or_case_insensitive_name_unknown_non_critical_ones_ignored
//@end

} // verus!
fn main() {}
