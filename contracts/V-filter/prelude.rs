// Shared by units V-filter and V-filter-rec: nom's combinators as contracts, the assumed lexers, and RFC 4515 section 3
// written as functions of the input (denotations).  Nothing in this file is lifted code.

//@const file=src/filter.rs name=AND_FILT
//@const file=src/filter.rs name=OR_FILT
//@const file=src/filter.rs name=NOT_FILT
//@const file=src/filter.rs name=EQ_MATCH
//@const file=src/filter.rs name=SUBSTR_MATCH
//@const file=src/filter.rs name=GTE_MATCH
//@const file=src/filter.rs name=LTE_MATCH
//@const file=src/filter.rs name=PRES_MATCH
//@const file=src/filter.rs name=APPROX_MATCH
//@const file=src/filter.rs name=EXT_MATCH
//@const file=src/filter.rs name=SUB_INITIAL
//@const file=src/filter.rs name=SUB_ANY
//@const file=src/filter.rs name=SUB_FINAL

// ------------------------------------------------------------------ nom 7 (complete-input parsers), as contracts
// A parser is an `impl Fn(&[u8]) -> IResult<&[u8], O>`; its behaviour is its `ensures` relation.  Errors are not
// distinguished (no `cut`/Failure and no streaming parsers occur in src/filter.rs, so every error is recoverable).
pub struct NomErr { pub k: u8 }
pub type IResult<I, O> = core::result::Result<(I, O), NomErr>;

pub open spec fn starts_with(i: Seq<u8>, t: Seq<u8>) -> bool { i.len() >= t.len() && i.subrange(0, t.len() as int) == t }
pub open spec fn wit<A>(x: A) -> bool { true }   // trigger carrier for witnesses of recursive relations

// bytes::complete::tag: the literal, or an error
#[verifier::external_body]
pub fn tag<'a, const N: usize>(t: &'static [u8; N]) -> (f: impl Fn(&'a [u8]) -> IResult<&'a [u8], &'a [u8]>)
    ensures
        forall|i: &'a [u8]| #[trigger] f.requires((i,)),
        forall|i: &'a [u8], r: IResult<&'a [u8], &'a [u8]>| #[trigger] f.ensures((i,), r) ==>
            (if starts_with(i@, t@) { r matches Ok(p) && p.0@ == i@.skip(t@.len() as int) && p.1@ == t@ } else { r is Err }),
{ move |i: &'a [u8]| Err(NomErr { k: 0 }) }

// combinator::opt: None (and nothing consumed) when the parser fails
#[verifier::external_body]
pub fn opt<'a, O, F: Fn(&'a [u8]) -> IResult<&'a [u8], O>>(p: F) -> (f: impl Fn(&'a [u8]) -> IResult<&'a [u8], Option<O>>)
    ensures
        forall|i: &'a [u8]| p.requires((i,)) ==> #[trigger] f.requires((i,)),
        forall|i: &'a [u8], r: IResult<&'a [u8], Option<O>>| #[trigger] f.ensures((i,), r) ==>
            exists|pr: IResult<&'a [u8], O>| p.ensures((i,), pr) && (match pr {
                Ok(q) => r == Ok::<(&'a [u8], Option<O>), NomErr>((q.0, Some(q.1))),
                Err(_) => r == Ok::<(&'a [u8], Option<O>), NomErr>((i, None)) }),
{ move |i: &'a [u8]| Err(NomErr { k: 0 }) }

// sequence::preceded: first then second, the second's value
#[verifier::external_body]
pub fn preceded<'a, O1, O2, F: Fn(&'a [u8]) -> IResult<&'a [u8], O1>, G: Fn(&'a [u8]) -> IResult<&'a [u8], O2>>(a: F, b: G) -> (f: impl Fn(&'a [u8]) -> IResult<&'a [u8], O2>)
    ensures
        forall|i: &'a [u8]| (forall|j: &'a [u8]| a.requires((j,)) && b.requires((j,))) ==> #[trigger] f.requires((i,)),
        forall|i: &'a [u8], r: IResult<&'a [u8], O2>| #[trigger] f.ensures((i,), r) ==>
            exists|ra: IResult<&'a [u8], O1>| a.ensures((i,), ra) && (match ra { Ok(q) => b.ensures((q.0,), r), Err(_) => r is Err }),
{ move |i: &'a [u8]| Err(NomErr { k: 0 }) }

// sequence::delimited: three in a row, the middle one's value
#[verifier::external_body]
pub fn delimited<'a, O1, O2, O3, F: Fn(&'a [u8]) -> IResult<&'a [u8], O1>, G: Fn(&'a [u8]) -> IResult<&'a [u8], O2>, H: Fn(&'a [u8]) -> IResult<&'a [u8], O3>>(a: F, b: G, c: H) -> (f: impl Fn(&'a [u8]) -> IResult<&'a [u8], O2>)
    ensures
        forall|i: &'a [u8]| (forall|j: &'a [u8]| a.requires((j,)) && b.requires((j,)) && c.requires((j,))) ==> #[trigger] f.requires((i,)),
        forall|i: &'a [u8], r: IResult<&'a [u8], O2>| #[trigger] f.ensures((i,), r) ==>
            exists|ra: IResult<&'a [u8], O1>| a.ensures((i,), ra) && (match ra {
                Err(_) => r is Err,
                Ok(q) => exists|rb: IResult<&'a [u8], O2>| b.ensures((q.0,), rb) && (match rb {
                    Err(_) => r is Err,
                    Ok(q2) => exists|rc: IResult<&'a [u8], O3>| c.ensures((q2.0,), rc) && (match rc {
                        Err(_) => r is Err,
                        Ok(q3) => r == Ok::<(&'a [u8], O2), NomErr>((q3.0, q2.1)) }) }) }),
{ move |i: &'a [u8]| Err(NomErr { k: 0 }) }

// combinator::map / map_res: apply a function to the value (map_res: the function's Err is a parse error)
#[verifier::external_body]
pub fn map<'a, O1, O2, F: Fn(&'a [u8]) -> IResult<&'a [u8], O1>, G: Fn(O1) -> O2>(p: F, g: G) -> (f: impl Fn(&'a [u8]) -> IResult<&'a [u8], O2>)
    ensures
        forall|i: &'a [u8]| (forall|j: &'a [u8]| p.requires((j,))) && (forall|x: O1| g.requires((x,))) ==> #[trigger] f.requires((i,)),
        forall|i: &'a [u8], r: IResult<&'a [u8], O2>| #[trigger] f.ensures((i,), r) ==>
            exists|pr: IResult<&'a [u8], O1>| p.ensures((i,), pr) && (match pr {
                Err(_) => r is Err,
                Ok(q) => r matches Ok(u) && u.0 == q.0 && g.ensures((q.1,), u.1) }),
{ move |i: &'a [u8]| Err(NomErr { k: 0 }) }
#[verifier::external_body]
pub fn map_res<'a, O1, O2, E2, F: Fn(&'a [u8]) -> IResult<&'a [u8], O1>, G: Fn(O1) -> core::result::Result<O2, E2>>(p: F, g: G) -> (f: impl Fn(&'a [u8]) -> IResult<&'a [u8], O2>)
    ensures
        forall|i: &'a [u8]| (forall|j: &'a [u8]| p.requires((j,))) && (forall|x: O1| g.requires((x,))) ==> #[trigger] f.requires((i,)),
        forall|i: &'a [u8], r: IResult<&'a [u8], O2>| #[trigger] f.ensures((i,), r) ==>
            exists|pr: IResult<&'a [u8], O1>| p.ensures((i,), pr) && (match pr {
                Err(_) => r is Err,
                Ok(q) => exists|gr: core::result::Result<O2, E2>| g.ensures((q.1,), gr) && (match gr {
                    Ok(v) => r == Ok::<(&'a [u8], O2), NomErr>((q.0, v)),
                    Err(_) => r is Err }) }),
{ move |i: &'a [u8]| Err(NomErr { k: 0 }) }

// branch::alt over a tuple of parsers: the first that succeeds
pub trait AltList<'a, O>: Sized {
    spec fn alt_req(&self) -> bool;
    spec fn alt_ens(&self, i: &'a [u8], r: IResult<&'a [u8], O>) -> bool;
}
impl<'a, O, A: Fn(&'a [u8]) -> IResult<&'a [u8], O>, B: Fn(&'a [u8]) -> IResult<&'a [u8], O>> AltList<'a, O> for (A, B) {
    open spec fn alt_req(&self) -> bool { forall|j: &'a [u8]| self.0.requires((j,)) && self.1.requires((j,)) }
    open spec fn alt_ens(&self, i: &'a [u8], r: IResult<&'a [u8], O>) -> bool {
        exists|ra: IResult<&'a [u8], O>| self.0.ensures((i,), ra) && (if ra is Ok { r == ra } else { self.1.ensures((i,), r) })
    }
}
impl<'a, O, A: Fn(&'a [u8]) -> IResult<&'a [u8], O>, B: Fn(&'a [u8]) -> IResult<&'a [u8], O>, C: Fn(&'a [u8]) -> IResult<&'a [u8], O>> AltList<'a, O> for (A, B, C) {
    open spec fn alt_req(&self) -> bool { forall|j: &'a [u8]| self.0.requires((j,)) && self.1.requires((j,)) && self.2.requires((j,)) }
    open spec fn alt_ens(&self, i: &'a [u8], r: IResult<&'a [u8], O>) -> bool {
        exists|ra: IResult<&'a [u8], O>| self.0.ensures((i,), ra) && (if ra is Ok { r == ra } else {
            exists|rb: IResult<&'a [u8], O>| self.1.ensures((i,), rb) && (if rb is Ok { r == rb } else { self.2.ensures((i,), r) }) })
    }
}
impl<'a, O, A: Fn(&'a [u8]) -> IResult<&'a [u8], O>, B: Fn(&'a [u8]) -> IResult<&'a [u8], O>, C: Fn(&'a [u8]) -> IResult<&'a [u8], O>, D: Fn(&'a [u8]) -> IResult<&'a [u8], O>> AltList<'a, O> for (A, B, C, D) {
    open spec fn alt_req(&self) -> bool { forall|j: &'a [u8]| self.0.requires((j,)) && self.1.requires((j,)) && self.2.requires((j,)) && self.3.requires((j,)) }
    open spec fn alt_ens(&self, i: &'a [u8], r: IResult<&'a [u8], O>) -> bool {
        exists|ra: IResult<&'a [u8], O>| self.0.ensures((i,), ra) && (if ra is Ok { r == ra } else {
            exists|rb: IResult<&'a [u8], O>| self.1.ensures((i,), rb) && (if rb is Ok { r == rb } else {
                exists|rc: IResult<&'a [u8], O>| self.2.ensures((i,), rc) && (if rc is Ok { r == rc } else { self.3.ensures((i,), r) }) }) })
    }
}
#[verifier::external_body]
pub fn alt<'a, O, L: AltList<'a, O>>(l: L) -> (f: impl Fn(&'a [u8]) -> IResult<&'a [u8], O>)
    ensures
        forall|i: &'a [u8]| l.alt_req() ==> #[trigger] f.requires((i,)),
        forall|i: &'a [u8], r: IResult<&'a [u8], O>| #[trigger] f.ensures((i,), r) ==> l.alt_ens(i, r),
{ move |i: &'a [u8]| Err(NomErr { k: 0 }) }

// multi::many0 / many1: apply until the parser fails; a success that consumes nothing is an error (nom's infinite-loop
// guard); many1 needs at least one success.  The relation is stated over ANY relation `den` that the element parser's
// results satisfy, so that a caller can name the relation even when it cannot name the (anonymous) parser value.
pub open spec fn m0_res<'a, O>(den: spec_fn(&'a [u8], IResult<&'a [u8], O>) -> bool, i: &'a [u8], r: IResult<&'a [u8], Seq<O>>) -> bool
    decreases i@.len(), 2nat
{
    exists|pr: IResult<&'a [u8], O>| #[trigger] wit(pr) && m0_step(den, i, r, pr)
}
pub open spec fn m0_step<'a, O>(den: spec_fn(&'a [u8], IResult<&'a [u8], O>) -> bool, i: &'a [u8], r: IResult<&'a [u8], Seq<O>>, pr: IResult<&'a [u8], O>) -> bool
    decreases i@.len(), 1nat
{
    den(i, pr) && (match pr {
        Err(_) => r == Ok::<(&'a [u8], Seq<O>), NomErr>((i, Seq::<O>::empty())),
        Ok(q) => if q.0@.len() >= i@.len() { r is Err } else { exists|rr: IResult<&'a [u8], Seq<O>>| #[trigger] wit(rr) && m0_tail(den, i, r, q, rr) } })
}
pub open spec fn m0_tail<'a, O>(den: spec_fn(&'a [u8], IResult<&'a [u8], O>) -> bool, i: &'a [u8], r: IResult<&'a [u8], Seq<O>>, q: (&'a [u8], O), rr: IResult<&'a [u8], Seq<O>>) -> bool
    decreases i@.len(), 0nat
{
    q.0@.len() < i@.len() && m0_res(den, q.0, rr) && (match rr {
        Err(_) => r is Err,
        Ok(t) => r == Ok::<(&'a [u8], Seq<O>), NomErr>((t.0, seq![q.1] + t.1)) })
}
pub open spec fn m1_res<'a, O>(den: spec_fn(&'a [u8], IResult<&'a [u8], O>) -> bool, i: &'a [u8], r: IResult<&'a [u8], Seq<O>>) -> bool {
    exists|pr: IResult<&'a [u8], O>| #[trigger] wit(pr) && den(i, pr) && (match pr {
        Err(_) => r is Err,
        Ok(q) => if q.0@.len() >= i@.len() { r is Err } else { exists|rr: IResult<&'a [u8], Seq<O>>| #[trigger] wit(rr) && m0_tail(den, i, r, q, rr) } })
}
pub open spec fn viewed<'a, O>(r: IResult<&'a [u8], Vec<O>>) -> IResult<&'a [u8], Seq<O>> {
    match r { Ok(u) => Ok::<(&'a [u8], Seq<O>), NomErr>((u.0, u.1@)), Err(e) => Err::<(&'a [u8], Seq<O>), NomErr>(e) }
}
pub open spec fn satisfies<'a, O, F: Fn(&'a [u8]) -> IResult<&'a [u8], O>>(p: F, den: spec_fn(&'a [u8], IResult<&'a [u8], O>) -> bool) -> bool {
    forall|j: &'a [u8], x: IResult<&'a [u8], O>| #[trigger] p.ensures((j,), x) ==> den(j, x)
}
#[verifier::external_body]
pub fn many0<'a, O, F: Fn(&'a [u8]) -> IResult<&'a [u8], O>>(p: F) -> (f: impl Fn(&'a [u8]) -> IResult<&'a [u8], Vec<O>>)
    ensures
        forall|i: &'a [u8]| (forall|j: &'a [u8]| p.requires((j,))) ==> #[trigger] f.requires((i,)),
        forall|i: &'a [u8], r: IResult<&'a [u8], Vec<O>>, den: spec_fn(&'a [u8], IResult<&'a [u8], O>) -> bool| #![trigger f.ensures((i,), r), wit(den)]
            f.ensures((i,), r) && satisfies(p, den) ==> m0_res(den, i, viewed(r)),
{ move |i: &'a [u8]| Err(NomErr { k: 0 }) }
#[verifier::external_body]
pub fn many1<'a, O, F: Fn(&'a [u8]) -> IResult<&'a [u8], O>>(p: F) -> (f: impl Fn(&'a [u8]) -> IResult<&'a [u8], Vec<O>>)
    ensures
        forall|i: &'a [u8]| (forall|j: &'a [u8]| p.requires((j,))) ==> #[trigger] f.requires((i,)),
        forall|i: &'a [u8], r: IResult<&'a [u8], Vec<O>>, den: spec_fn(&'a [u8], IResult<&'a [u8], O>) -> bool| #![trigger f.ensures((i,), r), wit(den)]
            f.ensures((i,), r) && satisfies(p, den) ==> m1_res(den, i, viewed(r)),
{ move |i: &'a [u8]| Err(NomErr { k: 0 }) }

// ------------------------------------------------------------------ more of nom, for the lexers
// nom::character::{is_alphabetic, is_alphanumeric}: ASCII classes
pub open spec fn is_digit(c: u8) -> bool { 0x30 <= c <= 0x39 }
pub open spec fn is_alpha(c: u8) -> bool { (0x41 <= c <= 0x5a) || (0x61 <= c <= 0x7a) }
pub open spec fn is_anh(c: u8) -> bool { is_alpha(c) || is_digit(c) || c == 0x2d }
pub open spec fn p_digit() -> spec_fn(u8) -> bool { |c: u8| is_digit(c) }
pub open spec fn p_anh() -> spec_fn(u8) -> bool { |c: u8| is_anh(c) }
#[verifier::external_body]
pub fn is_alphabetic(c: u8) -> (b: bool) ensures b == is_alpha(c) { unimplemented!() }
#[verifier::external_body]
pub fn is_alphanumeric(c: u8) -> (b: bool) ensures b == (is_alpha(c) || is_digit(c)) { unimplemented!() }
// the longest prefix on which a predicate holds
pub open spec fn run(i: Seq<u8>, p: spec_fn(u8) -> bool) -> int decreases i.len() {
    if i.len() > 0 && p(i[0]) { 1 + run(i.skip(1), p) } else { 0 }
}
pub open spec fn run_rel(s: Seq<u8>, p: spec_fn(u8) -> bool, k: int) -> bool {
    0 <= k <= s.len() && (forall|j: int| 0 <= j < k ==> p(#[trigger] s[j])) && (k < s.len() ==> !p(s[k]))
}
pub proof fn lemma_run_bounds(i: Seq<u8>, p: spec_fn(u8) -> bool)
    ensures run_rel(i, p, run(i, p)),
    decreases i.len(),
{
    if i.len() > 0 && p(i[0]) {
        lemma_run_bounds(i.skip(1), p);
        assert forall|j: int| 0 <= j < run(i, p) implies p(#[trigger] i[j]) by { if j > 0 { assert(i[j] == i.skip(1)[j - 1]); } }
        if run(i, p) < i.len() { assert(i[run(i, p)] == i.skip(1)[run(i, p) - 1]); }
    }
}
pub proof fn lemma_run_unique(i: Seq<u8>, p: spec_fn(u8) -> bool, k: int)
    requires run_rel(i, p, k),
    ensures run(i, p) == k,
    decreases i.len(),
{
    if k == 0 { } else {
        assert(p(i[0]));
        assert forall|j: int| 0 <= j < k - 1 implies p(#[trigger] i.skip(1)[j]) by { assert(i.skip(1)[j] == i[j + 1]); }
        if k - 1 < i.skip(1).len() { assert(i.skip(1)[k - 1] == i[k]); }
        lemma_run_unique(i.skip(1), p, k - 1);
    }
}
// number::complete::be_u8: one byte
#[verifier::external_body]
pub fn be_u8<'a>(i: &'a [u8]) -> (r: IResult<&'a [u8], u8>)
    ensures if i@.len() >= 1 { r matches Ok(p) && p.0@ == i@.skip(1) && p.1 == i@[0] } else { r is Err }
{ unimplemented!() }
// character::complete::digit1: one or more ASCII digits
#[verifier::external_body]
pub fn digit1<'a>(i: &'a [u8]) -> (r: IResult<&'a [u8], &'a [u8]>)
    ensures ({ let k = run(i@, p_digit()); if k >= 1 { r matches Ok(p) && p.0@ == i@.skip(k) && p.1@ == i@.take(k) } else { r is Err } })
{ unimplemented!() }
// bytes::complete::take_while / take_while1: the longest prefix on which the predicate holds (take_while1: at least one byte)
pub open spec fn tw_rel<'a, F: Fn(u8) -> bool>(cond: F, i: &'a [u8], r: IResult<&'a [u8], &'a [u8]>, min: int) -> bool {
    exists|k: int| #[trigger] wit(k) && 0 <= k <= i@.len()
        && (forall|j: int| 0 <= j < k ==> cond.ensures((#[trigger] i@[j],), true))
        && (k < i@.len() ==> cond.ensures((i@[k],), false))
        && (if k >= min { r matches Ok(p) && p.0@ == i@.skip(k) && p.1@ == i@.take(k) } else { r is Err })
}
#[verifier::external_body]
pub fn take_while<'a, F: Fn(u8) -> bool>(cond: F) -> (f: impl Fn(&'a [u8]) -> IResult<&'a [u8], &'a [u8]>)
    ensures
        forall|i: &'a [u8]| (forall|c: u8| cond.requires((c,))) ==> #[trigger] f.requires((i,)),
        forall|i: &'a [u8], r: IResult<&'a [u8], &'a [u8]>| #[trigger] f.ensures((i,), r) ==> tw_rel(cond, i, r, 0),
{ move |i: &'a [u8]| Err(NomErr { k: 0 }) }
#[verifier::external_body]
pub fn take_while1<'a, F: Fn(u8) -> bool>(cond: F) -> (f: impl Fn(&'a [u8]) -> IResult<&'a [u8], &'a [u8]>)
    ensures
        forall|i: &'a [u8]| (forall|c: u8| cond.requires((c,))) ==> #[trigger] f.requires((i,)),
        forall|i: &'a [u8], r: IResult<&'a [u8], &'a [u8]>| #[trigger] f.ensures((i,), r) ==> tw_rel(cond, i, r, 1),
{ move |i: &'a [u8]| Err(NomErr { k: 0 }) }
// combinator::verify: keep the value only if the predicate holds.  nom's generic `verify` goes through
// core::borrow::Borrow; the two instances used in src/filter.rs are given as monomorphic functions (recorded substitution
// of the name): verify_slice for O1 = &[u8] (predicate on &[u8]), verify_val for O1 = u8 (predicate on &u8)
#[verifier::external_body]
pub fn verify_slice<'a, F: Fn(&'a [u8]) -> IResult<&'a [u8], &'a [u8]>, G: Fn(&'a [u8]) -> bool>(p: F, g: G) -> (f: impl Fn(&'a [u8]) -> IResult<&'a [u8], &'a [u8]>)
    ensures
        forall|i: &'a [u8]| (forall|j: &'a [u8]| p.requires((j,))) && (forall|j: &'a [u8], pr: IResult<&'a [u8], &'a [u8]>| p.ensures((j,), pr) && pr is Ok ==> g.requires((pr->Ok_0.1,))) ==> #[trigger] f.requires((i,)),
        forall|i: &'a [u8], r: IResult<&'a [u8], &'a [u8]>| #[trigger] f.ensures((i,), r) ==>
            exists|pr: IResult<&'a [u8], &'a [u8]>| p.ensures((i,), pr) && (match pr {
                Err(_) => r is Err,
                Ok(q) => exists|b: bool| g.ensures((q.1,), b) && (if b { r == pr } else { r is Err }) }),
{ move |i: &'a [u8]| Err(NomErr { k: 0 }) }
#[verifier::external_body]
pub fn verify_val<'a, F: Fn(&'a [u8]) -> IResult<&'a [u8], u8>, G: Fn(&u8) -> bool>(p: F, g: G) -> (f: impl Fn(&'a [u8]) -> IResult<&'a [u8], u8>)
    ensures
        forall|i: &'a [u8]| (forall|j: &'a [u8]| p.requires((j,))) && (forall|c: &u8| g.requires((c,))) ==> #[trigger] f.requires((i,)),
        forall|i: &'a [u8], r: IResult<&'a [u8], u8>| #[trigger] f.ensures((i,), r) ==>
            exists|pr: IResult<&'a [u8], u8>| p.ensures((i,), pr) && (match pr {
                Err(_) => r is Err,
                Ok(q) => exists|b: bool| g.ensures((&q.1,), b) && (if b { r == pr } else { r is Err }) }),
{ move |i: &'a [u8]| Err(NomErr { k: 0 }) }
// combinator::recognize: the consumed prefix as the value
#[verifier::external_body]
pub fn recognize<'a, O, F: Fn(&'a [u8]) -> IResult<&'a [u8], O>>(p: F) -> (f: impl Fn(&'a [u8]) -> IResult<&'a [u8], &'a [u8]>)
    ensures
        forall|i: &'a [u8]| (forall|j: &'a [u8]| p.requires((j,))) ==> #[trigger] f.requires((i,)),
        forall|i: &'a [u8], r: IResult<&'a [u8], &'a [u8]>| #[trigger] f.ensures((i,), r) ==>
            exists|pr: IResult<&'a [u8], O>| p.ensures((i,), pr) && (match pr {
                Err(_) => r is Err,
                Ok(q) => r matches Ok(u) && u.0 == q.0 && u.1@ == i@.take(i@.len() - q.0@.len()) }),
{ move |i: &'a [u8]| Err(NomErr { k: 0 }) }
// multi::fold_many0: apply the parser until it fails, folding the values; stated over relations that the parser, the
// initial-value closure and the folding closure satisfy (all three are anonymous values at the call site)
pub open spec fn fm_loop<'a, O, R>(den: spec_fn(&'a [u8], IResult<&'a [u8], O>) -> bool, gden: spec_fn(R, O, R) -> bool, i: &'a [u8], acc: R, r: IResult<&'a [u8], R>) -> bool
    decreases i@.len(), 1nat
{
    exists|pr: IResult<&'a [u8], O>| #[trigger] wit(pr) && den(i, pr) && (match pr {
        Err(_) => r == Ok::<(&'a [u8], R), NomErr>((i, acc)),
        Ok(q) => if q.0@.len() >= i@.len() { r is Err } else { exists|acc2: R| #[trigger] wit(acc2) && fm_next(den, gden, i, acc, r, q, acc2) } })
}
pub open spec fn fm_next<'a, O, R>(den: spec_fn(&'a [u8], IResult<&'a [u8], O>) -> bool, gden: spec_fn(R, O, R) -> bool, i: &'a [u8], acc: R, r: IResult<&'a [u8], R>, q: (&'a [u8], O), acc2: R) -> bool
    decreases i@.len(), 0nat
{
    q.0@.len() < i@.len() && gden(acc, q.1, acc2) && fm_loop(den, gden, q.0, acc2, r)
}
pub open spec fn fm_res<'a, O, R>(den: spec_fn(&'a [u8], IResult<&'a [u8], O>) -> bool, iden: spec_fn(R) -> bool, gden: spec_fn(R, O, R) -> bool, i: &'a [u8], r: IResult<&'a [u8], R>) -> bool {
    exists|a0: R| #[trigger] wit(a0) && iden(a0) && fm_loop(den, gden, i, a0, r)
}
#[verifier::external_body]
pub fn fold_many0<'a, O, R, F: Fn(&'a [u8]) -> IResult<&'a [u8], O>, H: Fn() -> R, G: Fn(R, O) -> R>(p: F, init: H, g: G) -> (f: impl Fn(&'a [u8]) -> IResult<&'a [u8], R>)
    ensures
        forall|i: &'a [u8]| (forall|j: &'a [u8]| p.requires((j,))) && init.requires(()) && (forall|a: R, o: O| g.requires((a, o))) ==> #[trigger] f.requires((i,)),
        forall|i: &'a [u8], r: IResult<&'a [u8], R>, den: spec_fn(&'a [u8], IResult<&'a [u8], O>) -> bool, iden: spec_fn(R) -> bool, gden: spec_fn(R, O, R) -> bool|
            #![trigger f.ensures((i,), r), wit(den), wit(iden), wit(gden)]
            f.ensures((i,), r) && satisfies(p, den) && (forall|a: R| #[trigger] init.ensures((), a) ==> iden(a))
                && (forall|a: R, o: O, a2: R| #[trigger] g.ensures((a, o), a2) ==> gden(a, o, a2)) ==> fm_res(den, iden, gden, i, r),
{ move |i: &'a [u8]| Err(NomErr { k: 0 }) }

// ------------------------------------------------------------------ the lexers: RFC 4512 1.4 / RFC 4515 3 as functions of the input
pub open spec fn s_dot() -> Seq<u8> { seq![0x2eu8] }   // "."
pub open spec fn s_semi() -> Seq<u8> { seq![0x3bu8] }   // ";"
pub proof fn lemma_lits_lex() ensures [46u8]@ == s_dot(), [59u8]@ == s_semi() { assert([46u8]@ =~= s_dot()); assert([59u8]@ =~= s_semi()); }
// number = DIGIT / ( LDIGIT 1*DIGIT ): no superfluous leading zero
pub open spec fn lxd_number(i: Seq<u8>) -> Option<int> {
    let k = run(i, p_digit());
    if k >= 1 && (k == 1 || i[0] != 0x30) { Some(k) } else { None }
}
// descr = keystring = leadkeychar *keychar
pub open spec fn lxd_descr(i: Seq<u8>) -> Option<int> {
    if i.len() > 0 && is_alpha(i[0]) { Some(1 + run(i.skip(1), p_anh())) } else { None }
}
// numericoid = number *( DOT number )   (RFC 4512 has 1*( DOT number ); a lone number is accepted by the library)
pub open spec fn lxd_dotnums(i: Seq<u8>) -> int decreases i.len() {
    if !starts_with(i, s_dot()) { 0 } else {
        match lxd_number(i.skip(1)) {
            None => 0,
            Some(m) => if m < 0 || 1 + m > i.len() { 0 } else { 1 + m + lxd_dotnums(i.skip(1 + m)) },
        }
    }
}
pub open spec fn lxd_numericoid(i: Seq<u8>) -> Option<int> {
    match lxd_number(i) { Some(k) => if 0 <= k <= i.len() { Some(k + lxd_dotnums(i.skip(k))) } else { None }, None => None }
}
// attributetype = oid = numericoid / descr
pub open spec fn lxd_attrtype(i: Seq<u8>) -> Option<int> {
    match lxd_numericoid(i) { Some(n) => Some(n), None => lxd_descr(i) }
}
// attributedescription = attributetype options ; options = *( SEMI option ) ; option = 1*keychar
pub open spec fn lxd_options(i: Seq<u8>) -> int decreases i.len() {
    if !starts_with(i, s_semi()) { 0 } else {
        let k = run(i.skip(1), p_anh());
        if k < 1 || 1 + k > i.len() { 0 } else { 1 + k + lxd_options(i.skip(1 + k)) }
    }
}
pub open spec fn lxd_attrdesc(i: Seq<u8>) -> Option<int> {
    match lxd_attrtype(i) { Some(n) => if 0 <= n <= i.len() { Some(n + lxd_options(i.skip(n))) } else { None }, None => None }
}
// assertion value: every byte other than NUL ( ) * up to the first of those; `\` + two hex digits stands for that byte;
// an incomplete or non-hex escape is an error
//@include contracts/shared/unescaper_spec.rs
pub open spec fn value_char(c: u8) -> bool { !(c == 0 || c == 0x28 || c == 0x29 || c == 0x2a) }
pub open spec fn scan(i: Seq<u8>, st: Unescaper, acc: Seq<u8>) -> (int, Unescaper, Seq<u8>) decreases i.len() {
    if i.len() > 0 && value_char(i[0]) {
        let st2 = feed_spec(st, i[0]);
        let acc2 = if st2 is Value { acc.push(st2->Value_0) } else { acc };
        let r = scan(i.skip(1), st2, acc2);
        (1 + r.0, r.1, r.2)
    } else { (0int, st, acc) }
}
pub open spec fn lxd_unescaped(i: Seq<u8>) -> Option<(int, Seq<u8>)> {
    let r = scan(i, Unescaper::Value(0), Seq::<u8>::empty());
    if r.1 is Value { Some((r.0, r.2)) } else { None }
}
// the names the grammar denotations use (opaque there: the productions only need "a function of the input")
#[verifier::opaque]
pub open spec fn lx_attrdesc(i: Seq<u8>) -> Option<int> { lxd_attrdesc(i) }
#[verifier::opaque]
pub open spec fn lx_attrtype(i: Seq<u8>) -> Option<int> { lxd_attrtype(i) }
#[verifier::opaque]
pub open spec fn lx_unescaped(i: Seq<u8>) -> Option<(int, Seq<u8>)> { lxd_unescaped(i) }
pub open spec fn recognised<'a>(r: IResult<&'a [u8], &'a [u8]>, i: &'a [u8], d: Option<int>) -> bool {
    match d { Some(n) => 0 <= n <= i@.len() && (r matches Ok(p) && p.0@ == i@.skip(n) && p.1@ == i@.take(n)), None => r is Err }
}
pub open spec fn valued<'a>(r: IResult<&'a [u8], Vec<u8>>, i: &'a [u8], d: Option<(int, Seq<u8>)>) -> bool {
    match d { Some(d) => 0 <= d.0 <= i@.len() && (r matches Ok(p) && p.0@ == i@.skip(d.0) && p.1@ == d.1), None => r is Err }
}
// relations satisfied by the anonymous element parsers / closures of the lexers, and the induction lemmas over many0 / fold_many0
pub open spec fn skipped<'a, O>(r: IResult<&'a [u8], Seq<O>>, i: &'a [u8], n: int) -> bool {
    0 <= n <= i@.len() && (r matches Ok(p) && p.0@ == i@.skip(n))
}
pub open spec fn den_dotnum<'a>() -> spec_fn(&'a [u8], IResult<&'a [u8], &'a [u8]>) -> bool {
    |j: &'a [u8], x: IResult<&'a [u8], &'a [u8]>|
        if starts_with(j@, s_dot()) {
            match lxd_number(j@.skip(1)) {
                Some(m) => 0 <= m <= j@.len() - 1 && (x matches Ok(p) && p.0@ == j@.skip(1).skip(m)),
                None => x is Err,
            }
        } else { x is Err }
}
pub proof fn lemma_dotnums<'a>(i: &'a [u8], r: IResult<&'a [u8], Seq<&'a [u8]>>)
    requires m0_res(den_dotnum(), i, r),
    ensures skipped(r, i, lxd_dotnums(i@)),
    decreases i@.len(),
{
    let den = den_dotnum();
    let pr = choose|pr: IResult<&'a [u8], &'a [u8]>| #[trigger] wit(pr) && m0_step(den, i, r, pr);
    match pr {
        Err(_) => { assert(i@.skip(0) =~= i@); }
        Ok(q) => {
            let m = lxd_number(i@.skip(1))->0;
            assert(q.0@ =~= i@.skip(1 + m));
            if q.0@.len() >= i@.len() { } else {
                let rr = choose|rr: IResult<&'a [u8], Seq<&'a [u8]>>| #[trigger] wit(rr) && m0_tail(den, i, r, q, rr);
                lemma_dotnums(q.0, rr);
                match rr {
                    Err(_) => {}
                    Ok(t) => { assert(t.0@ =~= i@.skip(1 + m + lxd_dotnums(i@.skip(1 + m)))); }
                }
            }
        }
    }
}
pub open spec fn den_option<'a>() -> spec_fn(&'a [u8], IResult<&'a [u8], &'a [u8]>) -> bool {
    |j: &'a [u8], x: IResult<&'a [u8], &'a [u8]>|
        if starts_with(j@, s_semi()) {
            exists|k: int| #[trigger] wit(k) && run_rel(j@.skip(1), p_anh(), k) && (if k >= 1 { x matches Ok(p) && p.0@ == j@.skip(1).skip(k) } else { x is Err })
        } else { x is Err }
}
pub proof fn lemma_options<'a>(i: &'a [u8], r: IResult<&'a [u8], Seq<&'a [u8]>>)
    requires m0_res(den_option(), i, r),
    ensures skipped(r, i, lxd_options(i@)),
    decreases i@.len(),
{
    let den = den_option();
    let pr = choose|pr: IResult<&'a [u8], &'a [u8]>| #[trigger] wit(pr) && m0_step(den, i, r, pr);
    if starts_with(i@, s_semi()) {
        let k = choose|k: int| #[trigger] wit(k) && run_rel(i@.skip(1), p_anh(), k) && (if k >= 1 { pr matches Ok(p) && p.0@ == i@.skip(1).skip(k) } else { pr is Err });
        lemma_run_unique(i@.skip(1), p_anh(), k);
        match pr {
            Err(_) => { assert(i@.skip(0) =~= i@); }
            Ok(q) => {
                assert(q.0@ =~= i@.skip(1 + k));
                if q.0@.len() >= i@.len() { } else {
                    let rr = choose|rr: IResult<&'a [u8], Seq<&'a [u8]>>| #[trigger] wit(rr) && m0_tail(den, i, r, q, rr);
                    lemma_options(q.0, rr);
                    match rr {
                        Err(_) => {}
                        Ok(t) => { assert(t.0@ =~= i@.skip(1 + k + lxd_options(i@.skip(1 + k)))); }
                    }
                }
            }
        }
    } else {
        assert(i@.skip(0) =~= i@);
    }
}
pub open spec fn den_vchar<'a>() -> spec_fn(&'a [u8], IResult<&'a [u8], u8>) -> bool {
    |j: &'a [u8], x: IResult<&'a [u8], u8>| if j@.len() > 0 && value_char(j@[0]) { x matches Ok(p) && p.0@ == j@.skip(1) && p.1 == j@[0] } else { x is Err }
}
pub open spec fn iden_un() -> spec_fn((Unescaper, Vec<u8>)) -> bool { |a: (Unescaper, Vec<u8>)| a.0 == Unescaper::Value(0) && a.1@ == Seq::<u8>::empty() }
pub open spec fn gden_un() -> spec_fn((Unescaper, Vec<u8>), u8, (Unescaper, Vec<u8>)) -> bool {
    |a: (Unescaper, Vec<u8>), c: u8, a2: (Unescaper, Vec<u8>)| wf_un(a.0) ==> (a2.0 == feed_spec(a.0, c) && wf_un(a2.0) && a2.1@ == (if a2.0 is Value { a.1@.push(a2.0->Value_0) } else { a.1@ }))
}
pub open spec fn scanned<'a>(r: IResult<&'a [u8], (Unescaper, Vec<u8>)>, i: &'a [u8], st: Unescaper, acc: Seq<u8>) -> bool {
    let s = scan(i@, st, acc);
    0 <= s.0 <= i@.len() && (r matches Ok(p) && p.0@ == i@.skip(s.0) && p.1.0 == s.1 && p.1.1@ == s.2)
}
pub proof fn lemma_scan<'a>(i: &'a [u8], acc: (Unescaper, Vec<u8>), r: IResult<&'a [u8], (Unescaper, Vec<u8>)>)
    requires fm_loop(den_vchar(), gden_un(), i, acc, r), wf_un(acc.0),
    ensures scanned(r, i, acc.0, acc.1@),
    decreases i@.len(),
{
    let den = den_vchar();
    let gden = gden_un();
    let pr = choose|pr: IResult<&'a [u8], u8>| #[trigger] wit(pr) && den(i, pr) && (match pr {
        Err(_) => r == Ok::<(&'a [u8], (Unescaper, Vec<u8>)), NomErr>((i, acc)),
        Ok(q) => if q.0@.len() >= i@.len() { r is Err } else { exists|acc2: (Unescaper, Vec<u8>)| #[trigger] wit(acc2) && fm_next(den, gden, i, acc, r, q, acc2) } });
    match pr {
        Err(_) => { assert(i@.skip(0) =~= i@); }
        Ok(q) => {
            let acc2 = choose|acc2: (Unescaper, Vec<u8>)| #[trigger] wit(acc2) && fm_next(den, gden, i, acc, r, q, acc2);
            lemma_scan(q.0, acc2, r);
            let s2 = scan(i@.skip(1), acc2.0, acc2.1@);
            assert(r->Ok_0.0@ =~= i@.skip(1 + s2.0));
        }
    }
}
// filtertag on the three operators: KX-escape::filtertag_numbers (Kani, real code, complete)
#[verifier::external_body]
pub fn filtertag(filterop: &[u8]) -> (r: u64)
    requires filterop@ == s_gte() || filterop@ == s_lte() || filterop@ == s_apx(),
    ensures r == (if filterop@ == s_gte() { 5u64 } else if filterop@ == s_lte() { 6u64 } else { 8u64 }),
{ unimplemented!() }
// ------------------------------------------------------------------ RFC 4515 section 3 as functions of the input
// A production's denotation: None = no match; Some((n, t)) = consumes n bytes and yields the RFC 4511 Filter tree t.
// Alternatives are ordered (first match wins), as in a PEG; that this reading accepts exactly the ABNF's language is
// NOT claimed here.
pub open spec fn denotes<'a>(r: IResult<&'a [u8], Tag>, i: &'a [u8], d: Option<(int, T)>) -> bool {
    match d { Some(x) => 0 <= x.0 <= i@.len() && (r matches Ok(p) && p.0@ == i@.skip(x.0) && tree(p.1) == x.1), None => r is Err }
}
pub open spec fn denotes_list<'a>(r: IResult<&'a [u8], Vec<Tag>>, i: &'a [u8], d: Option<(int, Seq<T>)>) -> bool {
    match d { Some(x) => 0 <= x.0 <= i@.len() && (r matches Ok(p) && p.0@ == i@.skip(x.0) && trees(p.1@, p.1@.len()) == x.1), None => r is Err }
}
pub open spec fn s_gte() -> Seq<u8> { seq![0x3eu8, 0x3d] }   // ">="
pub open spec fn s_lte() -> Seq<u8> { seq![0x3cu8, 0x3d] }   // "<="
pub open spec fn s_apx() -> Seq<u8> { seq![0x7eu8, 0x3d] }   // "~="
pub open spec fn s_dn() -> Seq<u8> { seq![0x3au8, 0x64, 0x6e] }   // ":dn"
pub open spec fn s_colon() -> Seq<u8> { seq![0x3au8] }   // ":"
pub open spec fn s_coleq() -> Seq<u8> { seq![0x3au8, 0x3d] }   // ":="
pub open spec fn s_eq() -> Seq<u8> { seq![0x3du8] }   // "="
pub open spec fn s_star() -> Seq<u8> { seq![0x2au8] }   // "*"
pub open spec fn s_lp() -> Seq<u8> { seq![0x28u8] }   // "("
pub open spec fn s_rp() -> Seq<u8> { seq![0x29u8] }   // ")"
pub open spec fn s_amp() -> Seq<u8> { seq![0x26u8] }   // "&"
pub open spec fn s_bar() -> Seq<u8> { seq![0x7cu8] }   // "|"
pub open spec fn s_bang() -> Seq<u8> { seq![0x21u8] }   // "!"
// the array literals that lifter rule R11 produces from the source's byte-string literals are these strings
pub proof fn lemma_lits()
    ensures [58u8, 100u8, 110u8]@ == s_dn(), [58u8]@ == s_colon(), [58u8, 61u8]@ == s_coleq(),
        [62u8, 61u8]@ == s_gte(), [60u8, 61u8]@ == s_lte(), [126u8, 61u8]@ == s_apx(),
        [61u8]@ == s_eq(), [42u8]@ == s_star(),
        [40u8]@ == s_lp(), [41u8]@ == s_rp(), [38u8]@ == s_amp(), [124u8]@ == s_bar(), [33u8]@ == s_bang(),
{
    assert([58u8, 100u8, 110u8]@ =~= s_dn()); assert([58u8]@ =~= s_colon()); assert([58u8, 61u8]@ =~= s_coleq());
    assert([62u8, 61u8]@ =~= s_gte()); assert([60u8, 61u8]@ =~= s_lte()); assert([126u8, 61u8]@ =~= s_apx());
    assert([61u8]@ =~= s_eq()); assert([42u8]@ =~= s_star());
    assert([40u8]@ =~= s_lp()); assert([41u8]@ =~= s_rp()); assert([38u8]@ =~= s_amp()); assert([124u8]@ =~= s_bar()); assert([33u8]@ =~= s_bang());
}

// simple = attr filtertype assertionvalue, filtertype in { ">=", "<=", "~=" }  (equality is with substring/present below)
//   -> greaterOrEqual [5] / lessOrEqual [6] / approxMatch [8] AttributeValueAssertion { attributeDesc, assertionValue }
pub open spec fn d_non_eq(i: Seq<u8>) -> Option<(int, T)> {
    match lx_attrdesc(i) {
        None => None,
        Some(n) => {
            let j = i.skip(n);
            let op: Option<u64> = if starts_with(j, s_gte()) { Some(5u64) } else if starts_with(j, s_lte()) { Some(6u64) } else if starts_with(j, s_apx()) { Some(8u64) } else { None };
            match op {
                None => None,
                Some(id) => match lx_unescaped(j.skip(2)) {
                    None => None,
                    Some(d) => Some((n + 2 + d.0, t_ctx_c(id, seq![t_os(i.take(n)), t_os(d.1)]))),
                },
            }
        }
    }
}
// extensible = ( attr [dnattrs] [matchingrule] COLON EQUALS assertionvalue ) / ( [dnattrs] matchingrule COLON EQUALS assertionvalue )
//   -> extensibleMatch [9] MatchingRuleAssertion { matchingRule [1] OPTIONAL, type [2] OPTIONAL, matchValue [3], dnAttributes [4] DEFAULT FALSE }
pub open spec fn mra_kids(rule: Option<Seq<u8>>, attr: Option<Seq<u8>>, value: Seq<u8>, dn: bool) -> Seq<T> {
    (match rule { Some(s) => seq![t_ctx_p(1, s)], None => Seq::<T>::empty() }) + (match attr { Some(s) => seq![t_ctx_p(2, s)], None => Seq::<T>::empty() })
        + seq![t_ctx_p(3, value)] + (if dn { seq![T::P(TagClass::Context, 4, seq![0xffu8])] } else { Seq::<T>::empty() })
}
pub open spec fn mra(rule: Option<Seq<u8>>, attr: Option<Seq<u8>>, value: Seq<u8>, dn: bool) -> T { t_ctx_c(9, mra_kids(rule, attr, value, dn)) }
pub open spec fn d_attr_dn_mrule(i: Seq<u8>) -> Option<(int, T)> {
    match lx_attrdesc(i) {
        None => None,
        Some(n) => {
            let j = i.skip(n);
            let dn = starts_with(j, s_dn());
            let n1 = if dn { 3int } else { 0int };
            let k = j.skip(n1);
            // [matchingrule] = COLON oid, optional: taken only if both the colon and the rule id are there
            let rule: Option<int> = if starts_with(k, s_colon()) { lx_attrtype(k.skip(1)) } else { None };
            let n2 = match rule { Some(m) => 1 + m, None => 0int };
            let l = k.skip(n2);
            if !starts_with(l, s_coleq()) { None } else {
                match lx_unescaped(l.skip(2)) {
                    None => None,
                    Some(d) => Some((n + n1 + n2 + 2 + d.0,
                        mra(match rule { Some(m) => Some(k.subrange(1, 1 + m)), None => None }, Some(i.take(n)), d.1, dn))),
                }
            }
        }
    }
}
pub open spec fn d_dn_mrule(i: Seq<u8>) -> Option<(int, T)> {
    let dn = starts_with(i, s_dn());
    let n1 = if dn { 3int } else { 0int };
    let k = i.skip(n1);
    if !starts_with(k, s_colon()) { None } else {
        match lx_attrtype(k.skip(1)) {
            None => None,
            Some(m) => {
                let l = k.skip(1 + m);
                if !starts_with(l, s_coleq()) { None } else {
                    match lx_unescaped(l.skip(2)) {
                        None => None,
                        Some(d) => Some((n1 + 1 + m + 2 + d.0, mra(Some(k.subrange(1, 1 + m)), None, d.1, dn))),
                    }
                }
            }
        }
    }
}
pub open spec fn d_extensible(i: Seq<u8>) -> Option<(int, T)> {
    match d_attr_dn_mrule(i) { Some(x) => Some(x), None => d_dn_mrule(i) }
}

// equality / presence / substring:  attr EQUALS assertionvalue *( ASTERISK assertionvalue )
//   no asterisk                  -> equalityMatch [3] { attr, value }
//   "attr=*"                     -> present [7] attr
//   otherwise                    -> substrings [4] { attr, SEQUENCE OF { initial [0] / any [1] / final [2] } }:
//                                   the text before the first asterisk is `initial` (omitted when empty), the text after
//                                   the last asterisk is `final` (omitted when empty), every piece between two
//                                   asterisks is an `any` and must not be empty (adjacent asterisks are an error)
pub open spec fn d_stars(i: Seq<u8>) -> Option<(int, Seq<Seq<u8>>)> decreases i.len() {
    if !starts_with(i, s_star()) { Some((0int, Seq::<Seq<u8>>::empty())) } else {
        match lx_unescaped(i.skip(1)) {
            None => Some((0int, Seq::<Seq<u8>>::empty())),
            Some(d) => if d.0 < 0 || 1 + d.0 > i.len() { None } else {
                match d_stars(i.skip(1 + d.0)) { None => None, Some(y) => Some((1 + d.0 + y.0, seq![d.1] + y.1)) } },
        }
    }
}
pub open spec fn empty_before_last(parts: Seq<Seq<u8>>) -> bool { exists|j: int| 0 <= j < parts.len() - 1 && #[trigger] parts[j].len() == 0 }
pub open spec fn sub_pieces(parts: Seq<Seq<u8>>, n: nat) -> Seq<T> decreases n {
    // the first n pieces after asterisks: any [1] for all but the last of `parts`, final [2] for the last; an empty last piece is omitted
    if n == 0 || n > parts.len() { Seq::<T>::empty() } else {
        sub_pieces(parts, (n - 1) as nat) + (if parts[n - 1].len() == 0 { Seq::<T>::empty() } else { seq![t_ctx_p(if n != parts.len() { 1u64 } else { 2u64 }, parts[n - 1])] })
    }
}
pub open spec fn eq_tree(attr: Seq<u8>, initial: Seq<u8>, parts: Seq<Seq<u8>>) -> T {
    if parts.len() == 0 { t_ctx_c(3, seq![t_os(attr), t_os(initial)]) }
    else if initial.len() == 0 && parts.len() == 1 && parts[0].len() == 0 { t_ctx_p(7, attr) }
    else { t_ctx_c(4, seq![t_os(attr), t_seq((if initial.len() == 0 { Seq::<T>::empty() } else { seq![t_ctx_p(0, initial)] }) + sub_pieces(parts, parts.len()))]) }
}
pub open spec fn d_eq(i: Seq<u8>) -> Option<(int, T)> {
    match lx_attrdesc(i) {
        None => None,
        Some(n) => if !starts_with(i.skip(n), s_eq()) { None } else {
            match lx_unescaped(i.skip(n).skip(1)) {
                None => None,
                Some(d) => match d_stars(i.skip(n).skip(1).skip(d.0)) {
                    None => None,
                    Some(y) => if empty_before_last(y.1) { None } else { Some((n + 1 + d.0 + y.0, eq_tree(i.take(n), d.1, y.1))) },
                },
            }
        },
    }
}
pub open spec fn d_item(i: Seq<u8>) -> Option<(int, T)> {
    match d_eq(i) { Some(x) => Some(x), None => match d_non_eq(i) { Some(x) => Some(x), None => d_extensible(i) } }
}

// filter = LPAREN filtercomp RPAREN ; filtercomp = and / or / not / item ; and = AMPERSAND filterlist ; or = VERTBAR filterlist ;
// not = EXCLAMATION filter ; filterlist = *filter  (RFC 4515 has 1*filter; the empty (&) and (|) of RFC 4526 are a documented extension)
//   -> and [0] SET OF Filter, or [1] SET OF Filter, not [2] Filter
pub open spec fn d_filter(i: Seq<u8>) -> Option<(int, T)> decreases i.len(), 2nat {
    if !starts_with(i, s_lp()) { None } else {
        match d_filtercomp(i.skip(1)) {
            None => None,
            Some(x) => if 0 <= x.0 <= i.len() - 1 && starts_with(i.skip(1).skip(x.0), s_rp()) { Some((1 + x.0 + 1, x.1)) } else { None },
        }
    }
}
pub open spec fn d_and(i: Seq<u8>) -> Option<(int, T)> decreases i.len(), 0nat {
    if !starts_with(i, s_amp()) { None } else { match d_filterlist(i.skip(1)) { Some(x) => Some((1 + x.0, t_ctx_c(0, x.1))), None => None } }
}
pub open spec fn d_or(i: Seq<u8>) -> Option<(int, T)> decreases i.len(), 0nat {
    if !starts_with(i, s_bar()) { None } else { match d_filterlist(i.skip(1)) { Some(x) => Some((1 + x.0, t_ctx_c(1, x.1))), None => None } }
}
pub open spec fn d_not(i: Seq<u8>) -> Option<(int, T)> decreases i.len(), 0nat {
    if !starts_with(i, s_bang()) { None } else { match d_filter(i.skip(1)) { Some(x) => Some((1 + x.0, t_ctx_c(2, seq![x.1]))), None => None } }
}
pub open spec fn d_filtercomp(i: Seq<u8>) -> Option<(int, T)> decreases i.len(), 1nat {
    match d_and(i) { Some(x) => Some(x), None => match d_or(i) { Some(x) => Some(x), None => match d_not(i) { Some(x) => Some(x), None => d_item(i) } } }
}
pub open spec fn d_filterlist(i: Seq<u8>) -> Option<(int, Seq<T>)> decreases i.len(), 3nat {
    match d_filter(i) {
        None => Some((0int, Seq::<T>::empty())),
        Some(x) => if x.0 <= 0 || x.0 > i.len() { None } else {
            match d_filterlist(i.skip(x.0)) { None => None, Some(y) => Some((x.0 + y.0, seq![x.1] + y.1)) } },
    }
}
// filtexpr (entry point): a parenthesised filter, or -- documented extension -- a bare item
pub open spec fn d_filtexpr(i: Seq<u8>) -> Option<(int, T)> {
    match d_filter(i) { Some(x) => Some(x), None => d_item(i) }
}

pub proof fn lemma_trees_prepend(a: Tag, s: Seq<Tag>)
    ensures trees(seq![a] + s, (s.len() + 1) as nat) == seq![tree(a)] + trees(s, s.len())
{
    let l = seq![a] + s;
    lemma_trees_len(l, l.len());
    lemma_trees_len(s, s.len());
    assert(trees(l, l.len()) =~= seq![tree(a)] + trees(s, s.len()));
}
// many0(filter) is the filterlist denotation: induction over the many0 relation
pub open spec fn den_filter<'a>() -> spec_fn(&'a [u8], IResult<&'a [u8], Tag>) -> bool { |j: &'a [u8], x: IResult<&'a [u8], Tag>| denotes(x, j, d_filter(j@)) }
pub open spec fn list_denotes<'a>(r: IResult<&'a [u8], Seq<Tag>>, i: &'a [u8], d: Option<(int, Seq<T>)>) -> bool {
    match d { Some(x) => 0 <= x.0 <= i@.len() && (r matches Ok(p) && p.0@ == i@.skip(x.0) && trees(p.1, p.1.len()) == x.1), None => r is Err }
}
pub proof fn lemma_many0_filter<'a>(i: &'a [u8], r: IResult<&'a [u8], Seq<Tag>>)
    requires m0_res(den_filter(), i, r),
    ensures list_denotes(r, i, d_filterlist(i@)),
    decreases i@.len(),
{
    let den = den_filter();
    let pr = choose|pr: IResult<&'a [u8], Tag>| #[trigger] wit(pr) && m0_step(den, i, r, pr);
    match pr {
        Err(_) => { assert(i@.skip(0) =~= i@); }
        Ok(q) => {
            let x = d_filter(i@)->0;
            if q.0@.len() >= i@.len() { } else {
                let rr = choose|rr: IResult<&'a [u8], Seq<Tag>>| #[trigger] wit(rr) && m0_tail(den, i, r, q, rr);
                lemma_many0_filter(q.0, rr);
                match rr {
                    Err(_) => {}
                    Ok(t) => {
                        let y = d_filterlist(i@.skip(x.0))->0;
                        lemma_trees_prepend(q.1, t.1);
                        assert(t.0@ =~= i@.skip(x.0 + y.0));
                    }
                }
            }
        }
    }
}

// ------------------------------------------------------------------ equality / presence / substring helpers
pub open spec fn vv(s: Seq<Vec<u8>>) -> Seq<Seq<u8>> { s.map_values(|x: Vec<u8>| x@) }
// std iterator idioms in `eq` that this Verus cannot take (Enumerate is unsupported), replaced by recorded substitutions:
//   `v.iter().enumerate().fold(false, |acc, (n, ve)| acc || ve.is_empty() && n + 1 != v.len())`
//       = some piece other than the last one is empty
//   The fold's closure body is lifted as `any_empty_step` (unit.rs, lifter L7) and the call argument replaced (R12);
//   `iter().enumerate().fold(init, f)` is the verified loop below: f on (index, element) pairs in order, threading acc.
pub trait EnumFold {
    spec fn pieces(&self) -> Seq<Seq<u8>>;
    spec fn same(&self, v: &Vec<Vec<u8>>) -> bool;
    fn verif_enum_fold(&self, init: bool, v: &Vec<Vec<u8>>) -> (b: bool)
        requires self.same(v)
        ensures b == (init || empty_before_last(self.pieces()));
}
//   `.into_iter().enumerate()` yields (index, element) in order
#[verifier::external_body]
pub fn verif_enumerate(v: Vec<Vec<u8>>) -> (r: Vec<(usize, Vec<u8>)>)
    ensures r@.len() == v@.len(), forall|j: int| 0 <= j < v@.len() ==> (#[trigger] r@[j]).0 == j && r@[j].1 == v@[j]
{ unimplemented!() }

// what `preceded(tag(b"*"), unescaped)` does, as a relation (the parser value itself is anonymous)
pub open spec fn den_star<'a>() -> spec_fn(&'a [u8], IResult<&'a [u8], Vec<u8>>) -> bool {
    |j: &'a [u8], x: IResult<&'a [u8], Vec<u8>>|
        if starts_with(j@, s_star()) {
            match lx_unescaped(j@.skip(1)) {
                Some(d) => 0 <= d.0 <= j@.len() - 1 && (x matches Ok(p) && p.0@ == j@.skip(1).skip(d.0) && p.1@ == d.1),
                None => x is Err,
            }
        } else { x is Err }
}
pub open spec fn stars_rel<'a>(rr: IResult<&'a [u8], Seq<Vec<u8>>>, i: &'a [u8], d: Option<(int, Seq<Seq<u8>>)>) -> bool {
    match d { Some(y) => 0 <= y.0 <= i@.len() && (rr matches Ok(p) && p.0@ == i@.skip(y.0) && vv(p.1) == y.1), None => rr is Err }
}
pub proof fn lemma_stars<'a>(i: &'a [u8], r: IResult<&'a [u8], Seq<Vec<u8>>>)
    requires m0_res(den_star(), i, r),
    ensures stars_rel(r, i, d_stars(i@)),
    decreases i@.len(),
{
    let den = den_star();
    let pr = choose|pr: IResult<&'a [u8], Vec<u8>>| #[trigger] wit(pr) && m0_step(den, i, r, pr);
    match pr {
        Err(_) => { assert(i@.skip(0) =~= i@); assert(vv(Seq::<Vec<u8>>::empty()) =~= Seq::<Seq<u8>>::empty()); }
        Ok(q) => {
            let d = lx_unescaped(i@.skip(1))->0;
            assert(q.0@ =~= i@.skip(1 + d.0));
            if q.0@.len() >= i@.len() { } else {
                let rr = choose|rr: IResult<&'a [u8], Seq<Vec<u8>>>| #[trigger] wit(rr) && m0_tail(den, i, r, q, rr);
                lemma_stars(q.0, rr);
                match rr {
                    Err(_) => {}
                    Ok(t) => {
                        let y = d_stars(i@.skip(1 + d.0))->0;
                        assert(vv(seq![q.1] + t.1) =~= seq![d.1] + y.1);
                        assert(t.0@ =~= i@.skip(1 + d.0 + y.0));
                    }
                }
            }
        }
    }
}
pub proof fn lemma_trees_push(s: Seq<Tag>, x: Tag)
    ensures trees(s.push(x), (s.len() + 1) as nat) == trees(s, s.len()).push(tree(x))
{
    let l = s.push(x);
    lemma_trees_len(l, l.len());
    lemma_trees_len(s, s.len());
    assert(trees(l, l.len()) =~= trees(s, s.len()).push(tree(x)));
}

// ------------------------------------------------------------------ matched-values filter (RFC 3876 section 3):
// ValuesReturnFilter ::= SEQUENCE OF SimpleFilterItem;  string form  "(" 1*( "(" item ")" ) ")"
pub open spec fn d_mv_item(i: Seq<u8>) -> Option<(int, T)> {
    if !starts_with(i, s_lp()) { None } else {
        match d_item(i.skip(1)) {
            None => None,
            Some(x) => if 0 <= x.0 <= i.len() - 1 && starts_with(i.skip(1).skip(x.0), s_rp()) { Some((1 + x.0 + 1, x.1)) } else { None },
        }
    }
}
pub open spec fn d_mv_items0(i: Seq<u8>) -> Option<(int, Seq<T>)> decreases i.len() {
    match d_mv_item(i) {
        None => Some((0int, Seq::<T>::empty())),
        Some(x) => if x.0 <= 0 || x.0 > i.len() { None } else {
            match d_mv_items0(i.skip(x.0)) { None => None, Some(y) => Some((x.0 + y.0, seq![x.1] + y.1)) } },
    }
}
pub open spec fn d_mv_items(i: Seq<u8>) -> Option<(int, Seq<T>)> {
    match d_mv_item(i) {
        None => None,
        Some(x) => if x.0 <= 0 || x.0 > i.len() { None } else {
            match d_mv_items0(i.skip(x.0)) { None => None, Some(y) => Some((x.0 + y.0, seq![x.1] + y.1)) } },
    }
}
pub open spec fn d_mv_filterlist(i: Seq<u8>) -> Option<(int, T)> {
    match d_mv_items(i) { Some(x) => Some((x.0, t_seq(x.1))), None => None }
}
pub open spec fn d_mv_filtexpr(i: Seq<u8>) -> Option<(int, T)> {
    if !starts_with(i, s_lp()) { None } else {
        match d_mv_filterlist(i.skip(1)) {
            None => None,
            Some(x) => if 0 <= x.0 <= i.len() - 1 && starts_with(i.skip(1).skip(x.0), s_rp()) { Some((1 + x.0 + 1, x.1)) } else { None },
        }
    }
}
// what `delimited(tag(b"("), item, tag(b")"))` does, as a relation (needs `item`'s contract: stated over any parser result)
pub open spec fn den_mv_item<'a>() -> spec_fn(&'a [u8], IResult<&'a [u8], Tag>) -> bool {
    |j: &'a [u8], x: IResult<&'a [u8], Tag>|
        match d_mv_item(j@) {
            Some(d) => 0 <= d.0 <= j@.len() && (x matches Ok(p) && p.0@ == j@.skip(1).skip(d.0 - 2).skip(1) && tree(p.1) == d.1),
            None => x is Err,
        }
}
pub proof fn lemma_mv_items0<'a>(i: &'a [u8], r: IResult<&'a [u8], Seq<Tag>>)
    requires m0_res(den_mv_item(), i, r),
    ensures list_denotes(r, i, d_mv_items0(i@)),
    decreases i@.len(),
{
    let den = den_mv_item();
    let pr = choose|pr: IResult<&'a [u8], Tag>| #[trigger] wit(pr) && m0_step(den, i, r, pr);
    match pr {
        Err(_) => { assert(i@.skip(0) =~= i@); }
        Ok(q) => {
            let x = d_mv_item(i@)->0;
            assert(q.0@ =~= i@.skip(x.0));
            if q.0@.len() >= i@.len() { } else {
                let rr = choose|rr: IResult<&'a [u8], Seq<Tag>>| #[trigger] wit(rr) && m0_tail(den, i, r, q, rr);
                lemma_mv_items0(q.0, rr);
                match rr {
                    Err(_) => {}
                    Ok(t) => {
                        let y = d_mv_items0(i@.skip(x.0))->0;
                        lemma_trees_prepend(q.1, t.1);
                        assert(t.0@ =~= i@.skip(x.0 + y.0));
                    }
                }
            }
        }
    }
}
pub proof fn lemma_mv_items<'a>(i: &'a [u8], r: IResult<&'a [u8], Seq<Tag>>)
    requires m1_res(den_mv_item(), i, r),
    ensures list_denotes(r, i, d_mv_items(i@)),
{
    let den = den_mv_item();
    let pr = choose|pr: IResult<&'a [u8], Tag>| #[trigger] wit(pr) && den(i, pr) && (match pr {
        Err(_) => r is Err,
        Ok(q) => if q.0@.len() >= i@.len() { r is Err } else { exists|rr: IResult<&'a [u8], Seq<Tag>>| #[trigger] wit(rr) && m0_tail(den, i, r, q, rr) } });
    match pr {
        Err(_) => { }
        Ok(q) => {
            let x = d_mv_item(i@)->0;
            assert(q.0@ =~= i@.skip(x.0));
            if q.0@.len() >= i@.len() { } else {
                let rr = choose|rr: IResult<&'a [u8], Seq<Tag>>| #[trigger] wit(rr) && m0_tail(den, i, r, q, rr);
                lemma_mv_items0(q.0, rr);
                match rr {
                    Err(_) => {}
                    Ok(t) => {
                        let y = d_mv_items0(i@.skip(x.0))->0;
                        lemma_trees_prepend(q.1, t.1);
                        assert(t.0@ =~= i@.skip(x.0 + y.0));
                    }
                }
            }
        }
    }
}

// ------------------------------------------------------------------ the alternatives of filtexpr / filtercomp are disjoint
// (an item starts with a letter, a digit or a colon; the others with `(`, `&`, `|`, `!`), so their order is immaterial
pub proof fn lemma_item_first_byte(i: Seq<u8>)
    requires d_item(i) is Some,
    ensures i.len() > 0 && (is_alpha(i[0]) || is_digit(i[0]) || i[0] == 0x3a),
{
    reveal(lx_attrdesc);
    if lx_attrdesc(i) is Some {
        if lxd_numericoid(i) is Some {
            lemma_run_bounds(i, p_digit());
        }
    } else {
        assert(d_dn_mrule(i) is Some);
        if starts_with(i, s_dn()) { assert(i[0] == i.subrange(0, 3)[0]); } else { assert(i.skip(0) =~= i); assert(i[0] == i.subrange(0, 1)[0]); }
    }
}
pub proof fn lemma_alternatives_disjoint(i: Seq<u8>)
    ensures
        d_item(i) is Some ==> !starts_with(i, s_lp()) && !starts_with(i, s_amp()) && !starts_with(i, s_bar()) && !starts_with(i, s_bang()),
        !(starts_with(i, s_amp()) && starts_with(i, s_bar())), !(starts_with(i, s_amp()) && starts_with(i, s_bang())), !(starts_with(i, s_bar()) && starts_with(i, s_bang())),
{
    if d_item(i) is Some {
        lemma_item_first_byte(i);
        if starts_with(i, s_lp()) { assert(i[0] == i.subrange(0, 1)[0]); }
        if starts_with(i, s_amp()) { assert(i[0] == i.subrange(0, 1)[0]); }
        if starts_with(i, s_bar()) { assert(i[0] == i.subrange(0, 1)[0]); }
        if starts_with(i, s_bang()) { assert(i[0] == i.subrange(0, 1)[0]); }
    }
    if starts_with(i, s_amp()) { assert(i[0] == i.subrange(0, 1)[0]); }
    if starts_with(i, s_bar()) { assert(i[0] == i.subrange(0, 1)[0]); }
    if starts_with(i, s_bang()) { assert(i[0] == i.subrange(0, 1)[0]); }
}
