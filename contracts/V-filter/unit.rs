// Unit V-filter: the productions of the filter grammar in src/filter.rs (the nom parser-combinator code itself, lifted),
// against a denotational transcription of RFC 4515 section 3 / RFC 4511 4.5.1: for every input, each production's result
// is the value of a spec function of the input bytes (consumed length and BER tree), or an error when that is None.
//
// nom's combinators (tag, opt, preceded, delimited, alt, map, many0, many1) are external functions with relational
// contracts over the argument parsers' own contracts (`p.ensures`); byte-string literals are rewritten by lifter rule R11
// into array literals of the same bytes.  The three lexers (attributedescription, attributetype, unescaped) are assumed
// to be functions of the input that consume a prefix (uninterpreted lx_*); their bounded behaviour is checked by Kani
// (KX-escape filter leaves).  Serves C08 (and C19 through the Assertion/MatchedValues controls).
use vstd::prelude::*;
use vstd::string::*;
verus! {

//@include contracts/shared/lber_types.rs
//@include contracts/shared/tree_spec.rs
//@include contracts/shared/std_specs.rs

//@const file=src/filter.rs name=AND_FILT
//@const file=src/filter.rs name=OR_FILT
//@const file=src/filter.rs name=NOT_FILT
//@const file=src/filter.rs name=EQ_MATCH
//@const file=src/filter.rs name=SUBSTR_MATCH
//@const file=src/filter.rs name=GTE_MATCH
//@const file=src/filter.rs name=LTE_MATCH
//@const file=src/filter.rs name=PRES_MATCH
//@const file=src/filter.rs name=APPROX_MATCH
//@const file=src/filter.rs name=EXT_MATCH
//@const file=src/filter.rs name=SUB_INITIAL
//@const file=src/filter.rs name=SUB_ANY
//@const file=src/filter.rs name=SUB_FINAL

// ------------------------------------------------------------------ nom, as contracts
pub struct NomErr { pub k: u8 }
pub type IResult<I, O> = core::result::Result<(I, O), NomErr>;

pub open spec fn starts_with(i: Seq<u8>, t: Seq<u8>) -> bool { i.len() >= t.len() && i.subrange(0, t.len() as int) == t }

// nom::bytes::complete::tag: the literal, or an error (complete input: never Incomplete)
#[verifier::external_body]
pub fn tag<'a, const N: usize>(t: &'static [u8; N]) -> (f: impl Fn(&'a [u8]) -> IResult<&'a [u8], &'a [u8]>)
    ensures
        forall|i: &'a [u8]| #[trigger] f.requires((i,)),
        forall|i: &'a [u8], r: IResult<&'a [u8], &'a [u8]>| #[trigger] f.ensures((i,), r) ==>
            (if starts_with(i@, t@) { r matches Ok(p) && p.0@ == i@.skip(t@.len() as int) && p.1@ == t@ } else { r is Err }),
{ move |i: &'a [u8]| Err(NomErr { k: 0 }) }

// nom::combinator::opt: None (and nothing consumed) when the parser fails
#[verifier::external_body]
pub fn opt<'a, O, F: Fn(&'a [u8]) -> IResult<&'a [u8], O>>(p: F) -> (f: impl Fn(&'a [u8]) -> IResult<&'a [u8], Option<O>>)
    ensures
        forall|i: &'a [u8]| p.requires((i,)) ==> #[trigger] f.requires((i,)),
        forall|i: &'a [u8], r: IResult<&'a [u8], Option<O>>| #[trigger] f.ensures((i,), r) ==>
            exists|pr: IResult<&'a [u8], O>| p.ensures((i,), pr) && (match pr {
                Ok(q) => r == Ok::<(&'a [u8], Option<O>), NomErr>((q.0, Some(q.1))),
                Err(_) => r == Ok::<(&'a [u8], Option<O>), NomErr>((i, None)) }),
{ move |i: &'a [u8]| Err(NomErr { k: 0 }) }

// nom::sequence::preceded: first then second, the second's value
#[verifier::external_body]
pub fn preceded<'a, O1, O2, F: Fn(&'a [u8]) -> IResult<&'a [u8], O1>, G: Fn(&'a [u8]) -> IResult<&'a [u8], O2>>(a: F, b: G) -> (f: impl Fn(&'a [u8]) -> IResult<&'a [u8], O2>)
    ensures
        forall|i: &'a [u8]| (forall|j: &'a [u8]| a.requires((j,)) && b.requires((j,))) ==> #[trigger] f.requires((i,)),
        forall|i: &'a [u8], r: IResult<&'a [u8], O2>| #[trigger] f.ensures((i,), r) ==>
            exists|ra: IResult<&'a [u8], O1>| a.ensures((i,), ra) && (match ra { Ok(q) => b.ensures((q.0,), r), Err(_) => r is Err }),
{ move |i: &'a [u8]| Err(NomErr { k: 0 }) }

// nom::branch::alt over a tuple of parsers: the first that succeeds
pub trait AltList<'a, O>: Sized {
    spec fn alt_req(&self) -> bool;
    spec fn alt_ens(&self, i: &'a [u8], r: IResult<&'a [u8], O>) -> bool;
}
impl<'a, O, A: Fn(&'a [u8]) -> IResult<&'a [u8], O>, B: Fn(&'a [u8]) -> IResult<&'a [u8], O>> AltList<'a, O> for (A, B) {
    open spec fn alt_req(&self) -> bool { forall|j: &'a [u8]| self.0.requires((j,)) && self.1.requires((j,)) }
    open spec fn alt_ens(&self, i: &'a [u8], r: IResult<&'a [u8], O>) -> bool {
        exists|ra: IResult<&'a [u8], O>| self.0.ensures((i,), ra) && (if ra is Ok { r == ra } else { self.1.ensures((i,), r) })
    }
}
impl<'a, O, A: Fn(&'a [u8]) -> IResult<&'a [u8], O>, B: Fn(&'a [u8]) -> IResult<&'a [u8], O>, C: Fn(&'a [u8]) -> IResult<&'a [u8], O>> AltList<'a, O> for (A, B, C) {
    open spec fn alt_req(&self) -> bool { forall|j: &'a [u8]| self.0.requires((j,)) && self.1.requires((j,)) && self.2.requires((j,)) }
    open spec fn alt_ens(&self, i: &'a [u8], r: IResult<&'a [u8], O>) -> bool {
        exists|ra: IResult<&'a [u8], O>| self.0.ensures((i,), ra) && (if ra is Ok { r == ra } else {
            exists|rb: IResult<&'a [u8], O>| self.1.ensures((i,), rb) && (if rb is Ok { r == rb } else { self.2.ensures((i,), r) }) })
    }
}
#[verifier::external_body]
pub fn alt<'a, O, L: AltList<'a, O>>(l: L) -> (f: impl Fn(&'a [u8]) -> IResult<&'a [u8], O>)
    ensures
        forall|i: &'a [u8]| l.alt_req() ==> #[trigger] f.requires((i,)),
        forall|i: &'a [u8], r: IResult<&'a [u8], O>| #[trigger] f.ensures((i,), r) ==> l.alt_ens(i, r),
{ move |i: &'a [u8]| Err(NomErr { k: 0 }) }

// ------------------------------------------------------------------ the lexers (assumed: functions of the input, consume a prefix)
pub uninterp spec fn lx_attrdesc(i: Seq<u8>) -> Option<int>;          // attributedescription: matched length
pub uninterp spec fn lx_attrtype(i: Seq<u8>) -> Option<int>;          // attributetype (matching rule id): matched length
pub uninterp spec fn lx_unescaped(i: Seq<u8>) -> Option<(int, Seq<u8>)>; // assertion value: consumed length, un-escaped bytes
pub open spec fn recognised<'a>(r: IResult<&'a [u8], &'a [u8]>, i: &'a [u8], d: Option<int>) -> bool {
    match d { Some(n) => 0 <= n <= i@.len() && (r matches Ok(p) && p.0@ == i@.skip(n) && p.1@ == i@.take(n)), None => r is Err }
}
#[verifier::external_body]
pub fn attributedescription<'a>(i: &'a [u8]) -> (r: IResult<&'a [u8], &'a [u8]>) ensures recognised(r, i, lx_attrdesc(i@)) { unimplemented!() }
#[verifier::external_body]
pub fn attributetype<'a>(i: &'a [u8]) -> (r: IResult<&'a [u8], &'a [u8]>) ensures recognised(r, i, lx_attrtype(i@)) { unimplemented!() }
#[verifier::external_body]
pub fn unescaped<'a>(i: &'a [u8]) -> (r: IResult<&'a [u8], Vec<u8>>)
    ensures match lx_unescaped(i@) { Some(d) => 0 <= d.0 <= i@.len() && (r matches Ok(p) && p.0@ == i@.skip(d.0) && p.1@ == d.1), None => r is Err }
{ unimplemented!() }
// filtertag on the three operators: K-level fact KX-escape::filtertag_numbers (real code, complete)
#[verifier::external_body]
pub fn filtertag(filterop: &[u8]) -> (r: u64)
    requires filterop@ == seq![0x3eu8, 0x3d] || filterop@ == seq![0x3cu8, 0x3d] || filterop@ == seq![0x7eu8, 0x3d],
    ensures r == (if filterop@ == seq![0x3eu8, 0x3d] { 5u64 } else if filterop@ == seq![0x3cu8, 0x3d] { 6u64 } else { 8u64 }),
{ unimplemented!() }

// ------------------------------------------------------------------ RFC 4515 section 3 as a function of the input
// A production's denotation: None = no match; Some((n, t)) = consumes n bytes and yields the RFC 4511 Filter tree t.
pub open spec fn denotes<'a>(r: IResult<&'a [u8], Tag>, i: &'a [u8], d: Option<(int, T)>) -> bool {
    match d { Some(x) => 0 <= x.0 <= i@.len() && (r matches Ok(p) && p.0@ == i@.skip(x.0) && tree(p.1) == x.1), None => r is Err }
}
pub open spec fn s_gte() -> Seq<u8> { seq![0x3eu8, 0x3d] }   // ">="
pub open spec fn s_lte() -> Seq<u8> { seq![0x3cu8, 0x3d] }   // "<="
pub open spec fn s_apx() -> Seq<u8> { seq![0x7eu8, 0x3d] }   // "~="
pub open spec fn s_dn() -> Seq<u8> { seq![0x3au8, 0x64, 0x6e] }   // ":dn"
pub open spec fn s_colon() -> Seq<u8> { seq![0x3au8] }   // ":"
pub open spec fn s_coleq() -> Seq<u8> { seq![0x3au8, 0x3d] }   // ":="

// simple = attr filtertype assertionvalue, filtertype in { ">=", "<=", "~=" }  (equality is with substring/present below)
//   -> greaterOrEqual [5] / lessOrEqual [6] / approxMatch [8] AttributeValueAssertion { attributeDesc, assertionValue }
pub open spec fn d_non_eq(i: Seq<u8>) -> Option<(int, T)> {
    match lx_attrdesc(i) {
        None => None,
        Some(n) => {
            let j = i.skip(n);
            let op: Option<u64> = if starts_with(j, s_gte()) { Some(5u64) } else if starts_with(j, s_lte()) { Some(6u64) } else if starts_with(j, s_apx()) { Some(8u64) } else { None };
            match op {
                None => None,
                Some(id) => match lx_unescaped(j.skip(2)) {
                    None => None,
                    Some(d) => Some((n + 2 + d.0, t_ctx_c(id, seq![t_os(i.take(n)), t_os(d.1)]))),
                },
            }
        }
    }
}
// extensible = ( attr [dnattrs] [matchingrule] COLON EQUALS assertionvalue ) / ( [dnattrs] matchingrule COLON EQUALS assertionvalue )
//   -> extensibleMatch [9] MatchingRuleAssertion { matchingRule [1] OPTIONAL, type [2] OPTIONAL, matchValue [3], dnAttributes [4] DEFAULT FALSE }
pub open spec fn mra(rule: Option<Seq<u8>>, attr: Option<Seq<u8>>, value: Seq<u8>, dn: bool) -> T {
    t_ctx_c(9, (match rule { Some(s) => seq![t_ctx_p(1, s)], None => Seq::<T>::empty() }) + (match attr { Some(s) => seq![t_ctx_p(2, s)], None => Seq::<T>::empty() })
        + seq![t_ctx_p(3, value)] + (if dn { seq![T::P(TagClass::Context, 4, seq![0xffu8])] } else { Seq::<T>::empty() }))
}
pub open spec fn d_attr_dn_mrule(i: Seq<u8>) -> Option<(int, T)> {
    match lx_attrdesc(i) {
        None => None,
        Some(n) => {
            let j = i.skip(n);
            let dn = starts_with(j, s_dn());
            let n1 = if dn { 3int } else { 0int };
            let k = j.skip(n1);
            // [matchingrule] = COLON oid, optional: taken only if both the colon and the rule id are there
            let rule: Option<int> = if starts_with(k, s_colon()) { lx_attrtype(k.skip(1)) } else { None };
            let n2 = match rule { Some(m) => 1 + m, None => 0int };
            let l = k.skip(n2);
            if !starts_with(l, s_coleq()) { None } else {
                match lx_unescaped(l.skip(2)) {
                    None => None,
                    Some(d) => Some((n + n1 + n2 + 2 + d.0,
                        mra(match rule { Some(m) => Some(k.subrange(1, 1 + m)), None => None }, Some(i.take(n)), d.1, dn))),
                }
            }
        }
    }
}
pub open spec fn d_dn_mrule(i: Seq<u8>) -> Option<(int, T)> {
    let dn = starts_with(i, s_dn());
    let n1 = if dn { 3int } else { 0int };
    let k = i.skip(n1);
    if !starts_with(k, s_colon()) { None } else {
        match lx_attrtype(k.skip(1)) {
            None => None,
            Some(m) => {
                let l = k.skip(1 + m);
                if !starts_with(l, s_coleq()) { None } else {
                    match lx_unescaped(l.skip(2)) {
                        None => None,
                        Some(d) => Some((n1 + 1 + m + 2 + d.0, mra(Some(k.subrange(1, 1 + m)), None, d.1, dn))),
                    }
                }
            }
        }
    }
}
pub open spec fn d_extensible(i: Seq<u8>) -> Option<(int, T)> {
    match d_attr_dn_mrule(i) { Some(x) => Some(x), None => d_dn_mrule(i) }
}

// extensible_tag: contract proved in unit V-filter-leaf (C08.extensible_match_assembly_rfc4511), restated over views
#[verifier::external_body]
pub fn extensible_tag(mrule: Option<&[u8]>, attr: Option<&[u8]>, value: Vec<u8>, dn: bool) -> (r: Tag)
    ensures tree(r) == mra(match mrule { Some(s) => Some(s@), None => None }, match attr { Some(s) => Some(s@), None => None }, value@, dn)
{ unimplemented!() }

// the array literals R11 produces are the RFC's literal strings
pub proof fn lemma_lits()
    ensures [58u8, 100u8, 110u8]@ == s_dn(), [58u8]@ == s_colon(), [58u8, 61u8]@ == s_coleq(),
        [62u8, 61u8]@ == s_gte(), [60u8, 61u8]@ == s_lte(), [126u8, 61u8]@ == s_apx(),
{
    assert([58u8, 100u8, 110u8]@ =~= s_dn()); assert([58u8]@ =~= s_colon()); assert([58u8, 61u8]@ =~= s_coleq());
    assert([62u8, 61u8]@ =~= s_gte()); assert([60u8, 61u8]@ =~= s_lte()); assert([126u8, 61u8]@ =~= s_apx());
}

// ------------------------------------------------------------------ the productions (lifted)
//@lift name=non_eq file=src/filter.rs fn=non_eq
//@ rules +R11
//@ sub "tag(\"~=\")" => "tag(&[126u8, 61u8])"
//@ sub "fn non_eq(i: &[u8])" => "fn non_eq<'a>(i: &'a [u8])"
//@ sub "IResult<&[u8], Tag>" => "IResult<&'a [u8], Tag>"
//@ ret r
//@ insert entry
    let ghost i0 = i@;
    proof { lemma_lits(); }
//@ insert after "let (i, attr) ="
    let ghost i1 = i@;
    let ghost n = lx_attrdesc(i0)->0;
//@ insert after "let (i, filterop) ="
    let ghost i2 = i@;
    proof { assert(i2 =~= i1.skip(2)); }
//@ insert after "let (i, value) ="
    proof { assert(i@ =~= i0.skip(n + 2 + (lx_unescaped(i2)->0).0)); }
//@ insert before "Ok((i, tag))"
    proof { tree_lemmas::lemma_trees2(tag->Sequence_0.inner@, 2); }
//@ spec
    ensures denotes(r, i, d_non_eq(i@)), //# C08.ordering_and_approx_items_denote_rfc4515_simple
//@end

//@lift name=attr_dn_mrule file=src/filter.rs fn=attr_dn_mrule
//@ rules +R11
//@ sub "fn attr_dn_mrule(i: &[u8])" => "fn attr_dn_mrule<'a>(i: &'a [u8])"
//@ sub "IResult<&[u8], Tag>" => "IResult<&'a [u8], Tag>"
//@ ret r
//@ insert entry
    let ghost i0 = i@;
    proof { lemma_lits(); }
//@ insert after "let (i, attr) ="
    let ghost i1 = i@;
    let ghost n = lx_attrdesc(i0)->0;
//@ insert after "let (i, dn) ="
    let ghost i2 = i@;
    let ghost n1 = if starts_with(i1, s_dn()) { 3int } else { 0int };
    proof { assert(i2 == i1.skip(n1)); }
//@ insert after "let (i, mrule) ="
    let ghost i3 = i@;
    let ghost rule: Option<int> = if starts_with(i2, s_colon()) { lx_attrtype(i2.skip(1)) } else { None };
    let ghost n2 = match rule { Some(m) => 1 + m, None => 0int };
    proof {
        assert(i3 =~= i2.skip(n2));
        assert(mrule is Some == rule is Some);
        if rule is Some { assert(mrule->0@ =~= i2.subrange(1, 1 + rule->0)); }
    }
//@ insert after "let (i, _) ="
    let ghost i4 = i@;
//@ insert after "let (i, value) ="
    proof {
        assert(i4 =~= i3.skip(2));
        assert(i@ =~= i0.skip(n + n1 + n2 + 2 + (lx_unescaped(i4)->0).0));
    }
//@ spec
    ensures denotes(r, i, d_attr_dn_mrule(i@)), //# C08.extensible_item_with_attribute_denotes_rfc4515
//@end

//@lift name=dn_mrule file=src/filter.rs fn=dn_mrule
//@ rules +R11
//@ sub "fn dn_mrule(i: &[u8])" => "fn dn_mrule<'a>(i: &'a [u8])"
//@ sub "IResult<&[u8], Tag>" => "IResult<&'a [u8], Tag>"
//@ ret r
//@ insert entry
    let ghost i0 = i@;
    proof { lemma_lits(); }
//@ insert after "let (i, dn) ="
    let ghost i1 = i@;
    let ghost n1 = if starts_with(i0, s_dn()) { 3int } else { 0int };
    proof { assert(i1 == i0.skip(n1)); }
//@ insert after "let (i, mrule) ="
    let ghost i2 = i@;
    let ghost m = lx_attrtype(i1.skip(1))->0;
    proof { assert(i2 =~= i1.skip(1 + m)); assert(mrule@ =~= i1.subrange(1, 1 + m)); }
//@ insert after "let (i, _) ="
    let ghost i3 = i@;
//@ insert after "let (i, value) ="
    proof {
        assert(i3 =~= i2.skip(2));
        assert(i@ =~= i0.skip(n1 + 1 + m + 2 + (lx_unescaped(i3)->0).0));
    }
//@ spec
    ensures denotes(r, i, d_dn_mrule(i@)), //# C08.extensible_item_without_attribute_denotes_rfc4515
//@end

//@lift name=extensible file=src/filter.rs fn=extensible
//@ sub "fn extensible(i: &[u8])" => "fn extensible<'a>(i: &'a [u8])"
//@ sub "IResult<&[u8], Tag>" => "IResult<&'a [u8], Tag>"
//@ ret r
//@ spec
    ensures denotes(r, i, d_extensible(i@)), //# C08.extensible_item_is_the_ordered_choice_of_its_two_forms
//@end

} // verus!
fn main() {}
