// Unit V-filter: the productions of the filter grammar in src/filter.rs (the nom parser-combinator code itself, lifted),
// against a denotational transcription of RFC 4515 section 3 / RFC 4511 4.5.1 (contracts/V-filter/prelude.rs): for every
// input, each production's result is the value of a spec function of the input bytes (consumed length and BER tree), or
// an error when that is None.
//
// nom's combinators are external functions with relational contracts over the argument parsers' own contracts
// (`p.ensures`); byte-string literals are rewritten by lifter rule R11 into array literals of the same bytes.  The three
// lexers (attributedescription, attributetype, unescaped) are assumed to be functions of the input that consume a prefix
// (uninterpreted lx_*); their bounded behaviour is checked by Kani (KX-escape filter leaves).
// The grammar is recursive through `filter`; Verus does not take a function of a recursive cycle as a first-class value,
// so `filter` is an assumed contract HERE and is proved against the same contract text in unit V-filter-rec (where its
// callee `filtercomp` is the assumed one).  Partial correctness: termination/stack depth of nested filters is not claimed.
// Serves C08.
use vstd::prelude::*;
use vstd::string::*;
verus! {

//@include contracts/shared/lber_types.rs
//@include contracts/shared/tree_spec.rs
//@include contracts/shared/std_specs.rs
//@include contracts/V-filter/prelude.rs

// proved in V-filter-rec: C08.parenthesised_filter_denotes_rfc4515
#[verifier::external_body]
fn filter<'a>(i: &'a [u8]) -> (r: IResult<&'a [u8], Tag>) ensures denotes(r, i, d_filter(i@)) { unimplemented!() }


// RFC 4511 4.5.1: Filter ::= CHOICE { and [0], or [1], not [2], equalityMatch [3], substrings [4], greaterOrEqual [5],
//   lessOrEqual [6], present [7], approxMatch [8], extensibleMatch [9] }; SubstringFilter: initial [0], any [1], final [2]
pub proof fn filter_tag_numbers_rfc4511()
    ensures
        AND_FILT == 0 && OR_FILT == 1 && NOT_FILT == 2, //# C08.and_or_not_tag_numbers
        EQ_MATCH == 3 && SUBSTR_MATCH == 4 && GTE_MATCH == 5 && LTE_MATCH == 6 && PRES_MATCH == 7 && APPROX_MATCH == 8 && EXT_MATCH == 9, //# C08.match_tag_numbers
        SUB_INITIAL == 0 && SUB_ANY == 1 && SUB_FINAL == 2, //# C08.substring_tag_numbers
{ }

// ------------------------------------------------------------------ leaves
//@lift name=is_value_char file=src/filter.rs fn=is_value_char
//@ sub "fn is_value_char(&c: &u8) -> bool" => "fn is_value_char(c0: &u8) -> bool"
//@ ret r
//@ insert entry
    let c = *c0;
//@ spec
    ensures r == value_char(*c0), //# C08.value_chars_exclude_exactly_nul_parens_asterisk
//@end

//@lift name=extensible_tag file=src/filter.rs fn=extensible_tag
//@ sub "let mut inner = vec![];" => "let mut inner: Vec<Tag> = vec![];"
//@ ret r
//@ insert before "Tag::Sequence(Sequence {\n        class: TagClass::Context,\n        id: EXT_MATCH,"
    proof {
        lemma_trees_len(inner@, inner@.len());
        assert(trees(inner@, inner@.len()) =~= mra_kids(match mrule { Some(s) => Some(s@), None => None }, match attr { Some(s) => Some(s@), None => None }, value@, dn)); //# C08.extensible_match_children_rule_type_value_dn_in_rfc4511_order
    } //# C08.extensible_match_components_in_order
//@ spec
    ensures
        // RFC 4511 4.5.1 MatchingRuleAssertion ::= SEQUENCE { matchingRule [1] OPTIONAL, type [2] OPTIONAL, matchValue [3],
        //   dnAttributes [4] BOOLEAN DEFAULT FALSE }
        tree(r) == mra(match mrule { Some(s) => Some(s@), None => None }, match attr { Some(s) => Some(s@), None => None }, value@, dn), //# C08.extensible_match_assembly_rfc4511
//@end

// ------------------------------------------------------------------ lexers
//@lift name=is_alnum_hyphen file=src/filter.rs fn=is_alnum_hyphen
//@ ret b
//@ spec
    ensures b == is_anh(c), //# C08.keychar_is_alnum_or_hyphen
//@end

//@lift name=number file=src/filter.rs fn=number
//@ sub "fn number(i: &[u8])" => "fn number<'a>(i: &'a [u8])"
//@ sub "IResult<&[u8], &[u8]>" => "IResult<&'a [u8], &'a [u8]>"
//@ sub "verify(digit1," => "verify_slice(digit1,"
//@ ret r
//@ closure at="|d: &[u8]|" params="d: &'a [u8]" ret="(b: bool)"
        requires d@.len() >= 1
        ensures b == (d@.len() == 1 || d@[0] != 0x30)
//@ insert entry
    proof {
        assert forall|j: Seq<u8>| 0 <= #[trigger] run(j, p_digit()) <= j.len() by { lemma_run_bounds(j, p_digit()); }
    }
//@ spec
    ensures recognised(r, i, lxd_number(i@)), //# C08.number_has_no_superfluous_leading_zero
//@end

//@lift name=descr file=src/filter.rs fn=descr
//@ sub "fn descr(i: &[u8])" => "fn descr<'a>(i: &'a [u8])"
//@ sub "IResult<&[u8], &[u8]>" => "IResult<&'a [u8], &'a [u8]>"
//@ sub "verify(be_u8," => "verify_val(be_u8,"
//@ ret r
//@ closure at="|i| -> IResult<&[u8], ()>" params="i: &'a [u8]" ret="(cr: IResult<&'a [u8], ()>)"
        ensures match lxd_descr(i@) { Some(n) => 0 <= n <= i@.len() && (cr matches Ok(p) && p.0@ == i@.skip(n)), None => cr is Err }
//@ closure at="|c| is_alphabetic(*c)" params="c: &u8" ret="(b: bool)"
            ensures b == is_alpha(*c)
//@ insert entry
    proof { if i@.len() > 0 { lemma_run_bounds(i@.skip(1), p_anh()); } }
//@ insert before "let (i, _) = verify_val(be_u8"
        let ghost i0 = i@;
//@ insert before "let (i, _) = take_while("
        let ghost i1 = i@;
//@ insert after "let (i, _) = take_while("
        proof {
            let k = choose|k: int| #[trigger] wit(k) && 0 <= k <= i1.len()
                && (forall|j: int| 0 <= j < k ==> is_alnum_hyphen.ensures((#[trigger] i1[j],), true))
                && (k < i1.len() ==> is_alnum_hyphen.ensures((i1[k],), false)) && i@ == i1.skip(k);
            lemma_run_unique(i1, p_anh(), k);
            assert(i@ =~= i0.skip(1 + k));
        }
//@ spec
    ensures recognised(r, i, lxd_descr(i@)), //# C08.descr_is_a_letter_then_letters_digits_hyphens
//@end

//@lift name=numericoid file=src/filter.rs fn=numericoid
//@ rules +R11
//@ sub "fn numericoid(i: &[u8])" => "fn numericoid<'a>(i: &'a [u8])"
//@ sub "IResult<&[u8], &[u8]>" => "IResult<&'a [u8], &'a [u8]>"
//@ ret r
//@ closure at="|i| -> IResult<&[u8], ()>" params="i: &'a [u8]" ret="(cr: IResult<&'a [u8], ()>)"
        ensures match lxd_numericoid(i@) { Some(n) => 0 <= n <= i@.len() && (cr matches Ok(p) && p.0@ == i@.skip(n)), None => cr is Err }
//@ insert entry
    proof { lemma_lits_lex(); }
//@ insert before "let (i, _) = number(i)?;"
        let ghost i0 = i@;
//@ insert after "let (i, _) = number(i)?;"
        let ghost i1 = i@;
        proof {
            assert(wit(den_dotnum()));
            assert forall|ii: &'a [u8], rr: IResult<&'a [u8], Seq<&'a [u8]>>| #[trigger] m0_res(den_dotnum(), ii, rr) implies skipped(rr, ii, lxd_dotnums(ii@)) by { lemma_dotnums(ii, rr); }
        }
//@ insert after "let (i, _) = many0(preceded("
        proof { assert(i@ =~= i0.skip(lxd_number(i0)->0 + lxd_dotnums(i1))); }
//@ spec
    ensures recognised(r, i, lxd_numericoid(i@)), //# C08.numericoid_is_numbers_separated_by_dots
//@end

//@lift name=attributetype file=src/filter.rs fn=attributetype
//@ sub "fn attributetype(i: &[u8])" => "fn attributetype<'a>(i: &'a [u8])"
//@ sub "IResult<&[u8], &[u8]>" => "IResult<&'a [u8], &'a [u8]>"
//@ ret r
//@ insert entry
    proof { reveal(lx_attrtype); }
//@ spec
    ensures recognised(r, i, lx_attrtype(i@)), //# C08.attribute_type_is_numericoid_or_descr
//@end

//@lift name=attributedescription file=src/filter.rs fn=attributedescription
//@ rules +R11
//@ sub "fn attributedescription(i: &[u8])" => "fn attributedescription<'a>(i: &'a [u8])"
//@ sub "IResult<&[u8], &[u8]>" => "IResult<&'a [u8], &'a [u8]>"
//@ ret r
//@ closure at="|i| -> IResult<&[u8], ()>" params="i: &'a [u8]" ret="(cr: IResult<&'a [u8], ()>)"
        ensures match lxd_attrdesc(i@) { Some(n) => 0 <= n <= i@.len() && (cr matches Ok(p) && p.0@ == i@.skip(n)), None => cr is Err }
//@ insert entry
    proof { lemma_lits_lex(); reveal(lx_attrdesc); reveal(lx_attrtype); }
//@ insert before "let (i, _) = attributetype(i)?;"
        let ghost i0 = i@;
//@ insert after "let (i, _) = attributetype(i)?;"
        let ghost i1 = i@;
        proof {
            assert(wit(den_option()));
            assert forall|ii: &'a [u8], rr: IResult<&'a [u8], Seq<&'a [u8]>>| #[trigger] m0_res(den_option(), ii, rr) implies skipped(rr, ii, lxd_options(ii@)) by { lemma_options(ii, rr); }
        }
//@ insert after "let (i, _) = many0(preceded("
        proof { assert(i@ =~= i0.skip(lxd_attrtype(i0)->0 + lxd_options(i1))); }
//@ spec
    ensures recognised(r, i, lx_attrdesc(i@)), //# C08.attribute_description_is_a_type_followed_by_options
//@end

//@lift name=unescaped file=src/filter.rs fn=unescaped
//@ sub "fn unescaped(i: &[u8])" => "fn unescaped<'a>(i: &'a [u8])"
//@ sub "IResult<&[u8], Vec<u8>>" => "IResult<&'a [u8], Vec<u8>>"
//@ sub "verify(be_u8, is_value_char)" => "verify_val(be_u8, is_value_char)"
//@ ret r
//@ closure at="|| (Unescaper::Value(" params="" ret="(a0: (Unescaper, Vec<u8>))"
                ensures a0.0 == Unescaper::Value(0), a0.1@ == Seq::<u8>::empty()
//@ closure at="|(mut u, mut vec): (Unescaper, Vec<_>), c: u8|" destructure="acc" params="acc: (Unescaper, Vec<u8>), c: u8" ret="(a2: (Unescaper, Vec<u8>))"
                ensures wf_un(acc.0) ==> (a2.0 == feed_spec(acc.0, c) && wf_un(a2.0) && a2.1@ == (if a2.0 is Value { acc.1@.push(a2.0->Value_0) } else { acc.1@ })), //# C08+C09.value_bytes_are_the_unescaped_bytes_in_order
//@ closure at="|(u, vec): (Unescaper, Vec<_>)| -> Result<Vec<u8>, ()>" destructure="uv" params="uv: (Unescaper, Vec<u8>)" ret="(gr: core::result::Result<Vec<u8>, ()>)"
            ensures gr is Ok <==> uv.0 is Value, gr matches Ok(w) ==> w@ == uv.1@, //# C08.incomplete_or_malformed_escape_is_an_error
//@ insert entry
    proof {
        reveal(lx_unescaped);
        assert(wit(den_vchar())); assert(wit(iden_un())); assert(wit(gden_un()));
        assert forall|ii: &'a [u8], a: (Unescaper, Vec<u8>), rr: IResult<&'a [u8], (Unescaper, Vec<u8>)>| #[trigger] fm_loop(den_vchar(), gden_un(), ii, a, rr) && wf_un(a.0) implies scanned(rr, ii, a.0, a.1@) by { lemma_scan(ii, a, rr); }
    }
//@ spec
    ensures valued(r, i, lx_unescaped(i@)), //# C08+C09.assertion_value_lexer_unescapes_rfc4515
//@end

// ------------------------------------------------------------------ productions
//@lift name=non_eq file=src/filter.rs fn=non_eq
//@ rules +R11
//@ sub "fn non_eq(i: &[u8])" => "fn non_eq<'a>(i: &'a [u8])"
//@ sub "IResult<&[u8], Tag>" => "IResult<&'a [u8], Tag>"
//@ ret r
//@ sub "tag(\"~=\")" => "tag(&[126u8, 61u8])"
//@ insert entry
    let ghost i0 = i@;
    proof { lemma_lits(); }
//@ insert after "let (i, attr) ="
    let ghost i1 = i@;
    let ghost n = lx_attrdesc(i0)->0;
//@ insert after "let (i, filterop) ="
    let ghost i2 = i@;
    proof { assert(i2 =~= i1.skip(2)); }
//@ insert after "let (i, value) ="
    proof { assert(i@ =~= i0.skip(n + 2 + (lx_unescaped(i2)->0).0)); }
//@ insert before "Ok((i, tag))"
    proof { tree_lemmas::lemma_trees2(tag->Sequence_0.inner@, 2); }
//@ spec
    ensures denotes(r, i, d_non_eq(i@)), //# C08.ordering_and_approx_items_denote_rfc4515_simple
//@end

//@lift name=attr_dn_mrule file=src/filter.rs fn=attr_dn_mrule
//@ rules +R11
//@ sub "fn attr_dn_mrule(i: &[u8])" => "fn attr_dn_mrule<'a>(i: &'a [u8])"
//@ sub "IResult<&[u8], Tag>" => "IResult<&'a [u8], Tag>"
//@ ret r
//@ insert entry
    let ghost i0 = i@;
    proof { lemma_lits(); }
//@ insert after "let (i, attr) ="
    let ghost i1 = i@;
    let ghost n = lx_attrdesc(i0)->0;
//@ insert after "let (i, dn) ="
    let ghost i2 = i@;
    let ghost n1 = if starts_with(i1, s_dn()) { 3int } else { 0int };
    proof { assert(i2 == i1.skip(n1)); }
//@ insert after "let (i, mrule) ="
    let ghost i3 = i@;
    let ghost rule: Option<int> = if starts_with(i2, s_colon()) { lx_attrtype(i2.skip(1)) } else { None };
    let ghost n2 = match rule { Some(m) => 1 + m, None => 0int };
    proof {
        assert(i3 =~= i2.skip(n2));
        assert(mrule is Some == rule is Some);
        if rule is Some { assert(mrule->0@ =~= i2.subrange(1, 1 + rule->0)); }
    }
//@ insert after "let (i, _) ="
    let ghost i4 = i@;
//@ insert after "let (i, value) ="
    proof {
        assert(i4 =~= i3.skip(2));
        assert(i@ =~= i0.skip(n + n1 + n2 + 2 + (lx_unescaped(i4)->0).0));
    }
//@ spec
    ensures denotes(r, i, d_attr_dn_mrule(i@)), //# C08.extensible_item_with_attribute_denotes_rfc4515
//@end

//@lift name=dn_mrule file=src/filter.rs fn=dn_mrule
//@ rules +R11
//@ sub "fn dn_mrule(i: &[u8])" => "fn dn_mrule<'a>(i: &'a [u8])"
//@ sub "IResult<&[u8], Tag>" => "IResult<&'a [u8], Tag>"
//@ ret r
//@ insert entry
    let ghost i0 = i@;
    proof { lemma_lits(); }
//@ insert after "let (i, dn) ="
    let ghost i1 = i@;
    let ghost n1 = if starts_with(i0, s_dn()) { 3int } else { 0int };
    proof { assert(i1 == i0.skip(n1)); }
//@ insert after "let (i, mrule) ="
    let ghost i2 = i@;
    let ghost m = lx_attrtype(i1.skip(1))->0;
    proof { assert(i2 =~= i1.skip(1 + m)); assert(mrule@ =~= i1.subrange(1, 1 + m)); }
//@ insert after "let (i, _) ="
    let ghost i3 = i@;
//@ insert after "let (i, value) ="
    proof {
        assert(i3 =~= i2.skip(2));
        assert(i@ =~= i0.skip(n1 + 1 + m + 2 + (lx_unescaped(i3)->0).0));
    }
//@ spec
    ensures denotes(r, i, d_dn_mrule(i@)), //# C08.extensible_item_without_attribute_denotes_rfc4515
//@end

//@lift name=extensible file=src/filter.rs fn=extensible
//@ sub "fn extensible(i: &[u8])" => "fn extensible<'a>(i: &'a [u8])"
//@ sub "IResult<&[u8], Tag>" => "IResult<&'a [u8], Tag>"
//@ ret r
//@ spec
    ensures denotes(r, i, d_extensible(i@)), //# C08.extensible_item_is_the_ordered_choice_of_its_two_forms
//@end

//@lift name=eq::any_empty_step file=src/filter.rs block="|acc, (n, ve)|" as="fn any_empty_step(acc: bool, n: usize, ve: &Vec<u8>, v: &Vec<Vec<u8>>) -> (r: bool)"
//@ spec
    requires n < v@.len(), v@.len() <= usize::MAX,
    ensures r == (acc || (ve@.len() == 0 && n + 1 != v@.len())), //# C08.a_piece_other_than_the_last_is_empty_step
//@end
impl EnumFold for Vec<Vec<u8>> {
    open spec fn pieces(&self) -> Seq<Seq<u8>> { vv(self@) }
    open spec fn same(&self, v: &Vec<Vec<u8>>) -> bool { *v == *self }
    fn verif_enum_fold(&self, init: bool, v: &Vec<Vec<u8>>) -> (b: bool)
    {
        let mut acc = init;
        let mut n: usize = 0;
        while n < self.len()
            invariant n <= self@.len(), *v == *self,
                acc == (init || exists|j: int| 0 <= j < n && j < self@.len() - 1 && #[trigger] vv(self@)[j].len() == 0),
            decreases self@.len() - n
        {
            let ghost before = acc;
            acc = any_empty_step(acc, n, &self[n], v);
            proof {
                assert(vv(self@)[n as int] == self@[n as int]@);
                if acc && !before { assert(vv(self@)[n as int].len() == 0 && n < self@.len() - 1); }
            }
            n += 1;
        }
        acc
    }
}
//@lift name=eq file=src/filter.rs fn=eq
//@ rules +R11
//@ sub "fn eq(i: &[u8])" => "fn eq<'a>(i: &'a [u8])"
//@ sub "IResult<&[u8], Tag>" => "IResult<&'a [u8], Tag>"
//@ carg "|acc, (n, ve)|" => "&v"
//@ sub ".iter().enumerate().fold(" => ".verif_enum_fold("
//@ sub "mid_final.into_iter().enumerate()" => "verif_enumerate(mid_final).into_iter()"
//@ sub "let mut inner = vec![];" => "let mut inner: Vec<Tag> = vec![];"
//@ ret r
//@ closure at="|v: Vec<Vec<u8>>| -> Result<Vec<Vec<u8>>, ()>" params="v: Vec<Vec<u8>>" ret="(gr: core::result::Result<Vec<Vec<u8>>, ()>)"
            ensures gr is Err <==> empty_before_last(vv(v@)), gr matches Ok(w) ==> w == v, //# C08.adjacent_asterisks_are_rejected_and_nothing_else
//@ insert entry
    let ghost i0 = i@;
    proof { lemma_lits(); }
//@ insert after "let (i, attr) ="
    let ghost i1 = i@;
    let ghost n = lx_attrdesc(i0)->0;
//@ insert after "let (i, _) ="
    let ghost i2 = i@;
//@ insert after "let (i, initial) ="
    let ghost i3 = i@;
    let ghost d = lx_unescaped(i2)->0;
    proof {
        assert(i2 == i1.skip(1));
        assert(i3 == i2.skip(d.0));
        // what the anonymous element parser of many0 satisfies, and what follows for every result of many0 over it
        assert(wit(den_star()));
        assert forall|ii: &'a [u8], rr: IResult<&'a [u8], Seq<Vec<u8>>>| #[trigger] m0_res(den_star(), ii, rr) implies stars_rel(rr, ii, d_stars(ii@)) by { lemma_stars(ii, rr); }
    }
//@ insert after "    )(i)?;"
    let ghost y = d_stars(i3)->0;
    let ghost parts = y.1;
    proof {
        assert(vv(mid_final@) == parts);
        assert(!empty_before_last(parts));
        assert(i@ =~= i0.skip(n + 1 + d.0 + y.0));
    }
//@ insert before-let n
        proof {
            if d.1.len() == 0 { assert(trees(inner@, inner@.len()) =~= Seq::<T>::empty()); }
            else { tree_lemmas::lemma_trees1(inner@, 1); assert(trees(inner@, inner@.len()) =~= seq![t_ctx_p(0, d.1)]); }
        }
//@ insert after-let n
        let ghost pre = trees(inner@, inner@.len());
        let ghost mut done = false;
//@ loop 1 iter=it
            invariant_except_break
                !done,
            invariant
                n == parts.len(), it.seq().len() == n,
                forall|j: int| 0 <= j < n ==> (#[trigger] it.seq()[j]).0 == j && it.seq()[j].1@ == parts[j],
                !empty_before_last(parts),
                !done ==> trees(inner@, inner@.len()) == pre + sub_pieces(parts, it.index@ as nat), //# C08.inv_substring_pieces_so_far_any_then_final
                done ==> trees(inner@, inner@.len()) == pre + sub_pieces(parts, n as nat),
            ensures
                trees(inner@, inner@.len()) == pre + sub_pieces(parts, n as nat),
//@ insert loop-start 1
            let ghost old_inner = inner@;
//@ insert before "break;"
                proof {
                    done = true;
                    assert(parts[it.index@ as int].len() == 0);
                    assert(it.index@ == n - 1);
                    assert(sub_pieces(parts, n as nat) =~= sub_pieces(parts, (n - 1) as nat));
                }
//@ insert loop-end 1
            proof { lemma_trees_push(old_inner, inner@[inner@.len() - 1]); }
//@ insert before "Ok((i, tag))"
    proof {
        assert(attr@ == i0.take(n));
        assert(mid_final@.len() == parts.len());
        if parts.len() == 0 { tree_lemmas::lemma_trees2(tag->Sequence_0.inner@, 2); }
        else if d.1.len() == 0 && parts.len() == 1 && parts[0].len() == 0 { assert(mid_final@[0]@ == parts[0]); }
        else { assert(mid_final@[0]@ == parts[0]); assert(tag is Sequence); tree_lemmas::lemma_trees2(tag->Sequence_0.inner@, 2); }
        assert(tree(tag) == eq_tree(i0.take(n), d.1, parts)); //# C08.equality_presence_substring_discrimination_and_initial_any_final_placement
    }
//@ spec
    ensures denotes(r, i, d_eq(i@)), //# C08.equality_presence_and_substring_items_denote_rfc4515
//@end

//@lift name=item file=src/filter.rs fn=item
//@ sub "fn item(i: &[u8])" => "fn item<'a>(i: &'a [u8])"
//@ sub "IResult<&[u8], Tag>" => "IResult<&'a [u8], Tag>"
//@ ret r
//@ spec
    ensures denotes(r, i, d_item(i@)), //# C08.item_is_equality_family_then_ordering_then_extensible
//@end

//@lift name=and file=src/filter.rs fn=and
//@ rules +R11
//@ sub "fn and(i: &[u8])" => "fn and<'a>(i: &'a [u8])"
//@ sub "IResult<&[u8], Tag>" => "IResult<&'a [u8], Tag>"
//@ ret r
//@ insert entry
    proof { lemma_lits(); }
//@ closure at="|tagv: Vec<Tag>| -> Tag" params="tagv: Vec<Tag>" ret="(t: Tag)"
        ensures tree(t) == t_ctx_c(0, trees(tagv@, tagv@.len())) //# C08.and_is_context_0_set_of_the_listed_filters
//@ tail whole
    proof {
        if d_and(i@) is Some { assert(i@.skip(1).skip((d_filterlist(i@.skip(1))->0).0) =~= i@.skip(1 + (d_filterlist(i@.skip(1))->0).0)); }
    }
//@ spec
    ensures denotes(r, i, d_and(i@)), //# C08.and_denotes_rfc4515
//@end

//@lift name=or file=src/filter.rs fn=or
//@ rules +R11
//@ sub "fn or(i: &[u8])" => "fn or<'a>(i: &'a [u8])"
//@ sub "IResult<&[u8], Tag>" => "IResult<&'a [u8], Tag>"
//@ ret r
//@ insert entry
    proof { lemma_lits(); }
//@ closure at="|tagv: Vec<Tag>| -> Tag" params="tagv: Vec<Tag>" ret="(t: Tag)"
        ensures tree(t) == t_ctx_c(1, trees(tagv@, tagv@.len())) //# C08.or_is_context_1_set_of_the_listed_filters
//@ tail whole
    proof {
        if d_or(i@) is Some { assert(i@.skip(1).skip((d_filterlist(i@.skip(1))->0).0) =~= i@.skip(1 + (d_filterlist(i@.skip(1))->0).0)); }
    }
//@ spec
    ensures denotes(r, i, d_or(i@)), //# C08.or_denotes_rfc4515
//@end

//@lift name=not file=src/filter.rs fn=not
//@ rules +R11
//@ sub "fn not(i: &[u8])" => "fn not<'a>(i: &'a [u8])"
//@ sub "IResult<&[u8], Tag>" => "IResult<&'a [u8], Tag>"
//@ ret r
//@ insert entry
    proof { lemma_lits(); }
//@ closure at="|tag: Tag| -> Tag" params="tag: Tag" ret="(t: Tag)"
        ensures tree(t) == t_ctx_c(2, seq![tree(tag)]) //# C08.not_is_context_2_wrapping_the_negated_filter
//@ tail whole
    proof {
        if d_not(i@) is Some { assert(i@.skip(1).skip((d_filter(i@.skip(1))->0).0) =~= i@.skip(1 + (d_filter(i@.skip(1))->0).0)); }
    }
//@ spec
    ensures denotes(r, i, d_not(i@)), //# C08.not_denotes_rfc4515
//@end

//@lift name=filterlist file=src/filter.rs fn=filterlist
//@ sub "fn filterlist(i: &[u8])" => "fn filterlist<'a>(i: &'a [u8])"
//@ sub "IResult<&[u8], Vec<Tag>>" => "IResult<&'a [u8], Vec<Tag>>"
//@ ret r
//@ tail whole
    proof {
        assert(wit(den_filter()));   // instantiates many0's contract with the relation that `filter` satisfies
        lemma_many0_filter(i, viewed(verif_ret));
    }
//@ spec
    ensures denotes_list(r, i, d_filterlist(i@)), //# C08.filterlist_is_every_following_parenthesised_filter_in_order
//@end

//@lift name=filtercomp file=src/filter.rs fn=filtercomp
//@ sub "fn filtercomp(i: &[u8])" => "fn filtercomp<'a>(i: &'a [u8])"
//@ sub "IResult<&[u8], Tag>" => "IResult<&'a [u8], Tag>"
//@ ret r
//@ insert entry
    proof { lemma_alternatives_disjoint(i@); }   // the order of the (disjoint) alternatives does not matter
//@ spec
    ensures denotes(r, i, d_filtercomp(i@)), //# C08.filtercomp_is_one_of_and_or_not_item
//@end

//@lift name=filtexpr file=src/filter.rs fn=filtexpr
//@ sub "fn filtexpr(i: &[u8])" => "fn filtexpr<'a>(i: &'a [u8])"
//@ sub "IResult<&[u8], Tag>" => "IResult<&'a [u8], Tag>"
//@ ret r
//@ insert entry
    proof { lemma_alternatives_disjoint(i@); }   // the order of the (disjoint) alternatives does not matter
//@ spec
    ensures denotes(r, i, d_filtexpr(i@)), //# C08.filter_expression_is_a_parenthesised_filter_or_a_bare_item
//@end

pub struct Unit0 { }
//@lift name=parse file=src/filter.rs fn=parse
//@ sub "input: impl AsRef<[u8]>" => "input: &[u8]"
//@ sub "input.as_ref()" => "input"
//@ sub "Result<Tag, ()>" => "core::result::Result<Tag, ()>"
//@ ret res
//@ spec
    ensures
        match d_filtexpr(input@) {
            Some(x) => if x.0 == input@.len() { res matches Ok(t) && tree(t) == x.1 } else { res is Err },
            None => res is Err,
        }, //# C08.parse_accepts_exactly_a_whole_input_filter_expression_and_returns_its_tree
//@end

// ---- matched-values filter (RFC 3876), used by the MatchedValues control (C19)
//@lift name=mv_filteritems file=src/filter.rs fn=mv_filteritems
//@ rules +R11
//@ sub "fn mv_filteritems(i: &[u8])" => "fn mv_filteritems<'a>(i: &'a [u8])"
//@ sub "IResult<&[u8], Vec<Tag>>" => "IResult<&'a [u8], Vec<Tag>>"
//@ ret r
//@ insert entry
    proof { lemma_lits(); assert(wit(den_mv_item())); }
//@ tail whole
    proof { lemma_mv_items(i, viewed(verif_ret)); }
//@ spec
    ensures denotes_list(r, i, d_mv_items(i@)), //# C08+C19.matched_values_items_are_one_or_more_parenthesised_items_in_order
//@end

//@lift name=mv_filterlist file=src/filter.rs fn=mv_filterlist
//@ sub "fn mv_filterlist(i: &[u8])" => "fn mv_filterlist<'a>(i: &'a [u8])"
//@ sub "IResult<&[u8], Tag>" => "IResult<&'a [u8], Tag>"
//@ ret r
//@ closure at="|tagv: Vec<Tag>| -> Tag" params="tagv: Vec<Tag>" ret="(t: Tag)"
        ensures tree(t) == t_seq(trees(tagv@, tagv@.len())) //# C08+C19.matched_values_filter_is_a_universal_sequence_of_the_items
//@ spec
    ensures denotes(r, i, d_mv_filterlist(i@)),
//@end

//@lift name=mv_filtexpr file=src/filter.rs fn=mv_filtexpr
//@ rules +R11
//@ sub "fn mv_filtexpr(i: &[u8])" => "fn mv_filtexpr<'a>(i: &'a [u8])"
//@ sub "IResult<&[u8], Tag>" => "IResult<&'a [u8], Tag>"
//@ ret r
//@ insert entry
    proof { lemma_lits(); }
//@ tail whole
    proof {
        if d_mv_filtexpr(i@) is Some { assert(i@.skip(1).skip((d_mv_filterlist(i@.skip(1))->0).0).skip(1) =~= i@.skip(1 + (d_mv_filterlist(i@.skip(1))->0).0 + 1)); }
    }
//@ spec
    ensures denotes(r, i, d_mv_filtexpr(i@)), //# C08+C19.matched_values_expression_denotes_rfc3876
//@end

//@lift name=parse_matched_values file=src/filter.rs fn=parse_matched_values
//@ sub "input: impl AsRef<[u8]>" => "input: &[u8]"
//@ sub "input.as_ref()" => "input"
//@ sub "Result<Tag, ()>" => "core::result::Result<Tag, ()>"
//@ ret res
//@ spec
    ensures
        match d_mv_filtexpr(input@) {
            Some(x) => if x.0 == input@.len() { res matches Ok(t) && tree(t) == x.1 } else { res is Err },
            None => res is Err,
        }, //# C08+C19.parse_matched_values_accepts_exactly_a_whole_input_expression_and_returns_its_tree
//@end

// ================================================================== C09: escaped text is inert (theorems over the contracts above)
// RFC 4515 section 3 escaping as a function: what ldap_escape is checked against (KX-escape: ldap_escape(v) == esc(v) on the
// real code, bounded Kani; the loop itself is `for (i, &c) in ..enumerate()` over a Cow<str>, outside this Verus)
//@include contracts/shared/esc_spec.rs
// (the escape functions themselves, with their nested character-class helpers, are under contract in unit V-escape)
pub proof fn lemma_scan_step(i: Seq<u8>, st: Unescaper, acc: Seq<u8>)
    requires i.len() > 0, value_char(i[0]),
    ensures ({ let st2 = feed_spec(st, i[0]); let acc2 = if st2 is Value { acc.push(st2->Value_0) } else { acc }; let r = scan(i.skip(1), st2, acc2); scan(i, st, acc) == (1 + r.0, r.1, r.2) }),
{ }
// one (escaped) byte at the front of the input, un-escaper in a Value state: consumed entirely, yields that byte
pub proof fn lemma_scan_esc_byte(b: u8, rest: Seq<u8>, x: u8, acc: Seq<u8>)
    ensures ({ let r = scan(rest, Unescaper::Value(b), acc.push(b)); scan(esc_byte(b) + rest, Unescaper::Value(x), acc) == (esc_byte(b).len() + r.0, r.1, r.2) }),
{
    let i = esc_byte(b) + rest;
    if special(b) {
        let h1 = hexdig(b as int / 16); let h2 = hexdig(b as int % 16);
        assert(i[0] == 0x5c && i[1] == h1 && i[2] == h2);
        assert(hexval(h1) == Some((b as int / 16) as u8) && hexval(h2) == Some((b as int % 16) as u8));
        lemma_scan_step(i, Unescaper::Value(x), acc);
        let i1 = i.skip(1);
        assert(i1[0] == h1);
        lemma_scan_step(i1, Unescaper::WantFirst, acc);
        let i2 = i1.skip(1);
        assert(i2[0] == h2);
        lemma_scan_step(i2, Unescaper::WantSecond((b as int / 16) as u8), acc);
        assert(i2.skip(1) =~= rest);
        assert(((b as int / 16) * 16 + (b as int % 16)) == b as int);
    } else {
        assert(i[0] == b);
        lemma_scan_step(i, Unescaper::Value(x), acc);
        assert(i.skip(1) =~= rest);
    }
}
pub proof fn lemma_scan_esc(v: Seq<u8>, rest: Seq<u8>, x: u8, acc: Seq<u8>)
    requires rest.len() == 0 || !value_char(rest[0]),
    ensures ({ let r = scan(esc(v) + rest, Unescaper::Value(x), acc); r.0 == esc(v).len() && r.1 is Value && r.2 == acc + v }),
    decreases v.len(),
{
    if v.len() == 0 {
        assert(esc(v) + rest =~= rest);
        assert(acc + v =~= acc);
    } else {
        let b = v[0];
        assert(esc(v) + rest =~= esc_byte(b) + (esc(v.skip(1)) + rest));
        lemma_scan_esc_byte(b, esc(v.skip(1)) + rest, x, acc);
        lemma_scan_esc(v.skip(1), rest, b, acc.push(b));
        assert(acc.push(b) + v.skip(1) =~= acc + v);
    }
}
// the value lexer reads esc(v) back as exactly v and stops right after it (for EVERY byte string v)
pub proof fn theorem_escaped_value_is_inert(v: Seq<u8>, rest: Seq<u8>)
    requires rest.len() == 0 || !value_char(rest[0]),
    ensures lx_unescaped(esc(v) + rest) == Some((esc(v).len() as int, v)), //# C09.escaped_value_is_read_back_byte_for_byte_and_ends_where_it_ends
{
    reveal(lx_unescaped);
    lemma_scan_esc(v, rest, 0, Seq::<u8>::empty());
    assert(Seq::<u8>::empty() + v =~= v);
}
// in an equality item: whatever the attribute, `attr=` esc(v) `)` is equalityMatch(attr, v) -- no presence, no substring,
// nothing of v is taken for filter syntax
pub proof fn theorem_escaped_value_in_equality_item(i: Seq<u8>, v: Seq<u8>, rest: Seq<u8>)
    requires
        lx_attrdesc(i) is Some, 0 <= lx_attrdesc(i)->0 <= i.len(),
        i.skip(lx_attrdesc(i)->0) == s_eq() + esc(v) + rest,
        rest.len() == 0 || rest[0] == 0x29,
    ensures d_eq(i) == Some((lx_attrdesc(i)->0 + 1 + esc(v).len(), t_ctx_c(3, seq![t_os(i.take(lx_attrdesc(i)->0)), t_os(v)]))), //# C09.escaped_value_in_an_equality_item_gives_equality_match_with_exactly_that_value
{
    let n = lx_attrdesc(i)->0;
    let j = i.skip(n);
    assert(j.subrange(0, 1) =~= s_eq());
    assert(j.skip(1) =~= esc(v) + rest);
    theorem_escaped_value_is_inert(v, rest);
    let k = esc(v).len() as int;
    assert(j.skip(1).skip(k) =~= rest);
    // no asterisk follows: the list of star-pieces is empty
    if rest.len() > 0 { assert(rest.subrange(0, 1)[0] == rest[0]); }
    assert(d_stars(rest) == Some((0int, Seq::<Seq<u8>>::empty())));
    assert(!empty_before_last(Seq::<Seq<u8>>::empty()));
}
//@canary-begin
// must FAIL: the theorems' hypotheses are satisfiable and `false` does not follow from them
pub proof fn theorems_not_vacuous__canary()
    ensures false
{
    let v = seq![0x2au8];
    theorem_escaped_value_is_inert(v, Seq::<u8>::empty());
}
//@canary-end

} // verus!
fn main() {}
