// Unit V-filter: the productions of the filter grammar in src/filter.rs (the nom parser-combinator code itself, lifted),
// against a denotational transcription of RFC 4515 section 3 / RFC 4511 4.5.1 (contracts/V-filter/prelude.rs): for every
// input, each production's result is the value of a spec function of the input bytes (consumed length and BER tree), or
// an error when that is None.
//
// nom's combinators are external functions with relational contracts over the argument parsers' own contracts
// (`p.ensures`); byte-string literals are rewritten by lifter rule R11 into array literals of the same bytes.  The three
// lexers (attributedescription, attributetype, unescaped) are assumed to be functions of the input that consume a prefix
// (uninterpreted lx_*); their bounded behaviour is checked by Kani (KX-escape filter leaves).
// The grammar is recursive through `filter`; Verus does not take a function of a recursive cycle as a first-class value,
// so `filter` is an assumed contract HERE and is proved against the same contract text in unit V-filter-rec (where its
// callee `filtercomp` is the assumed one).  Partial correctness: termination/stack depth of nested filters is not claimed.
// Serves C08.
use vstd::prelude::*;
use vstd::string::*;
verus! {

//@include contracts/shared/lber_types.rs
//@include contracts/shared/tree_spec.rs
//@include contracts/shared/std_specs.rs
//@include contracts/V-filter/prelude.rs

// proved in V-filter-rec: C08.parenthesised_filter_denotes_rfc4515
#[verifier::external_body]
fn filter<'a>(i: &'a [u8]) -> (r: IResult<&'a [u8], Tag>) ensures denotes(r, i, d_filter(i@)) { unimplemented!() }


//@lift name=non_eq file=src/filter.rs fn=non_eq
//@ rules +R11
//@ sub "fn non_eq(i: &[u8])" => "fn non_eq<'a>(i: &'a [u8])"
//@ sub "IResult<&[u8], Tag>" => "IResult<&'a [u8], Tag>"
//@ ret r
//@ sub "tag(\"~=\")" => "tag(&[126u8, 61u8])"
//@ insert entry
    let ghost i0 = i@;
    proof { lemma_lits(); }
//@ insert after "let (i, attr) ="
    let ghost i1 = i@;
    let ghost n = lx_attrdesc(i0)->0;
//@ insert after "let (i, filterop) ="
    let ghost i2 = i@;
    proof { assert(i2 =~= i1.skip(2)); }
//@ insert after "let (i, value) ="
    proof { assert(i@ =~= i0.skip(n + 2 + (lx_unescaped(i2)->0).0)); }
//@ insert before "Ok((i, tag))"
    proof { tree_lemmas::lemma_trees2(tag->Sequence_0.inner@, 2); }
//@ spec
    ensures denotes(r, i, d_non_eq(i@)), //# C08.ordering_and_approx_items_denote_rfc4515_simple
//@end

//@lift name=attr_dn_mrule file=src/filter.rs fn=attr_dn_mrule
//@ rules +R11
//@ sub "fn attr_dn_mrule(i: &[u8])" => "fn attr_dn_mrule<'a>(i: &'a [u8])"
//@ sub "IResult<&[u8], Tag>" => "IResult<&'a [u8], Tag>"
//@ ret r
//@ insert entry
    let ghost i0 = i@;
    proof { lemma_lits(); }
//@ insert after "let (i, attr) ="
    let ghost i1 = i@;
    let ghost n = lx_attrdesc(i0)->0;
//@ insert after "let (i, dn) ="
    let ghost i2 = i@;
    let ghost n1 = if starts_with(i1, s_dn()) { 3int } else { 0int };
    proof { assert(i2 == i1.skip(n1)); }
//@ insert after "let (i, mrule) ="
    let ghost i3 = i@;
    let ghost rule: Option<int> = if starts_with(i2, s_colon()) { lx_attrtype(i2.skip(1)) } else { None };
    let ghost n2 = match rule { Some(m) => 1 + m, None => 0int };
    proof {
        assert(i3 =~= i2.skip(n2));
        assert(mrule is Some == rule is Some);
        if rule is Some { assert(mrule->0@ =~= i2.subrange(1, 1 + rule->0)); }
    }
//@ insert after "let (i, _) ="
    let ghost i4 = i@;
//@ insert after "let (i, value) ="
    proof {
        assert(i4 =~= i3.skip(2));
        assert(i@ =~= i0.skip(n + n1 + n2 + 2 + (lx_unescaped(i4)->0).0));
    }
//@ spec
    ensures denotes(r, i, d_attr_dn_mrule(i@)), //# C08.extensible_item_with_attribute_denotes_rfc4515
//@end

//@lift name=dn_mrule file=src/filter.rs fn=dn_mrule
//@ rules +R11
//@ sub "fn dn_mrule(i: &[u8])" => "fn dn_mrule<'a>(i: &'a [u8])"
//@ sub "IResult<&[u8], Tag>" => "IResult<&'a [u8], Tag>"
//@ ret r
//@ insert entry
    let ghost i0 = i@;
    proof { lemma_lits(); }
//@ insert after "let (i, dn) ="
    let ghost i1 = i@;
    let ghost n1 = if starts_with(i0, s_dn()) { 3int } else { 0int };
    proof { assert(i1 == i0.skip(n1)); }
//@ insert after "let (i, mrule) ="
    let ghost i2 = i@;
    let ghost m = lx_attrtype(i1.skip(1))->0;
    proof { assert(i2 =~= i1.skip(1 + m)); assert(mrule@ =~= i1.subrange(1, 1 + m)); }
//@ insert after "let (i, _) ="
    let ghost i3 = i@;
//@ insert after "let (i, value) ="
    proof {
        assert(i3 =~= i2.skip(2));
        assert(i@ =~= i0.skip(n1 + 1 + m + 2 + (lx_unescaped(i3)->0).0));
    }
//@ spec
    ensures denotes(r, i, d_dn_mrule(i@)), //# C08.extensible_item_without_attribute_denotes_rfc4515
//@end

//@lift name=extensible file=src/filter.rs fn=extensible
//@ sub "fn extensible(i: &[u8])" => "fn extensible<'a>(i: &'a [u8])"
//@ sub "IResult<&[u8], Tag>" => "IResult<&'a [u8], Tag>"
//@ ret r
//@ spec
    ensures denotes(r, i, d_extensible(i@)), //# C08.extensible_item_is_the_ordered_choice_of_its_two_forms
//@end

//@lift name=eq file=src/filter.rs fn=eq
//@ rules +R11
//@ sub "fn eq(i: &[u8])" => "fn eq<'a>(i: &'a [u8])"
//@ sub "IResult<&[u8], Tag>" => "IResult<&'a [u8], Tag>"
//@ sub "v.iter().enumerate().fold(false, |acc, (n, ve)| {\n                acc || ve.is_empty() && n + 1 != v.len()\n            })" => "verif_any_empty_before_last(&v)"
//@ sub "mid_final.into_iter().enumerate()" => "verif_enumerate(mid_final).into_iter()"
//@ sub "let mut inner = vec![];" => "let mut inner: Vec<Tag> = vec![];"
//@ ret r
//@ closure at="|v: Vec<Vec<u8>>| -> Result<Vec<Vec<u8>>, ()>" params="v: Vec<Vec<u8>>" ret="(gr: core::result::Result<Vec<Vec<u8>>, ()>)"
            ensures gr is Err <==> empty_before_last(vv(v@)), gr matches Ok(w) ==> w == v, //# C08.adjacent_asterisks_are_rejected_and_nothing_else
//@ insert entry
    let ghost i0 = i@;
    proof { lemma_lits(); }
//@ insert after "let (i, attr) ="
    let ghost i1 = i@;
    let ghost n = lx_attrdesc(i0)->0;
//@ insert after "let (i, _) ="
    let ghost i2 = i@;
//@ insert after "let (i, initial) ="
    let ghost i3 = i@;
    let ghost d = lx_unescaped(i2)->0;
    proof {
        assert(i2 == i1.skip(1));
        assert(i3 == i2.skip(d.0));
        // what the anonymous element parser of many0 satisfies, and what follows for every result of many0 over it
        assert(wit(den_star()));
        assert forall|ii: &'a [u8], rr: IResult<&'a [u8], Seq<Vec<u8>>>| #[trigger] m0_res(den_star(), ii, rr) implies stars_rel(rr, ii, d_stars(ii@)) by { lemma_stars(ii, rr); }
    }
//@ insert after "    )(i)?;"
    let ghost y = d_stars(i3)->0;
    let ghost parts = y.1;
    proof {
        assert(vv(mid_final@) == parts);
        assert(!empty_before_last(parts));
        assert(i@ =~= i0.skip(n + 1 + d.0 + y.0));
    }
//@ insert before "let n = mid_final.len();"
        proof {
            if d.1.len() == 0 { assert(trees(inner@, inner@.len()) =~= Seq::<T>::empty()); }
            else { tree_lemmas::lemma_trees1(inner@, 1); assert(trees(inner@, inner@.len()) =~= seq![t_ctx_p(0, d.1)]); }
        }
//@ insert after "let n = mid_final.len();"
        let ghost pre = trees(inner@, inner@.len());
        let ghost mut done = false;
//@ loop 1 iter=it
            invariant_except_break
                !done,
            invariant
                n == parts.len(), it.seq().len() == n,
                forall|j: int| 0 <= j < n ==> (#[trigger] it.seq()[j]).0 == j && it.seq()[j].1@ == parts[j],
                !empty_before_last(parts),
                !done ==> trees(inner@, inner@.len()) == pre + sub_pieces(parts, it.index@ as nat), //# C08.inv_substring_pieces_so_far_any_then_final
                done ==> trees(inner@, inner@.len()) == pre + sub_pieces(parts, n as nat),
            ensures
                trees(inner@, inner@.len()) == pre + sub_pieces(parts, n as nat),
//@ insert loop-start 1
            let ghost old_inner = inner@;
//@ insert before "break;"
                proof {
                    done = true;
                    assert(parts[it.index@ as int].len() == 0);
                    assert(it.index@ == n - 1);
                    assert(sub_pieces(parts, n as nat) =~= sub_pieces(parts, (n - 1) as nat));
                }
//@ insert loop-end 1
            proof { lemma_trees_push(old_inner, inner@[inner@.len() - 1]); }
//@ insert before "Ok((i, tag))"
    proof {
        assert(attr@ == i0.take(n));
        assert(mid_final@.len() == parts.len());
        if parts.len() == 0 { tree_lemmas::lemma_trees2(tag->Sequence_0.inner@, 2); }
        else if d.1.len() == 0 && parts.len() == 1 && parts[0].len() == 0 { assert(mid_final@[0]@ == parts[0]); }
        else { assert(mid_final@[0]@ == parts[0]); assert(tag is Sequence); tree_lemmas::lemma_trees2(tag->Sequence_0.inner@, 2); }
        assert(tree(tag) == eq_tree(i0.take(n), d.1, parts)); //# C08.equality_presence_substring_discrimination_and_initial_any_final_placement
    }
//@ spec
    ensures denotes(r, i, d_eq(i@)), //# C08.equality_presence_and_substring_items_denote_rfc4515
//@end

//@lift name=item file=src/filter.rs fn=item
//@ sub "fn item(i: &[u8])" => "fn item<'a>(i: &'a [u8])"
//@ sub "IResult<&[u8], Tag>" => "IResult<&'a [u8], Tag>"
//@ ret r
//@ spec
    ensures denotes(r, i, d_item(i@)), //# C08.item_is_equality_family_then_ordering_then_extensible
//@end

//@lift name=and file=src/filter.rs fn=and
//@ rules +R11
//@ sub "fn and(i: &[u8])" => "fn and<'a>(i: &'a [u8])"
//@ sub "IResult<&[u8], Tag>" => "IResult<&'a [u8], Tag>"
//@ ret r
//@ insert entry
    proof { lemma_lits(); }
//@ closure at="|tagv: Vec<Tag>| -> Tag" params="tagv: Vec<Tag>" ret="(t: Tag)"
        ensures tree(t) == t_ctx_c(0, trees(tagv@, tagv@.len())) //# C08.and_is_context_0_set_of_the_listed_filters
//@ tail whole
    proof {
        if d_and(i@) is Some { assert(i@.skip(1).skip((d_filterlist(i@.skip(1))->0).0) =~= i@.skip(1 + (d_filterlist(i@.skip(1))->0).0)); }
    }
//@ spec
    ensures denotes(r, i, d_and(i@)), //# C08.and_denotes_rfc4515
//@end

//@lift name=or file=src/filter.rs fn=or
//@ rules +R11
//@ sub "fn or(i: &[u8])" => "fn or<'a>(i: &'a [u8])"
//@ sub "IResult<&[u8], Tag>" => "IResult<&'a [u8], Tag>"
//@ ret r
//@ insert entry
    proof { lemma_lits(); }
//@ closure at="|tagv: Vec<Tag>| -> Tag" params="tagv: Vec<Tag>" ret="(t: Tag)"
        ensures tree(t) == t_ctx_c(1, trees(tagv@, tagv@.len())) //# C08.or_is_context_1_set_of_the_listed_filters
//@ tail whole
    proof {
        if d_or(i@) is Some { assert(i@.skip(1).skip((d_filterlist(i@.skip(1))->0).0) =~= i@.skip(1 + (d_filterlist(i@.skip(1))->0).0)); }
    }
//@ spec
    ensures denotes(r, i, d_or(i@)), //# C08.or_denotes_rfc4515
//@end

//@lift name=not file=src/filter.rs fn=not
//@ rules +R11
//@ sub "fn not(i: &[u8])" => "fn not<'a>(i: &'a [u8])"
//@ sub "IResult<&[u8], Tag>" => "IResult<&'a [u8], Tag>"
//@ ret r
//@ insert entry
    proof { lemma_lits(); }
//@ closure at="|tag: Tag| -> Tag" params="tag: Tag" ret="(t: Tag)"
        ensures tree(t) == t_ctx_c(2, seq![tree(tag)]) //# C08.not_is_context_2_wrapping_the_negated_filter
//@ tail whole
    proof {
        if d_not(i@) is Some { assert(i@.skip(1).skip((d_filter(i@.skip(1))->0).0) =~= i@.skip(1 + (d_filter(i@.skip(1))->0).0)); }
    }
//@ spec
    ensures denotes(r, i, d_not(i@)), //# C08.not_denotes_rfc4515
//@end

//@lift name=filterlist file=src/filter.rs fn=filterlist
//@ sub "fn filterlist(i: &[u8])" => "fn filterlist<'a>(i: &'a [u8])"
//@ sub "IResult<&[u8], Vec<Tag>>" => "IResult<&'a [u8], Vec<Tag>>"
//@ ret r
//@ tail whole
    proof {
        assert(wit(den_filter()));   // instantiates many0's contract with the relation that `filter` satisfies
        lemma_many0_filter(i, viewed(verif_ret));
    }
//@ spec
    ensures denotes_list(r, i, d_filterlist(i@)), //# C08.filterlist_is_every_following_parenthesised_filter_in_order
//@end

//@lift name=filtercomp file=src/filter.rs fn=filtercomp
//@ sub "fn filtercomp(i: &[u8])" => "fn filtercomp<'a>(i: &'a [u8])"
//@ sub "IResult<&[u8], Tag>" => "IResult<&'a [u8], Tag>"
//@ ret r
//@ spec
    ensures denotes(r, i, d_filtercomp(i@)), //# C08.filtercomp_is_and_or_not_item_in_that_order
//@end

//@lift name=filtexpr file=src/filter.rs fn=filtexpr
//@ sub "fn filtexpr(i: &[u8])" => "fn filtexpr<'a>(i: &'a [u8])"
//@ sub "IResult<&[u8], Tag>" => "IResult<&'a [u8], Tag>"
//@ ret r
//@ spec
    ensures denotes(r, i, d_filtexpr(i@)), //# C08.filter_expression_is_a_parenthesised_filter_or_a_bare_item
//@end

pub struct Unit0 { }
//@lift name=parse file=src/filter.rs fn=parse
//@ sub "input: impl AsRef<[u8]>" => "input: &[u8]"
//@ sub "input.as_ref()" => "input"
//@ sub "Result<Tag, ()>" => "core::result::Result<Tag, ()>"
//@ ret res
//@ spec
    ensures
        match d_filtexpr(input@) {
            Some(x) => if x.0 == input@.len() { res matches Ok(t) && tree(t) == x.1 } else { res is Err },
            None => res is Err,
        }, //# C08.parse_accepts_exactly_a_whole_input_filter_expression_and_returns_its_tree
//@end

// ---- matched-values filter (RFC 3876), used by the MatchedValues control (C19)
//@lift name=mv_filteritems file=src/filter.rs fn=mv_filteritems
//@ rules +R11
//@ sub "fn mv_filteritems(i: &[u8])" => "fn mv_filteritems<'a>(i: &'a [u8])"
//@ sub "IResult<&[u8], Vec<Tag>>" => "IResult<&'a [u8], Vec<Tag>>"
//@ ret r
//@ insert entry
    proof { lemma_lits(); assert(wit(den_mv_item())); }
//@ tail whole
    proof { lemma_mv_items(i, viewed(verif_ret)); }
//@ spec
    ensures denotes_list(r, i, d_mv_items(i@)), //# C08+C19.matched_values_items_are_one_or_more_parenthesised_items_in_order
//@end

//@lift name=mv_filterlist file=src/filter.rs fn=mv_filterlist
//@ sub "fn mv_filterlist(i: &[u8])" => "fn mv_filterlist<'a>(i: &'a [u8])"
//@ sub "IResult<&[u8], Tag>" => "IResult<&'a [u8], Tag>"
//@ ret r
//@ closure at="|tagv: Vec<Tag>| -> Tag" params="tagv: Vec<Tag>" ret="(t: Tag)"
        ensures tree(t) == t_seq(trees(tagv@, tagv@.len())) //# C08+C19.matched_values_filter_is_a_universal_sequence_of_the_items
//@ spec
    ensures denotes(r, i, d_mv_filterlist(i@)),
//@end

//@lift name=mv_filtexpr file=src/filter.rs fn=mv_filtexpr
//@ rules +R11
//@ sub "fn mv_filtexpr(i: &[u8])" => "fn mv_filtexpr<'a>(i: &'a [u8])"
//@ sub "IResult<&[u8], Tag>" => "IResult<&'a [u8], Tag>"
//@ ret r
//@ insert entry
    proof { lemma_lits(); }
//@ tail whole
    proof {
        if d_mv_filtexpr(i@) is Some { assert(i@.skip(1).skip((d_mv_filterlist(i@.skip(1))->0).0).skip(1) =~= i@.skip(1 + (d_mv_filterlist(i@.skip(1))->0).0 + 1)); }
    }
//@ spec
    ensures denotes(r, i, d_mv_filtexpr(i@)), //# C08+C19.matched_values_expression_denotes_rfc3876
//@end

//@lift name=parse_matched_values file=src/filter.rs fn=parse_matched_values
//@ sub "input: impl AsRef<[u8]>" => "input: &[u8]"
//@ sub "input.as_ref()" => "input"
//@ sub "Result<Tag, ()>" => "core::result::Result<Tag, ()>"
//@ ret res
//@ spec
    ensures
        match d_mv_filtexpr(input@) {
            Some(x) => if x.0 == input@.len() { res matches Ok(t) && tree(t) == x.1 } else { res is Err },
            None => res is Err,
        }, //# C08+C19.parse_matched_values_accepts_exactly_a_whole_input_expression_and_returns_its_tree
//@end

} // verus!
fn main() {}
