// Unit V-stream: the SearchStream state machine (src/search.rs): next_inner, finish_inner and the
// start/next/finish shims that walk the adapter chain; ResultEntry::is_ref/is_intermediate; the EntriesOnly
// adapter (src/adapters.rs).  `async` is dropped and `.await` becomes `.verif_await()` on stub futures (R2):
// every suspension point returns *any* value allowed by the stub's contract, which over-approximates all
// schedules.  Serves C10, C12 (per-item timeout and scrub), C04 (closed channel -> EndOfStream), C13 (E5).
use vstd::prelude::*;
verus! {

//@include contracts/shared/await.rs

pub type RequestId = i32;
pub struct Control { pub x: u8 }
pub struct StructureTag { pub id: u64, pub payload: Vec<u8> }
pub struct LdapResult { pub rc: u32, pub matched: String, pub text: String, pub refs: Vec<String>, pub ctrls: Vec<Control> }
//@item file=src/search.rs kind=enum name=SearchItem
pub struct ResultEntry(pub StructureTag, pub Vec<Control>);
pub enum LdapError { EndOfStream, Timeout, IdScrubSend, OpSend, ResultRecv, FilterParsing, Other(u8) }
pub type Result<T> = core::result::Result<T, LdapError>;
//@item file=src/search.rs kind=enum name=StreamState derive="PartialEq, Eq, Clone, Copy, Structural"
#[derive(Clone, Copy)]
pub struct Duration { pub d: u64 }
pub struct Scope { pub s: u8 }
pub struct A { pub a: u8 }          // the attribute-list type parameter, passed through only

// ---- tokio mpsc receiver of (SearchItem, Vec<Control>) with a prophecy of the next item it yields
#[verifier::external_body]
pub struct ItemReceiver { _p: u8 }
pub struct RecvFut { pub val: Ghost<Option<(SearchItem, Vec<Control>)>> }
impl ItemReceiver {
    pub uninterp spec fn next_item(&self) -> Option<(SearchItem, Vec<Control>)>;
    #[verifier::external_body]
    pub fn recv(&mut self) -> (f: RecvFut) ensures f.val@ == old(self).next_item() { unimplemented!() }
}
impl RecvFut {
    #[verifier::external_body]
    pub fn verif_await(self) -> (r: Option<(SearchItem, Vec<Control>)>) ensures r == self.val@ { unimplemented!() }
}
// tokio::time::timeout(d, fut): Err(Elapsed) (converted to LdapError::Timeout by `?`) or the future's value
pub struct TimeoutFut { pub val: Ghost<Option<(SearchItem, Vec<Control>)>>, pub d: Duration }
impl TimeoutFut {
    #[verifier::external_body]
    pub fn verif_await(self) -> (r: core::result::Result<Option<(SearchItem, Vec<Control>)>, LdapError>)
        ensures r matches Err(e) ==> e is Timeout, r matches Ok(v) ==> v == self.val@
    { unimplemented!() }
}
pub struct time {}
impl time {
    #[verifier::external_body]
    pub fn timeout(d: Duration, f: RecvFut) -> (t: TimeoutFut) ensures t.val@ == f.val@, t.d == d { unimplemented!() }
}

// ---- id-scrub channel to the driver, with a ghost log of the ids sent
// `log` = ids that reached the driver's queue, `tried` = every id a send was attempted for (the send fails only when
// the driver is gone, in which case nothing is left to clean)
pub struct ScrubSender { pub log: Ghost<Seq<RequestId>>, pub tried: Ghost<Seq<RequestId>> }
impl ScrubSender {
    #[verifier::external_body]
    pub fn send(&mut self, id: RequestId) -> (r: core::result::Result<(), LdapError>)
        ensures final(self).tried@ == old(self).tried@.push(id),
                r is Ok ==> final(self).log@ == old(self).log@.push(id),
                r matches Err(e) ==> e is IdScrubSend && final(self).log@ == old(self).log@
    { unimplemented!() }
}
pub struct Ldap { pub last_id: RequestId, pub id_scrub_tx: ScrubSender, pub timeout: Option<Duration> }

// ---- adapter chain: Arc<Mutex<Box<dyn Adapter>>>; the Adapter trait's contract is an *assumption* on every
// adapter implementation: it gets the stream with `ax` advanced, may call back into start/next/finish any number
// of times, and must leave `ax` and the adapter vector as it found them.
pub struct AdapterArc { pub g: u8 }
pub struct AdapterBox { pub g: u8 }
// idiom: `adapters.into_iter().map(Mutex::new).map(Arc::new).collect()`: each adapter behind its own Arc<Mutex<..>>, same order
#[verifier::external_body]
pub fn verif_share_adapters(a: Vec<AdapterBox>) -> (r: Vec<AdapterArc>) ensures r@.len() == a@.len() { unimplemented!() }
pub struct LockFut { pub g: u8 }
pub struct AdapterGuard { pub g: u8 }
pub struct AdNextFut { pub r: Result<Option<ResultEntry>> }
pub struct AdStartFut { pub r: Result<()> }
pub struct AdFinishFut { pub r: LdapResult }
impl Clone for AdapterArc { fn clone(&self) -> AdapterArc { AdapterArc { g: self.g } } }
impl AdapterArc { #[verifier::external_body] pub fn lock(&self) -> LockFut { unimplemented!() } }
impl LockFut { #[verifier::external_body] pub fn verif_await(self) -> AdapterGuard { unimplemented!() } }
impl AdapterGuard {
    #[verifier::external_body]
    pub fn next(&mut self, stream: &mut SearchStream) -> (f: AdNextFut)
        requires old(stream).ax <= old(stream).adapters@.len(),
        ensures final(stream).ax == old(stream).ax, final(stream).adapters@ == old(stream).adapters@,
            f.r matches Ok(Some(_)) ==> final(stream).wf(),
    { unimplemented!() }
    #[verifier::external_body]
    pub fn start(&mut self, stream: &mut SearchStream, base: &str, scope: Scope, filter: &str, attrs: A) -> (f: AdStartFut)
        requires old(stream).ax <= old(stream).adapters@.len(),
        ensures final(stream).ax == old(stream).ax, final(stream).adapters@ == old(stream).adapters@,
            f.r is Ok ==> final(stream).wf(),
            final(stream).asked@ == old(stream).asked@.push(Asked { base: base@, scope: scope, filter: filter@, attrs: attrs }),
    { unimplemented!() }
    #[verifier::external_body]
    pub fn finish(&mut self, stream: &mut SearchStream) -> (f: AdFinishFut)
        requires old(stream).ax <= old(stream).adapters@.len(),
        ensures final(stream).ax == old(stream).ax, final(stream).adapters@ == old(stream).adapters@, final(stream).wf(),
    { unimplemented!() }
}
impl AdNextFut { #[verifier::external_body] pub fn verif_await(self) -> (r: Result<Option<ResultEntry>>) ensures r == self.r { unimplemented!() } }
impl AdStartFut { #[verifier::external_body] pub fn verif_await(self) -> (r: Result<()>) ensures r == self.r { unimplemented!() } }
impl AdFinishFut { #[verifier::external_body] pub fn verif_await(self) -> (r: LdapResult) ensures r == self.r { unimplemented!() } }

pub struct SearchStream {
    pub ldap: Ldap,
    pub rx: Option<ItemReceiver>,
    pub state: StreamState,
    pub adapters: Vec<AdapterArc>,
    pub ax: usize,
    pub timeout: Option<Duration>,
    pub res: Option<LdapResult>,
    // ghost: the search arguments this stream handed down, in order (to start_inner or to the next adapter's start)
    pub asked: Ghost<Seq<Asked>>,
}
pub struct Asked { pub base: Seq<char>, pub scope: Scope, pub filter: Seq<char>, pub attrs: A }

pub open spec fn cancelled(r: LdapResult) -> bool { r.rc == 88 && r.refs@.len() == 0 && r.ctrls@.len() == 0 }

impl SearchStream {
    // representation invariant at the API level: an Active stream has its receiver
    pub open spec fn wf(&self) -> bool {
        &&& (self.state == StreamState::Active ==> self.rx is Some)
        &&& self.ax <= self.adapters@.len()
    }
    pub open spec fn direct(&self) -> bool { self.adapters@.len() == 0 }

    // contract of start_inner (request construction + op_call); discharged on its own text in unit V-search (whole function)
    #[verifier::external_body]
    pub fn start_inner(&mut self, base: &str, scope: Scope, filter: &str, attrs: A) -> (r: Result<()>)
        ensures
            r is Ok ==> final(self).state == StreamState::Active && final(self).rx is Some,
            r is Err ==> final(self).state == old(self).state,
            final(self).ax == old(self).ax, final(self).adapters@ == old(self).adapters@,
            final(self).asked@ == old(self).asked@.push(Asked { base: base@, scope: scope, filter: filter@, attrs: attrs }),
    { unimplemented!() }

//@lift name=next_inner file=src/search.rs impl="impl<'a, S, A> SearchStream<'a, S, A>" fn=next_inner
//@ ret r
//@ spec
    requires old(self).rx is Some, //# C10+C11.next_inner_needs_receiver
    ensures
        final(self).state == old(self).state, final(self).ax == old(self).ax, final(self).adapters@ == old(self).adapters@,
        final(self).timeout == old(self).timeout, final(self).ldap.last_id == old(self).ldap.last_id,
        // exactly the item received, unchanged, with its controls (one recv per call => order preserved)
        r matches Ok(Some(e)) ==> (old(self).rx->0.next_item() matches Some(it) && it.1 == e.1
            && (it.0 == SearchItem::Entry(e.0) || it.0 == SearchItem::Referral(e.0))) && final(self).rx is Some
            && final(self).res == old(self).res, //# C10.entry_or_referral_delivered_unchanged
        r matches Ok(None) ==> (old(self).rx->0.next_item() matches Some(it) && (it.0 matches SearchItem::Done(res)
            && final(self).res matches Some(fr) && fr.rc == res.rc && fr.matched == res.matched && fr.text == res.text && fr.refs == res.refs
            && fr.ctrls == it.1)) && final(self).rx is None, //# C10.done_stores_final_result_with_its_controls
        (old(self).timeout is None && old(self).rx->0.next_item() is None) ==> (r matches Err(LdapError::EndOfStream)) && final(self).rx is None, //# C04.closed_item_channel_is_end_of_stream_error
        (old(self).timeout is None && old(self).rx->0.next_item() is Some) ==> r is Ok, //# C10.received_item_is_never_dropped
        // timeout: Elapsed => scrub of last_id sent, Err(Timeout)
        r matches Err(LdapError::Timeout) ==> old(self).timeout is Some
            && final(self).ldap.id_scrub_tx.log@ == old(self).ldap.id_scrub_tx.log@.push(old(self).ldap.last_id), //# C12+C13.item_timeout_sends_scrub_for_last_id
        !(r matches Err(LdapError::Timeout)) ==> final(self).ldap.id_scrub_tx.log@ == old(self).ldap.id_scrub_tx.log@, //# C12.no_scrub_without_timeout
//@end

//@lift name=finish_inner file=src/search.rs impl="impl<'a, S, A> SearchStream<'a, S, A>" fn=finish_inner
//@ ret r
//@ closure at="|| LdapResult {" ret="(c: LdapResult)"
            ensures cancelled(c)
//@ spec
    ensures
        final(self).state == StreamState::Closed, //# C10.finish_closes
        final(self).rx is None, final(self).res is None,
        final(self).ax == old(self).ax, final(self).adapters@ == old(self).adapters@,
        old(self).res matches Some(sr) ==> r == sr, //# C10.finish_returns_server_result_when_read_to_end
        old(self).res is None ==> cancelled(r), //# C10.finish_returns_cancelled_88_otherwise
        // E5: finishing before the end tells the driver to forget the id
        // E5: finishing before the end always tells the driver to forget the stream's current id
        old(self).state != StreamState::Done ==> final(self).ldap.id_scrub_tx.tried@ == old(self).ldap.id_scrub_tx.tried@.push(old(self).ldap.last_id), //# C13.E5_early_finish_scrubs_last_id
        old(self).state == StreamState::Done ==> final(self).ldap.id_scrub_tx.tried@ == old(self).ldap.id_scrub_tx.tried@, //# C13.no_scrub_after_done
//@end

//@lift name=start file=src/search.rs impl="impl<'a, S, A> SearchStream<'a, S, A>" fn=start
//@ ret r
//@ spec
    requires old(self).wf(),
    ensures
        final(self).ax == old(self).ax, final(self).adapters@ == old(self).adapters@,
        old(self).state != StreamState::Fresh ==> r is Ok && final(self).state == old(self).state && final(self).rx == old(self).rx, //# C10.start_is_noop_unless_fresh
        old(self).state == StreamState::Fresh && r is Err ==> final(self).state == StreamState::Error, //# C10.failed_start_is_error_state
        old(self).state == StreamState::Fresh && old(self).ax == old(self).adapters@.len() && r is Ok ==> final(self).state == StreamState::Active, //# C10.fresh_to_active
        r is Ok ==> final(self).wf(),
        // the search that is started is the one that was asked for: base, scope, filter and attributes go down unchanged
        old(self).state == StreamState::Fresh ==> final(self).asked@ == old(self).asked@.push(Asked { base: base@, scope: scope, filter: filter@, attrs: attrs }), //# C02+C10.start_hands_the_search_arguments_down_unchanged
        old(self).state != StreamState::Fresh ==> final(self).asked@ == old(self).asked@,
//@end

//@lift name=next file=src/search.rs impl="impl<'a, S, A> SearchStream<'a, S, A>" fn=next
//@ ret r
//@ spec
    requires old(self).wf(),
    ensures
        final(self).ax == old(self).ax, final(self).adapters@ == old(self).adapters@,
        old(self).state != StreamState::Active ==> (r matches Ok(None)) && final(self).state == old(self).state
            && final(self).rx == old(self).rx && final(self).res == old(self).res, //# C10.next_outside_active_is_ok_none_and_changes_nothing
        r is Err ==> final(self).state == StreamState::Error, //# C10.error_state_after_failure
        (old(self).state == StreamState::Active && old(self).ax == 0 && (r matches Ok(None))) ==> final(self).state == StreamState::Done, //# C10.active_to_done_at_end_of_stream
        (old(self).direct() && (r matches Ok(Some(_)))) ==> final(self).state == StreamState::Active, //# C10.stays_active_while_items_flow
        // the API-level invariant is re-established (no later call can hit the unwrap of a missing receiver)
        (old(self).ax == 0 || !(r matches Ok(None))) ==> final(self).wf(), //# C10+C11.active_implies_receiver_present
        // direct stream: the item is the one received
        (old(self).direct() && old(self).state == StreamState::Active) ==> (r matches Ok(Some(e)) ==>
            (old(self).rx->0.next_item() matches Some(it) && it.1 == e.1 && (it.0 == SearchItem::Entry(e.0) || it.0 == SearchItem::Referral(e.0)))), //# C10.direct_stream_yields_received_item
//@end

//@lift name=finish file=src/search.rs impl="impl<'a, S, A> SearchStream<'a, S, A>" fn=finish
//@ ret r
//@ spec
    requires old(self).wf(),
    ensures
        final(self).ax == old(self).ax, final(self).adapters@ == old(self).adapters@, final(self).wf(),
        old(self).state == StreamState::Closed ==> r.rc == 80 && final(self).state == StreamState::Closed
            && final(self).ldap.id_scrub_tx.log@ == old(self).ldap.id_scrub_tx.log@, //# C10.second_finish_returns_80
        (old(self).state != StreamState::Closed && old(self).direct()) ==> final(self).state == StreamState::Closed
            && (old(self).res matches Some(sr) ==> r == sr) && (old(self).res is None ==> cancelled(r)), //# C10.finish_result_direct
//@end

//@lift name=SearchStream::new file=src/search.rs impl="impl<'a, S, A> SearchStream<'a, S, A>" fn=new
//@ sub "fn new(ldap: Ldap, adapters: Vec<Box<dyn Adapter<'a, S, A> + 'a>>) -> Self" => "fn new(ldap: Ldap, adapters: Vec<AdapterBox>) -> Self"
//@ sub "adapters.into_iter().map(Mutex::new).map(Arc::new).collect()" => "verif_share_adapters(adapters)"
//@ sub "res: None,\n        }" => "res: None,\n            asked: Ghost(Seq::empty()),\n        }"
//@ ret r
//@ spec
    ensures
        r.state == StreamState::Fresh && r.ax == 0 && r.rx is None && r.res is None && r.timeout is None, //# C10.a_new_stream_is_fresh_with_nothing_received
        r.ldap == ldap && r.adapters@.len() == adapters@.len(), r.wf(),
//@end

//@lift name=ldap_handle file=src/search.rs impl="impl<'a, S, A> SearchStream<'a, S, A>" fn=ldap_handle
//@ ret r
//@ spec
    ensures *r == old(self).ldap, final(self).ldap == *final(r),
        final(self).state == old(self).state && final(self).ax == old(self).ax && final(self).rx == old(self).rx && final(self).res == old(self).res
            && final(self).adapters == old(self).adapters && final(self).timeout == old(self).timeout, //# C10.ldap_handle_exposes_only_the_handle
//@end

//@lift name=state file=src/search.rs impl="impl<'a, S, A> SearchStream<'a, S, A>" fn=state
//@ ret r
//@ spec
    ensures r == self.state,
//@end
}

impl ResultEntry {
//@lift name=is_ref file=src/search.rs impl="impl\s+ResultEntry\s*\{" fn=is_ref
//@ ret r
//@ spec
    ensures r == (self.0.id == 19), //# C10.reference_is_application_19
//@end

//@lift name=is_intermediate file=src/search.rs impl="impl\s+ResultEntry\s*\{" fn=is_intermediate
//@ ret r
//@ spec
    ensures r == (self.0.id == 25), //# C10.intermediate_is_application_25
//@end
}

} // verus!
fn main() {}
