// Unit V-controls: src/controls_impl.rs -- build_tag (control encoding) and parse_controls (control list
// decoding).  Serves C02 (control encoding: SEQUENCE { OID, criticality only when true, value only when present }),
// C03 (response controls equal what the server encoded), C11 (no panic on any control list), C19 (a control list
// survives the envelope: absent criticality = false, absent value = none).
use vstd::prelude::*;
use vstd::string::*;
use vstd::std_specs::iter::IteratorSpec;
verus! {

//@include contracts/shared/lber_types.rs
//@include contracts/shared/tree_spec.rs
//@include contracts/shared/std_specs.rs
//@include contracts/shared/utf8_specs.rs

//@include contracts/shared/lift_structure_tag.rs

#[derive(Clone, Copy)]
pub enum ControlType { PagedResults, PostReadResp, PreReadResp, SyncDone, SyncState, ManageDsaIt, MatchedValues }
pub struct RawControl { pub ctype: String, pub crit: bool, pub val: Option<Vec<u8>> }
pub struct Control(pub Option<ControlType>, pub RawControl);
//@include contracts/shared/lift_types_enum.rs

// lazy_static CONTROLS: HashMap<&'static str, ControlType> -- known-OID tagging is a table look-up whose
// contents are NOT decided here (uninterpreted function of the OID string)
pub uninterp spec fn known_type(oid: Seq<char>) -> Option<ControlType>;
pub struct ControlsMap {}
pub struct TypeRef { pub t: Option<ControlType> }
impl ControlsMap {
    #[verifier::external_body]
    pub fn get(&self, k: &str) -> (r: TypeRef) ensures r.t == known_type(k@) { unimplemented!() }
}
impl TypeRef { pub fn copied(self) -> (r: Option<ControlType>) ensures r == self.t { self.t } }
pub const CONTROLS: ControlsMap = ControlsMap {};

pub trait ASNTag { spec fn stree(&self) -> T; fn into_structure(self) -> (r: StructureTag) ensures st_tree(r) == self.stree(); }
impl ASNTag for Tag {
    open spec fn stree(&self) -> T { tree(*self) }
    // lber Tag::into_structure == tree(t): discharged in V-lber-struct
    #[verifier::external_body]
    fn into_structure(self) -> (r: StructureTag) { unimplemented!() }
}

// RFC 4511 4.1.11: Control ::= SEQUENCE { controlType LDAPOID, criticality BOOLEAN DEFAULT FALSE, controlValue OCTET STRING OPTIONAL }
// (DER-style: the default criticality is not encoded)
pub open spec fn control_tree(rc: RawControl) -> T {
    let oid = t_os(rc.ctype@.spec_bytes_of());
    if rc.crit {
        match rc.val { Some(v) => t_seq(seq![oid, t_bool(true), t_os(v@)]), None => t_seq(seq![oid, t_bool(true)]) }
    } else {
        match rc.val { Some(v) => t_seq(seq![oid, t_os(v@)]), None => t_seq(seq![oid]) }
    }
}

//@lift name=build_tag file=src/controls_impl.rs fn=build_tag
//@ ret r
//@ insert before "Tag::Sequence(Sequence {\n        inner: seq,"
    proof {
        if seq@.len() == 1 { tree_lemmas::lemma_trees1(seq@, 1); } else if seq@.len() == 2 { tree_lemmas::lemma_trees2(seq@, 2); } else { tree_lemmas::lemma_trees3(seq@, 3); }
    }
//@ spec
    ensures st_tree(r) == control_tree(rc), //# C02+C19.control_encoding_rfc4511_4.1.11
//@end

// ---- decoding: what one control element denotes (relation; the parser may be more lenient than the RFC on
// the class of the criticality/value elements and ignores trailing components -- stated as the code does)
pub open spec fn decodes_to(c: StructureTag, out: Control) -> bool {
    &&& c.payload is C
    &&& c.payload->C_0@.len() >= 1
    &&& {
        let k = c.payload->C_0@;
        &&& k[0].payload is P
        &&& valid_utf8(k[0].payload->P_0@)
        &&& out.1.ctype@ == utf8_decode(k[0].payload->P_0@)
        &&& out.0 == known_type(out.1.ctype@)
        &&& if k.len() == 1 { !out.1.crit && out.1.val is None }
            else if k[1].id == 1 { // BOOLEAN criticality
                &&& k[1].payload is P
                &&& k[1].payload->P_0@.len() >= 1
                &&& out.1.crit == (k[1].payload->P_0@[0] != 0)
                &&& if k.len() == 2 { out.1.val is None } else { (k[2].payload is P) && (out.1.val matches Some(v) && v@ == k[2].payload->P_0@) }
            } else if k[1].id == 4 { // OCTET STRING value, criticality absent = false
                !out.1.crit && (k[1].payload is P) && (out.1.val matches Some(v) && v@ == k[1].payload->P_0@)
            } else { false }
    }
}
// a control element that the RFC allows: decodable
pub open spec fn decodable(c: StructureTag) -> bool {
    &&& c.payload is C
    &&& c.payload->C_0@.len() >= 1
    &&& {
        let k = c.payload->C_0@;
        &&& (k[0].payload is P) && valid_utf8(k[0].payload->P_0@)
        &&& (k.len() == 1
            || (k[1].id == 1 && (k[1].payload is P) && k[1].payload->P_0@.len() >= 1 && (k.len() == 2 || (k[2].payload is P)))
            || (k[1].id == 4 && (k[1].payload is P)))
    }
}

// std's Iterator::nth on the element iterator (a provided trait method, which `assume_specification` cannot reach): skip n
// items, return the next one.  Only here so that a change which calls it is decided; the unchanged text does not use it.
pub trait VerifNth: Sized {
    fn verif_nth(&mut self, n: usize) -> Option<StructureTag>;
}
impl VerifNth for std::vec::IntoIter<StructureTag> {
    #[verifier::external_body]
    fn verif_nth(&mut self, n: usize) -> (r: Option<StructureTag>)
        ensures n < (*old(self)).remaining().len() ==> (r == Some((*old(self)).remaining()[n as int]) && (*final(self)).remaining() == (*old(self)).remaining().skip(n as int + 1)),
            n >= (*old(self)).remaining().len() ==> (r is None && (*final(self)).remaining().len() == 0),
    { unimplemented!() }
}
//@lift name=parse_controls file=src/controls_impl.rs fn=parse_controls
//@ sub ".nth(" => ".verif_nth(" count=*
//@ ret r
//@ loop 1 iter=it
        invariant
            ctrls@.len() == it.index@,
            forall|j: int| 0 <= j < it.index@ ==> decodes_to(it.seq()[j], #[trigger] ctrls@[j]), //# inv.prefix_decoded
            forall|j: int| 0 <= j < it.index@ ==> decodable(#[trigger] it.seq()[j]),
            t.payload matches PL::C(kids) && kids@ == it.seq(),
//@ spec
    ensures
        // C11: total -- no panic, None for anything that is not a list of controls
        !(t.payload is C) ==> r is None, //# C11.controls_not_constructed_is_rejected
        // C03: every returned control is what its element encodes, in order, none dropped
        r matches Some(v) ==> (t.payload matches PL::C(kids) && v@.len() == kids@.len()
            && forall|j: int| 0 <= j < kids@.len() ==> decodes_to(kids@[j], #[trigger] v@[j])), //# C03+C19.controls_decoded_in_order_absent_crit_false_absent_value_none
        // well-formed lists are accepted
        (t.payload matches PL::C(kids) && forall|j: int| 0 <= j < kids@.len() ==> decodable(#[trigger] kids@[j])) ==> r is Some, //# C03.well_formed_controls_are_accepted
        r is Some ==> (t.payload matches PL::C(kids) && forall|j: int| 0 <= j < kids@.len() ==> decodable(#[trigger] kids@[j])), //# C11.malformed_control_is_rejected
//@end

// ---- C19: a control survives the envelope unchanged -- a lemma over the two contracts above.
// If `st` is what build_tag produced for `rc` (st_tree(st) == control_tree(rc)) then `st` is decodable and every
// `out` it decodes to has rc's OID, criticality (absent = false) and value (absent = none).
pub proof fn lemma_control_roundtrip(rc: RawControl, st: StructureTag, out: Control)
    requires st_tree(st) == control_tree(rc),
    ensures
        decodable(st), //# C19.encoded_control_is_decodable
        decodes_to(st, out) ==> (out.1.ctype@ == rc.ctype@ && out.1.crit == rc.crit
            && (rc.val matches Some(v) ==> (out.1.val matches Some(w) && w@ == v@)) && (rc.val is None ==> out.1.val is None)), //# C19.control_roundtrip_oid_crit_value
{
    broadcast use axiom_utf8_roundtrip;
    reveal_with_fuel(st_tree, 2);
    match st.payload {
        PL::P(_) => { assert(false); }
        PL::C(kids) => {
            let k = kids@;
            lemma_st_trees_len(k, k.len());
            let oid = t_os(rc.ctype@.spec_bytes_of());
            assert(st_trees(k, k.len()).len() == k.len());
            if rc.crit {
                if rc.val is Some {
                    assert(st_trees(k, k.len()) == seq![oid, t_bool(true), t_os(rc.val->0@)]);
                    assert(k.len() == 3);
                    assert(st_tree(k[0]) == oid && st_tree(k[1]) == t_bool(true) && st_tree(k[2]) == t_os(rc.val->0@));
                } else {
                    assert(st_trees(k, k.len()) == seq![oid, t_bool(true)]);
                    assert(k.len() == 2);
                    assert(st_tree(k[0]) == oid && st_tree(k[1]) == t_bool(true));
                }
                assert(t_bool(true)->P_2[0] == 0xffu8);
            } else {
                if rc.val is Some {
                    assert(st_trees(k, k.len()) == seq![oid, t_os(rc.val->0@)]);
                    assert(k.len() == 2);
                    assert(st_tree(k[0]) == oid && st_tree(k[1]) == t_os(rc.val->0@));
                } else {
                    assert(st_trees(k, k.len()) == seq![oid]);
                    assert(k.len() == 1);
                    assert(st_trees(k, k.len())[0] == oid);
                    assert(st_tree(k[0]) == oid);
                }
            }
        }
    }
}

} // verus!
fn main() {}
