// Unit V-lber-dec: lber/src/parse.rs -- the recursive TLV parser parse_tag and Parser::parse, text unchanged.
// nom's `tuple`, `take`, `input_len` and the two header parsers are contracted stubs: the header parsers'
// contracts (type_hdr / len_hdr as functions of the bytes, NeedMore exactly on a proper prefix of a header,
// nothing consumed past the header, answer depends only on the consumed bytes) are the leaf clauses discharged by
// Kani on the real functions over the full domain (unit K-lber).  Serves C06 (b), C07 (decoder soundness against
// the relational reference decoder enc_of), C11 (no panic for any bytes, termination, a frame whose header and
// announced contents are present is never answered "incomplete").
use vstd::prelude::*;
use vstd::string::*;
verus! {

//@include contracts/shared/lber_types.rs
//@include contracts/shared/tree_spec.rs
//@include contracts/shared/std_specs.rs

pub mod nom {
    pub mod error {
        use vstd::prelude::*;
        pub struct Error<I> { pub input: I, pub code: ErrorKind }
        pub enum ErrorKind { TooLarge, Complete, Other }
    }
    pub enum Needed { Unknown, Size(usize) }
    pub enum Err<E> { Incomplete(Needed), Error(E), Failure(E) }
    pub type IResult<I, O, E = error::Error<I>> = Result<(I, O), Err<E>>;
}
use nom::error::{Error, ErrorKind};
use nom::{IResult, Needed};
impl<I> Error<I> {
    pub fn from_error_kind(input: I, kind: ErrorKind) -> (r: Error<I>) { Error { input: input, code: kind } }
}

// ---- header level (X.690 8.1.2 / 8.1.3), as functions of the bytes: leaf clauses
pub enum Hdr { NeedMore, Bad, Ok(nat, TagClass, TagStructure, u64) }
pub uninterp spec fn type_hdr(b: Seq<u8>) -> Hdr;
pub enum Len { NeedMore, Bad, Ok(nat, usize) }
pub uninterp spec fn len_hdr(b: Seq<u8>) -> Len;
// K-lber::C06.parse_type_header_is_type_hdr / C06.parse_length_is_len_hdr: a header occupies 1..=|b| bytes
pub broadcast axiom fn ax_type_hdr(b: Seq<u8>) ensures (#[trigger] type_hdr(b)) matches Hdr::Ok(n, _, _, _) ==> 0 < n <= b.len();
pub broadcast axiom fn ax_len_hdr(b: Seq<u8>) ensures (#[trigger] len_hdr(b)) matches Len::Ok(n, _) ==> 0 < n <= b.len();
// the answer depends only on the bytes consumed (same clauses: the Kani harnesses compare against a reference that
// reads only the header bytes)
pub axiom fn ax_type_local(b: Seq<u8>, m: int) requires type_hdr(b) matches Hdr::Ok(n, _, _, _) && n <= m <= b.len() ensures type_hdr(b.subrange(0, m)) == type_hdr(b);
pub axiom fn ax_len_local(b: Seq<u8>, m: int) requires len_hdr(b) matches Len::Ok(n, _) && n <= m <= b.len() ensures len_hdr(b.subrange(0, m)) == len_hdr(b);

#[verifier::external_body]
pub fn parse_type_header<'a>(i: &'a [u8]) -> (r: IResult<&'a [u8], (TagClass, TagStructure, u64)>)
    ensures match type_hdr(i@) {
        Hdr::NeedMore => r matches Err(e) && e is Incomplete,
        Hdr::Bad => r matches Err(e) && !(e is Incomplete),
        Hdr::Ok(n, c, s, id) => r matches Ok((rest, (c2, s2, id2))) && c2 == c && s2 == s && id2 == id && rest@ == i@.subrange(n as int, i@.len() as int),
    }
{ unimplemented!() }
#[verifier::external_body]
pub fn parse_length<'a>(i: &'a [u8]) -> (r: IResult<&'a [u8], usize>)
    ensures match len_hdr(i@) {
        Len::NeedMore => r matches Err(e) && e is Incomplete,
        Len::Bad => r matches Err(e) && !(e is Incomplete),
        Len::Ok(n, l) => r matches Ok((rest, l2)) && l2 == l && rest@ == i@.subrange(n as int, i@.len() as int),
    }
{ unimplemented!() }
// the two `take`s of nom: which one the source's identifier means is decided by the file's `use` declarations (lifter R14)
//@path nom::bytes::streaming::take => take
//@path nom::bytes::complete::take => take_complete
// nom::bytes::complete::take: never asks for more input -- a short input is an ERROR, not Incomplete
#[verifier::external_body]
pub fn take_complete<'a>(len: usize) -> (f: impl Fn(&'a [u8]) -> IResult<&'a [u8], &'a [u8]>)
    ensures forall|i: &'a [u8], r: IResult<&'a [u8], &'a [u8]>| #[trigger] call_ensures(f, (i,), r) ==>
        (if i@.len() >= len { r matches Ok((rest, c)) && c@ == i@.subrange(0, len as int) && rest@ == i@.subrange(len as int, i@.len() as int) } else { r matches Err(e) && !(e is Incomplete) }),
        forall|i: &'a [u8]| call_requires(f, (i,)),
{ move |i: &'a [u8]| unimplemented!() }
// nom::bytes::streaming::take
#[verifier::external_body]
pub fn take<'a>(len: usize) -> (f: impl Fn(&'a [u8]) -> IResult<&'a [u8], &'a [u8]>)
    ensures forall|i: &'a [u8], r: IResult<&'a [u8], &'a [u8]>| #[trigger] call_ensures(f, (i,), r) ==>
        (if i@.len() >= len { r matches Ok((rest, c)) && c@ == i@.subrange(0, len as int) && rest@ == i@.subrange(len as int, i@.len() as int) } else { r matches Err(e) && e is Incomplete }),
        forall|i: &'a [u8]| call_requires(f, (i,)),
{ move |i: &'a [u8]| unimplemented!() }
// nom::sequence::tuple for a pair: sequential composition, first error wins
#[verifier::external_body]
pub fn tuple<'a, A, B, FA: Fn(&'a [u8]) -> IResult<&'a [u8], A>, FB: Fn(&'a [u8]) -> IResult<&'a [u8], B>>(p: (FA, FB)) -> (f: impl Fn(&'a [u8]) -> IResult<&'a [u8], (A, B)>)
    ensures
        forall|i: &'a [u8]| call_requires(f, (i,)),
        forall|i: &'a [u8], r: IResult<&'a [u8], (A, B)>| #[trigger] call_ensures(f, (i,), r) ==> (
            (exists|e: nom::Err<Error<&'a [u8]>>| call_ensures(p.0, (i,), Err::<(&'a [u8], A), nom::Err<Error<&'a [u8]>>>(e)) && r == Err::<(&'a [u8], (A, B)), nom::Err<Error<&'a [u8]>>>(e))
            || (exists|i1: &'a [u8], a: A| call_ensures(p.0, (i,), Ok::<(&'a [u8], A), nom::Err<Error<&'a [u8]>>>((i1, a))) && (
                    (exists|e: nom::Err<Error<&'a [u8]>>| call_ensures(p.1, (i1,), Err::<(&'a [u8], B), nom::Err<Error<&'a [u8]>>>(e)) && r == Err::<(&'a [u8], (A, B)), nom::Err<Error<&'a [u8]>>>(e))
                 || (exists|i2: &'a [u8], b: B| call_ensures(p.1, (i1,), Ok::<(&'a [u8], B), nom::Err<Error<&'a [u8]>>>((i2, b))) && r == Ok::<(&'a [u8], (A, B)), nom::Err<Error<&'a [u8]>>>((i2, (a, b))))))),
{ move |i: &'a [u8]| unimplemented!() }
pub trait InputLength { fn input_len(&self) -> usize; }
impl<'a> InputLength for &'a [u8] {
    #[verifier::external_body]
    fn input_len(&self) -> (n: usize) ensures n == self@.len() { self.len() }
}

// ---- the relational reference decoder (written from X.690 8.1, no nom): b is exactly one definite-length
// encoding of t, whatever length form the header uses
pub open spec fn pc_of(t: StructureTag) -> TagStructure { match t.payload { PL::P(_) => TagStructure::Primitive, PL::C(_) => TagStructure::Constructed } }
pub open spec fn enc_of(b: Seq<u8>, t: StructureTag) -> bool decreases t, 0nat {
    match type_hdr(b) {
        Hdr::Ok(n1, c, s, id) => c == t.class && s == pc_of(t) && id == t.id && n1 <= b.len() && (match len_hdr(b.subrange(n1 as int, b.len() as int)) {
            Len::Ok(n2, l) => b.len() == n1 + n2 + l && (match t.payload {
                PL::P(v) => v@ == b.subrange((n1 + n2) as int, b.len() as int),
                PL::C(ch) => encs_of(b.subrange((n1 + n2) as int, b.len() as int), ch@, ch@.len()),
            }),
            _ => false }),
        _ => false }
}
pub open spec fn encs_of(c: Seq<u8>, chs: Seq<StructureTag>, k: nat) -> bool decreases chs, k {
    if k == 0 { c.len() == 0 } else if k > chs.len() { false } else {
        exists|m: int| #![trigger c.subrange(0, m)] 0 <= m <= c.len() && encs_of(c.subrange(0, m), chs, (k - 1) as nat) && enc_of(c.subrange(m, c.len() as int), chs[k - 1])
    }
}
pub proof fn lemma_encs_push(c: Seq<u8>, chs: Seq<StructureTag>, t: StructureTag, k: nat)
    requires k <= chs.len()
    ensures encs_of(c, chs.push(t), k) == encs_of(c, chs, k)
    decreases k
{
    if k > 0 {
        assert forall|m: int| 0 <= m <= c.len() implies encs_of(c.subrange(0, m), chs.push(t), (k - 1) as nat) == encs_of(c.subrange(0, m), chs, (k - 1) as nat) by {
            lemma_encs_push(c.subrange(0, m), chs, t, (k - 1) as nat);
        }
        assert(chs.push(t)[k - 1] == chs[k - 1]);
    }
}

// ---- the reference decoder as a function (X.690 8.1 read left to right): NeedMore / Bad / Ok(bytes consumed, tree).
// An element that overruns its fully present parent makes the parent Bad (not NeedMore).
pub enum SRes { NeedMore, Bad, Ok(nat, T) }
pub open spec fn sparse(b: Seq<u8>, d: nat) -> SRes decreases b.len(), 0nat {
    match type_hdr(b) {
        Hdr::NeedMore => SRes::NeedMore,
        Hdr::Bad => SRes::Bad,
        Hdr::Ok(n1, c, s, id) => if !(0 < n1 <= b.len()) { SRes::Bad } else {
            match len_hdr(b.subrange(n1 as int, b.len() as int)) {
                Len::NeedMore => SRes::NeedMore,
                Len::Bad => SRes::Bad,
                Len::Ok(n2, l) => if b.len() < n1 + n2 + l { SRes::NeedMore } else {
                    let content = b.subrange((n1 + n2) as int, (n1 + n2 + l) as int);
                    match s {
                        TagStructure::Primitive => SRes::Ok((n1 + n2 + l) as nat, T::P(c, id, content)),
                        // nesting deeper than MAX_NESTING is rejected (the parser is recursive: bounded stack use)
                        TagStructure::Constructed => if d >= MAX_NESTING { SRes::Bad } else { match sparse_list(content, d + 1) {
                            Some(k) => SRes::Ok((n1 + n2 + l) as nat, T::C(c, id, k)),
                            None => SRes::Bad,
                        } },
                    }
                },
            }
        },
    }
}
pub open spec fn sparse_list(c: Seq<u8>, d: nat) -> Option<Seq<T>> decreases c.len(), 1nat {
    if c.len() == 0 { Some(Seq::empty()) } else {
        match sparse(c, d) {
            SRes::Ok(k, t) => if 0 < k <= c.len() {
                match sparse_list(c.subrange(k as int, c.len() as int), d) { Some(r) => Some(seq![t] + r), None => None }
            } else { None },
            _ => None,
        }
    }
}
pub proof fn lemma_st_trees_push(s: Seq<StructureTag>, x: StructureTag, n: nat)
    requires n <= s.len()
    ensures st_trees(s.push(x), n) == st_trees(s, n)
    decreases n
{ if n > 0 { lemma_st_trees_push(s, x, (n - 1) as nat); assert(s.push(x)[n - 1] == s[n - 1]); } }

// how many bytes the outermost TLV announces: header + length octets + announced contents
pub enum Need { Unknown, Bad, Bytes(nat) }
pub open spec fn need(b: Seq<u8>) -> Need {
    match type_hdr(b) {
        Hdr::NeedMore => Need::Unknown,
        Hdr::Bad => Need::Bad,
        Hdr::Ok(n1, _, _, _) => match len_hdr(b.subrange(n1 as int, b.len() as int)) {
            Len::NeedMore => Need::Unknown,
            Len::Bad => Need::Bad,
            Len::Ok(n2, l) => Need::Bytes((n1 + n2 + l) as nat),
        },
    }
}


// ---- C07 round trip as a theorem over the contracts: parsing the encoder's output returns the identical tree and
// leaves trailing bytes untouched.  encode_inner appends ber_t(st_tree(tag)) (V-lber-enc); parse_tag computes `sparse`
// (above); what remains is the spec-level fact sparse(ber_t(t) + trail) == Ok(|ber_t(t)|, t), proved here by
// induction from two leaf clauses that Kani discharges on the real header functions:
//   K-lber C07.write_type_single_octet_ids_le30 + C06.parse_type_header_is_type_hdr  (identifier octet, ids <= 30)
//   K-lber C07.parse_length_inverts_write_length + C06.parse_length_is_len_hdr        (length octets, every usize)
pub axiom fn ax_type_of_ident(c: TagClass, s: TagStructure, id: u64, rest: Seq<u8>)
    requires id <= 30
    ensures ident(c, s, id).len() == 1, type_hdr(ident(c, s, id) + rest) == Hdr::Ok(1, c, s, id);
pub axiom fn ax_len_of_octets(n: nat, rest: Seq<u8>)
    requires n <= usize::MAX
    ensures len_octets(n).len() >= 1, len_hdr(len_octets(n) + rest) == Len::Ok(len_octets(n).len(), n as usize);
// trees the property talks about: tag numbers up to 30, contents that fit a usize
pub open spec fn wf_t(t: T, d: nat) -> bool decreases t, 0nat {
    match t {
        T::P(c, id, v) => id <= 30 && v.len() <= usize::MAX,
        T::C(c, id, k) => id <= 30 && d < MAX_NESTING && ber_ts(k, k.len()).len() <= usize::MAX && wf_ts(k, k.len(), d + 1),
    }
}
pub open spec fn wf_ts(k: Seq<T>, n: nat, d: nat) -> bool decreases k, n {
    if n == 0 || n > k.len() { true } else { wf_ts(k, (n - 1) as nat, d) && wf_t(k[n - 1], d) }
}
// the children's encodings from index i on, left to right
pub open spec fn ber_from(k: Seq<T>, i: nat) -> Seq<u8> decreases k.len() - i {
    if i >= k.len() { Seq::empty() } else { ber_t(k[i as int]) + ber_from(k, i + 1) }
}
pub proof fn lemma_wf_ts_index(k: Seq<T>, n: nat, j: int, d: nat)
    requires n <= k.len(), wf_ts(k, n, d), 0 <= j < n
    ensures wf_t(k[j], d)
    decreases n
{ if j < n - 1 { lemma_wf_ts_index(k, (n - 1) as nat, j, d); } }
pub proof fn lemma_ber_ts_from(k: Seq<T>, i: nat)
    requires i <= k.len()
    ensures ber_ts(k, k.len()) == ber_ts(k, i) + ber_from(k, i)
    decreases k.len() - i
{
    if i == k.len() {
        assert(ber_from(k, i) =~= Seq::<u8>::empty());
        assert(ber_ts(k, i) + Seq::<u8>::empty() =~= ber_ts(k, i));
    } else {
        lemma_ber_ts_from(k, i + 1);
        assert(ber_ts(k, i + 1) == ber_ts(k, i) + ber_t(k[i as int]));
        assert((ber_ts(k, i) + ber_t(k[i as int])) + ber_from(k, i + 1) =~= ber_ts(k, i) + (ber_t(k[i as int]) + ber_from(k, i + 1)));
    }
}
pub proof fn lemma_roundtrip(t: T, trail: Seq<u8>, d: nat)
    requires wf_t(t, d)
    ensures sparse(ber_t(t) + trail, d) == SRes::Ok(ber_t(t).len(), t), //# C07.parse_of_encoding_is_the_identical_tree_and_leaves_trailing_bytes
    decreases t, 1nat
{
    let b = ber_t(t) + trail;
    match t {
        T::P(c, id, v) => {
            let idn = ident(c, TagStructure::Primitive, id);
            let lo = len_octets(v.len());
            ax_type_of_ident(c, TagStructure::Primitive, id, lo + v + trail);
            ax_len_of_octets(v.len(), v + trail);
            assert(b =~= idn + (lo + v + trail));
            assert(b.subrange(1, b.len() as int) =~= lo + (v + trail));
            assert(b.subrange((1 + lo.len()) as int, (1 + lo.len() + v.len()) as int) =~= v);
            assert(ber_t(t).len() == 1 + lo.len() + v.len());
        }
        T::C(c, id, k) => {
            let body = ber_ts(k, k.len());
            let idn = ident(c, TagStructure::Constructed, id);
            let lo = len_octets(body.len());
            ax_type_of_ident(c, TagStructure::Constructed, id, lo + body + trail);
            ax_len_of_octets(body.len(), body + trail);
            assert(b =~= idn + (lo + body + trail));
            assert(b.subrange(1, b.len() as int) =~= lo + (body + trail));
            assert(b.subrange((1 + lo.len()) as int, (1 + lo.len() + body.len()) as int) =~= body);
            assert(ber_t(t).len() == 1 + lo.len() + body.len());
            lemma_ber_ts_from(k, 0);
            assert(ber_ts(k, 0) + ber_from(k, 0) =~= ber_from(k, 0));
            lemma_roundtrip_list(k, 0, d + 1);
            assert(k.subrange(0, k.len() as int) =~= k);
        }
    }
}
pub proof fn lemma_roundtrip_list(k: Seq<T>, i: nat, d: nat)
    requires i <= k.len(), wf_ts(k, k.len(), d)
    ensures sparse_list(ber_from(k, i), d) == Some(k.subrange(i as int, k.len() as int))
    decreases k, k.len() - i
{
    if i == k.len() {
        assert(ber_from(k, i) =~= Seq::<u8>::empty());
        assert(k.subrange(i as int, k.len() as int) =~= Seq::<T>::empty());
    } else {
        let x = k[i as int];
        lemma_wf_ts_index(k, k.len(), i as int, d);
        let rest = ber_from(k, i + 1);
        lemma_roundtrip(x, rest, d);
        lemma_roundtrip_list(k, i + 1, d);
        let c = ber_from(k, i);
        assert(c == ber_t(x) + rest);
        // a tree's encoding is never empty (identifier octet)
        match x { T::P(cc, id, v) => { ax_type_of_ident(cc, TagStructure::Primitive, id, Seq::empty()); }
                  T::C(cc, id, kk) => { ax_type_of_ident(cc, TagStructure::Constructed, id, Seq::empty()); } }
        assert(ber_t(x).len() > 0);
        assert(c.subrange(ber_t(x).len() as int, c.len() as int) =~= rest);
        assert(seq![x] + k.subrange((i + 1) as int, k.len() as int) =~= k.subrange(i as int, k.len() as int));
    }
}

//@canary-begin
// must FAIL: if `false` followed from the leaf axioms (contradictory axioms), every proof in this unit would be vacuous
pub proof fn leaf_axioms_consistent__canary(c: TagClass, s: TagStructure, id: u64, rest: Seq<u8>, n: nat, t: T, trail: Seq<u8>)
    requires id <= 30, n <= usize::MAX, wf_t(t, 0)
    ensures false
{
    broadcast use ax_type_hdr, ax_len_hdr;
    ax_type_of_ident(c, s, id, rest); ax_len_of_octets(n, rest); ax_type_of_ident(c, s, id, Seq::empty()); ax_len_of_octets(n, Seq::empty());
    ax_type_local(ident(c, s, id) + rest, 1);
    ax_len_local(len_octets(n) + rest, len_octets(n).len() as int);
    lemma_roundtrip(t, trail, 0);
}
//@canary-end

//@lift name=parse_tag_nested file=lber/src/parse.rs fn=parse_tag_nested
//@ ret r
//@ rebind i input
//@ insert entry
    broadcast use ax_type_hdr, ax_len_hdr;
    let ghost i0 = input@;
//@ insert after "tuple((parse_type_header, parse_length))(i)?;"
    let ghost n1 = type_hdr(i0)->Ok_0;
    let ghost n2 = len_hdr(i0.subrange(n1 as int, i0.len() as int))->Ok_0;
    proof {
        assert(i@ == i0.subrange(n1 as int, i0.len() as int).subrange(n2 as int, i0.len() - n1));
        assert(i@ =~= i0.subrange((n1 + n2) as int, i0.len() as int)); //# C06+C07.after_the_header_the_input_is_the_headers_rest
    }
//@ insert after "let mut tv: Vec<StructureTag> = Vec::new();"
            let ghost c0 = content@;
            proof {
                assert(c0 =~= i0.subrange((n1 + n2) as int, (n1 + n2 + len) as int));
                assert(st_trees(tv@, tv@.len()) + sparse_list(c0, (depth + 1) as nat)->0 =~= sparse_list(c0, (depth + 1) as nat)->0);
            }
//@ loop 1
                invariant content@.len() <= len, len < i0.len(), c0.len() == len, i0 == input@,
                    need(i0) == Need::Bytes((n1 + n2 + len) as nat), i0.len() >= n1 + n2 + len,
                    content@ == c0.subrange(c0.len() - content@.len(), c0.len() as int),
                    encs_of(c0.subrange(0, c0.len() - content@.len()), tv@, tv@.len()), //# inv.children_so_far_are_encoded_by_the_consumed_prefix
                    sparse_list(c0, (depth + 1) as nat) == (match sparse_list(content@, (depth + 1) as nat) { Some(r) => Some(st_trees(tv@, tv@.len()) + r), None => None::<Seq<T>> }), //# inv.reference_decoder_agrees_on_the_children_so_far
                    depth < MAX_NESTING, sparse(i0, depth as nat) == (match sparse_list(c0, (depth + 1) as nat) { Some(k) => SRes::Ok((n1 + n2 + len) as nat, T::C(class, id, k)), None => SRes::Bad }),
                decreases content@.len(), //# C11.termination_of_child_loop
//@ insert loop-start 1
                let ghost p = c0.len() - content@.len();
                let ghost tv_old = tv@;
                let ghost content_old = content@;
//@ insert loop-end 1
                proof {
                    let k = content_old.len() - content@.len();
                    let p2 = p + k;
                    lemma_encs_push(c0.subrange(0, p), tv_old, tv@[tv@.len() - 1], tv_old.len());
                    assert(c0.subrange(0, p2).subrange(0, p) =~= c0.subrange(0, p));
                    assert(c0.subrange(0, p2).subrange(p, p2) =~= c0.subrange(p, c0.len() as int).subrange(0, k));
                    assert(content@ =~= c0.subrange(p2, c0.len() as int)); //# C07.children_are_parsed_from_consecutive_slices_of_the_contents
                    // functional part: one more child agrees with the reference decoder
                    assert(content@ =~= content_old.subrange(k, content_old.len() as int));
                    lemma_st_trees_push(tv_old, tv@[tv@.len() - 1], tv_old.len());
                    assert(st_trees(tv@, tv@.len()) =~= st_trees(tv_old, tv_old.len()).push(st_tree(tv@[tv@.len() - 1])));
                    match sparse_list(content@, (depth + 1) as nat) {
                        Some(r) => { assert(st_trees(tv_old, tv_old.len()) + (seq![st_tree(tv@[tv@.len() - 1])] + r) =~= st_trees(tv@, tv@.len()) + r); }
                        None => {}
                    }
                }
//@ insert before "PL::P(content.to_vec())"
            proof { assert(content@ =~= i0.subrange((n1 + n2) as int, (n1 + n2 + len) as int)); } //# C06+C07.primitive_contents_are_exactly_the_announced_octets
//@ insert before "PL::C(tv)"
            proof {
                assert(c0.subrange(0, c0.len() as int) =~= c0);
                assert(st_trees(tv@, tv@.len()) + Seq::<T>::empty() =~= st_trees(tv@, tv@.len()));
                assert(c0 =~= i0.subrange((n1 + n2) as int, (n1 + n2 + len) as int));
            }
//@ insert before "    Ok((\n        i,"
    proof {
        let n = (n1 + n2 + len) as int;
        let b = i0.subrange(0, n);
        ax_type_local(i0, n);
        ax_len_local(i0.subrange(n1 as int, i0.len() as int), n - n1);
        assert(b.subrange(n1 as int, n) =~= i0.subrange(n1 as int, i0.len() as int).subrange(0, n - n1));
        assert(b.subrange((n1 + n2) as int, n) =~= i0.subrange((n1 + n2) as int, i0.len() as int).subrange(0, len as int));
        assert(i@ =~= i0.subrange(n, i0.len() as int)); //# C06.the_rest_returned_is_the_input_after_the_whole_element
    }
//@ spec
    requires depth <= MAX_NESTING, //# C11.recursion_depth_never_exceeds_MAX_NESTING
    ensures
        // soundness against the reference decoder; the rest is a suffix, nothing past the TLV is touched
        r matches Ok((rest, t)) ==> rest@.len() < input@.len()
            && rest@ == input@.subrange(input@.len() - rest@.len(), input@.len() as int)
            && enc_of(input@.subrange(0, input@.len() - rest@.len()), t), //# C07.parse_result_is_a_definite_length_encoding_of_the_tree
        // framing: exactly header + announced length is consumed
        r matches Ok((rest, t)) ==> need(input@) == Need::Bytes((input@.len() - rest@.len()) as nat), //# C06.exactly_the_announced_bytes_are_consumed
        // need more <=> header or announced contents not yet there
        (need(input@) is Unknown) ==> (r matches Err(e) && e is Incomplete), //# C06.incomplete_header_is_need_more
        depth < MAX_NESTING ==> ((need(input@) matches Need::Bytes(n) && input@.len() < n) ==> (r matches Err(e) && e is Incomplete)), //# C06.missing_contents_is_need_more
        (need(input@) matches Need::Bytes(n) && input@.len() >= n) ==> !(r matches Err(nom::Err::Incomplete(_))), //# C06+C11.complete_frame_is_never_answered_incomplete
        (need(input@) is Bad) ==> (r matches Err(e) && !(e is Incomplete)), //# C11.bad_header_is_an_error
        // full functional correctness against the reference decoder (soundness AND completeness)
        match sparse(input@, depth as nat) {
            SRes::NeedMore => r matches Err(e) && e is Incomplete,
            SRes::Bad => r matches Err(e) && !(e is Incomplete),
            SRes::Ok(k, t) => r matches Ok(p) && st_tree(p.1) == t && k <= input@.len() && p.0@ == input@.subrange(k as int, input@.len() as int),
        }, //# C07.parser_computes_the_reference_decoder
    decreases input@.len(), //# C11.termination_of_recursion
//@end

//@const file=lber/src/parse.rs name=MAX_NESTING
// the nesting bound is a real bound and leaves room for every LDAP message (envelope, operation, controls ~ 6 levels)
pub proof fn max_nesting_is_sane() ensures 16 <= MAX_NESTING <= 1000 { } //# C11.nesting_limit_is_finite_and_generous

//@lift name=parse_tag file=lber/src/parse.rs fn=parse_tag
//@ ret r
//@ insert entry
    broadcast use ax_type_hdr, ax_len_hdr;
//@ spec
    ensures
        // soundness against the reference decoder; the rest is a suffix, nothing past the TLV is touched
        r matches Ok((rest, t)) ==> rest@.len() < i@.len()
            && rest@ == i@.subrange(i@.len() - rest@.len(), i@.len() as int)
            && enc_of(i@.subrange(0, i@.len() - rest@.len()), t), //# C07.parse_result_is_a_definite_length_encoding_of_the_tree
        // framing: exactly header + announced length is consumed
        r matches Ok((rest, t)) ==> need(i@) == Need::Bytes((i@.len() - rest@.len()) as nat), //# C06.exactly_the_announced_bytes_are_consumed
        // need more <=> header or announced contents not yet there
        (need(i@) is Unknown) ==> (r matches Err(e) && e is Incomplete), //# C06.incomplete_header_is_need_more
        (need(i@) matches Need::Bytes(n) && i@.len() < n) ==> (r matches Err(e) && e is Incomplete), //# C06.missing_contents_is_need_more
        (need(i@) matches Need::Bytes(n) && i@.len() >= n) ==> !(r matches Err(nom::Err::Incomplete(_))), //# C06+C11.complete_frame_is_never_answered_incomplete
        (need(i@) is Bad) ==> (r matches Err(e) && !(e is Incomplete)), //# C11.bad_header_is_an_error
        // full functional correctness against the reference decoder (soundness AND completeness)
        match sparse(i@, 0nat) {
            SRes::NeedMore => r matches Err(e) && e is Incomplete,
            SRes::Bad => r matches Err(e) && !(e is Incomplete),
            SRes::Ok(k, t) => r matches Ok(p) && st_tree(p.1) == t && k <= i@.len() && p.0@ == i@.subrange(k as int, i@.len() as int),
        }, //# C07.parser_computes_the_reference_decoder
//@end

pub struct Parser;
impl Parser {
//@lift name=Parser::parse file=lber/src/parse.rs impl="impl\s+Parser\s*\{" fn=parse
//@ ret r
//@ insert entry
        broadcast use ax_type_hdr, ax_len_hdr;
//@ spec
    ensures
        input@.len() == 0 ==> (r matches Err(e) && e is Incomplete), //# C06.empty_buffer_is_need_more
        r matches Ok((rest, t)) ==> rest@.len() < input@.len() && rest@ == input@.subrange(input@.len() - rest@.len(), input@.len() as int)
            && enc_of(input@.subrange(0, input@.len() - rest@.len()), t)
            && need(input@) == Need::Bytes((input@.len() - rest@.len()) as nat), //# C06+C07.frame_cut_exactly
        (need(input@) matches Need::Bytes(n) && input@.len() >= n) ==> !(r matches Err(nom::Err::Incomplete(_))), //# C06+C11.complete_frame_is_never_answered_incomplete
        input@.len() > 0 ==> (match sparse(input@, 0) {
            SRes::NeedMore => r matches Err(e) && e is Incomplete,
            SRes::Bad => r matches Err(e) && !(e is Incomplete),
            SRes::Ok(k, t) => r matches Ok(p) && st_tree(p.1) == t && k <= input@.len() && p.0@ == input@.subrange(k as int, input@.len() as int),
        }), //# C07.parser_entry_point_computes_the_reference_decoder
//@end
}

} // verus!
fn main() {}
