// Unit V-escape: ldap_escape, dn_escape and ldap_unescape (src/util.rs) on their own text, for strings of EVERY length
// (the bounded Kani lane KX-escape covers the same functions up to 4 bytes on the real crate).  Serves C09.
// Recorded substitutions (std idioms this Verus does not take): the loop header `for (i, &c) in X.as_bytes().iter().enumerate()`
// (bytes with their indices, by value); `out.extend(X[..i].as_bytes())` (append the first i bytes); the generic
// `S: Into<Cow<'a, str>>` parameter (a Cow mirror with the byte view of its text); contracts written onto the nested helper
// functions.  ASSUMED: UTF-8 validity is preserved by replacing ASCII characters with ASCII sequences (valid_utf8 is an
// uninterpreted predicate here), i.e. the `expect("ldap escaped")` never fires.
use vstd::prelude::*;
use vstd::string::*;
verus! {

//@include contracts/shared/utf8_specs.rs
//@include contracts/shared/esc_spec.rs
//@include contracts/shared/unescaper_spec.rs

pub broadcast axiom fn axiom_utf8_decode_encode(b: Seq<u8>)
    requires valid_utf8(b),
    ensures #[trigger] utf8_encode(utf8_decode(b)) == b;

// std::borrow::Cow<'a, str>, seen through the bytes of its text
pub enum LdapError { DecodingUTF8, Other(u8) }
pub type Result<T> = core::result::Result<T, LdapError>;
pub enum Cow<'a> { Borrowed(&'a str), Owned(String) }
impl<'a> Cow<'a> {
    pub open spec fn bytes(&self) -> Seq<u8> { match self { Cow::Borrowed(s) => utf8_encode(s@), Cow::Owned(s) => utf8_encode(s@) } }
    pub fn into(self) -> (r: Cow<'a>) ensures r == self { self }
    #[verifier::external_body]
    pub fn as_bytes(&self) -> (r: &[u8]) ensures r@ == self.bytes() { unimplemented!() }
    #[verifier::external_body]
    pub fn len(&self) -> (r: usize) ensures r == self.bytes().len() { unimplemented!() }
}
// idiom: `X.as_bytes().iter().enumerate()` with the pattern `(i, &c)`: the bytes with their indices, by value
#[verifier::external_body]
pub fn verif_enumerate_bytes(v: &[u8]) -> (r: Vec<(usize, u8)>)
    ensures r@.len() == v@.len(), forall|j: int| 0 <= j < v@.len() ==> (#[trigger] r@[j]).0 == j && r@[j].1 == v@[j]
{ unimplemented!() }
// idiom: `out.extend(X[..i].as_bytes())`: append the first i bytes of the text
#[verifier::external_body]
pub fn verif_extend_prefix(out: &mut Vec<u8>, x: &Cow, i: usize)
    requires i <= x.bytes().len(),
    ensures final(out)@ == old(out)@ + x.bytes().take(i as int)
{ unimplemented!() }
// the same idiom as a method, so that the renaming `.extend(X[..i].as_bytes())` -> `.verif_extend_prefix_of(&X, i)` applies to
// whatever vector the text extends (a generic renaming: a rewritten statement around it is then decided, not exit 2)
pub trait ExtendPrefix {
    spec fn me(&self) -> Seq<u8>;
    fn verif_extend_prefix_of(&mut self, x: &Cow, i: usize)
        requires i <= x.bytes().len(),      // (`X[..i]` panics beyond the end)
        ensures final(self).me() == old(self).me() + x.bytes().take(i as int);
}
impl ExtendPrefix for Vec<u8> {
    open spec fn me(&self) -> Seq<u8> { self@ }
    #[verifier::external_body]
    fn verif_extend_prefix_of(&mut self, x: &Cow, i: usize) { unimplemented!() }
}

// ASSUMED (valid_utf8 is uninterpreted): escaping replaces ASCII bytes by ASCII sequences, which keeps UTF-8 text valid
pub broadcast axiom fn axiom_esc_keeps_utf8(v: Seq<u8>)
    requires valid_utf8(v),
    ensures valid_utf8(#[trigger] esc(v));

pub proof fn lemma_esc_append(a: Seq<u8>, b: Seq<u8>)
    ensures esc(a + b) == esc(a) + esc(b),
    decreases a.len(),
{
    if a.len() == 0 { assert(a + b =~= b); assert(esc(a) + esc(b) =~= esc(b)); }
    else {
        assert((a + b)[0] == a[0]);
        assert((a + b).skip(1) =~= a.skip(1) + b);
        lemma_esc_append(a.skip(1), b);
        assert(esc_byte(a[0]) + (esc(a.skip(1)) + esc(b)) =~= (esc_byte(a[0]) + esc(a.skip(1))) + esc(b));
    }
}
pub proof fn lemma_esc_step(s: Seq<u8>, i: int)
    requires 0 <= i < s.len(),
    ensures esc(s.take(i + 1)) == esc(s.take(i)) + esc_byte(s[i]),
{
    assert(s.take(i + 1) =~= s.take(i) + seq![s[i]]);
    lemma_esc_append(s.take(i), seq![s[i]]);
    let one = seq![s[i]];
    assert(one.skip(1) =~= Seq::<u8>::empty());
    assert(esc(one.skip(1)) =~= Seq::<u8>::empty());
    assert(one[0] == s[i]);
    assert(esc(one) == esc_byte(one[0]) + esc(one.skip(1)));
    assert(esc(one) =~= esc_byte(s[i]));
}
pub proof fn lemma_esc_plain(s: Seq<u8>, n: int)
    requires 0 <= n <= s.len(), forall|j: int| 0 <= j < n ==> !special(#[trigger] s[j]),
    ensures esc(s.take(n)) == s.take(n),
    decreases n,
{
    if n == 0 { assert(s.take(0) =~= Seq::<u8>::empty()); }
    else { lemma_esc_plain(s, n - 1); lemma_esc_step(s, n - 1); assert(s.take(n - 1) + seq![s[n - 1]] =~= s.take(n)); }
}

//@lift name=ldap_escape file=src/util.rs fn=ldap_escape
//@ sub "fn ldap_escape<'a, S: Into<Cow<'a, str>>>(lit: S) -> Cow<'a, str>" => "fn ldap_escape<'a>(lit: Cow<'a>) -> Cow<'a>"
//@ sub "fn needs_escape(c: u8) -> bool {" => "fn needs_escape(c: u8) -> (r: bool) ensures r == special(c) {"
//@ sub "fn xdigit(c: u8) -> u8 {" => "fn xdigit(c: u8) -> (r: u8) requires c < 16 ensures r == hexdig(c as int) {"
//@ sub "for (i, &c) in lit.as_bytes().iter().enumerate()" => "for (i, c) in verif_enumerate_bytes(lit.as_bytes()).into_iter()"
//@ sub ".extend(lit[..i].as_bytes())" => ".verif_extend_prefix_of(&lit, i)" count=*
//@ sub "let mut output = None;" => "let mut output: Option<Vec<u8>> = None;"
//@ ret r
//@ insert before "let mut output: Option<Vec<u8>> = None;"
    let ghost b = lit.bytes();
//@ loop 1 iter=it
        invariant
            b == lit.bytes(), it.seq().len() == b.len(), 2 * b.len() + 4096 <= usize::MAX,
            forall|j: int| 0 <= j < b.len() ==> (#[trigger] it.seq()[j]).0 == j && it.seq()[j].1 == b[j],
            output is None ==> (forall|j: int| 0 <= j < it.index@ ==> !special(#[trigger] b[j])),
            output matches Some(o) ==> o@ == esc(b.take(it.index@ as int)), //# C09.inv_output_is_the_escaping_of_the_bytes_read_so_far
            output is Some ==> (exists|j: int| 0 <= j < it.index@ && special(#[trigger] b[j])),
//@ insert loop-start 1
        proof {
            lemma_esc_step(b, it.index@ as int);
            assert((c >> 4) < 16 && (c & 0xF) < 16 && (c >> 4) == c / 16 && (c & 0xF) == c % 16) by(bit_vector);
            if output is None { lemma_esc_plain(b, it.index@ as int); }
        }
//@ insert loop-after 1
    proof {
        assert(b.take(b.len() as int) =~= b);
        if output is None { lemma_esc_plain(b, b.len() as int); }
        axiom_esc_keeps_utf8(b);
        if output is Some { axiom_utf8_decode_encode(output->0@); }
    }
//@ spec
    requires valid_utf8(lit.bytes()), 2 * lit.bytes().len() + 4096 <= usize::MAX,
    ensures
        r.bytes() == esc(lit.bytes()), //# C09.ldap_escape_is_the_rfc4515_escaping_for_every_string
        (forall|j: int| 0 <= j < lit.bytes().len() ==> !special(#[trigger] lit.bytes()[j])) ==> r == lit, //# C09.strings_that_need_no_escaping_are_returned_unchanged
//@end


// ---- RFC 4514 2.4 (hex form): " + , ; < > \ and NUL anywhere (the library also escapes '='), a leading space or '#', a
// trailing space become backslash + two hex digits
pub open spec fn dn_always(c: u8) -> bool { c == 0x22 || c == 0x2b || c == 0x2c || c == 0x3b || c == 0x3c || c == 0x3d || c == 0x3e || c == 0x5c || c == 0 }
pub open spec fn dn_special(v: Seq<u8>, i: int) -> bool {
    dn_always(v[i]) || (i == 0 && (v[i] == 0x20 || v[i] == 0x23)) || (i + 1 == v.len() && v[i] == 0x20)
}
pub open spec fn dn_piece(v: Seq<u8>, i: int) -> Seq<u8> { if dn_special(v, i) { seq![0x5cu8, hexdig(v[i] as int / 16), hexdig(v[i] as int % 16)] } else { seq![v[i]] } }
pub open spec fn dn_esc(v: Seq<u8>, n: nat) -> Seq<u8> decreases n { if n == 0 || n > v.len() { Seq::<u8>::empty() } else { dn_esc(v, (n - 1) as nat) + dn_piece(v, n - 1) } }
pub broadcast axiom fn axiom_dn_esc_keeps_utf8(v: Seq<u8>)
    requires valid_utf8(v),
    ensures valid_utf8(#[trigger] dn_esc(v, v.len()));
pub proof fn lemma_dn_esc_plain(v: Seq<u8>, n: nat)
    requires n <= v.len(), forall|j: int| 0 <= j < n ==> !dn_special(v, j),
    ensures dn_esc(v, n) == v.take(n as int),
    decreases n,
{
    if n == 0 { assert(v.take(0) =~= Seq::<u8>::empty()); }
    else { lemma_dn_esc_plain(v, (n - 1) as nat); assert(v.take((n - 1) as int) + seq![v[n - 1]] =~= v.take(n as int)); }
}

//@lift name=dn_escape file=src/util.rs fn=dn_escape
//@ sub "fn dn_escape<'a, S: Into<Cow<'a, str>>>(val: S) -> Cow<'a, str>" => "fn dn_escape<'a>(val: Cow<'a>) -> Cow<'a>"
//@ sub "fn always_escape(c: u8) -> bool {" => "fn always_escape(c: u8) -> (r: bool) ensures r == dn_always(c) {"
//@ sub "fn escape_leading(c: u8) -> bool {" => "fn escape_leading(c: u8) -> (r: bool) ensures r == (c == 0x20 || c == 0x23) {"
//@ sub "fn escape_trailing(c: u8) -> bool {" => "fn escape_trailing(c: u8) -> (r: bool) ensures r == (c == 0x20) {"
//@ sub "fn xdigit(c: u8) -> u8 {" => "fn xdigit(c: u8) -> (r: u8) requires c < 16 ensures r == hexdig(c as int) {"
//@ sub "for (i, &c) in val.as_bytes().iter().enumerate()" => "for (i, c) in verif_enumerate_bytes(val.as_bytes()).into_iter()"
//@ sub ".extend(val[..i].as_bytes())" => ".verif_extend_prefix_of(&val, i)" count=*
//@ sub "let mut output = None;" => "let mut output: Option<Vec<u8>> = None;"
//@ ret r
//@ insert before "let mut output: Option<Vec<u8>> = None;"
    let ghost b = val.bytes();
//@ loop 1 iter=it
        invariant
            b == val.bytes(), it.seq().len() == b.len(), 2 * b.len() + 4096 <= usize::MAX,
            forall|j: int| 0 <= j < b.len() ==> (#[trigger] it.seq()[j]).0 == j && it.seq()[j].1 == b[j],
            output is None ==> (forall|j: int| 0 <= j < it.index@ ==> !dn_special(b, j)),
            output matches Some(o) ==> o@ == dn_esc(b, it.index@ as nat), //# C09.inv_output_is_the_dn_escaping_of_the_bytes_read_so_far
            output is Some ==> (exists|j: int| 0 <= j < it.index@ && #[trigger] dn_special(b, j)),
//@ insert loop-start 1
        proof {
            assert((c >> 4) < 16 && (c & 0xF) < 16 && (c >> 4) == c / 16 && (c & 0xF) == c % 16) by(bit_vector);
            if output is None { lemma_dn_esc_plain(b, it.index@ as nat); }
        }
//@ insert loop-after 1
    proof {
        assert(b.take(b.len() as int) =~= b);
        if output is None { lemma_dn_esc_plain(b, b.len()); }
        axiom_dn_esc_keeps_utf8(b);
        if output is Some { axiom_utf8_decode_encode(output->0@); }
    }
//@ spec
    requires valid_utf8(val.bytes()), 2 * val.bytes().len() + 4096 <= usize::MAX,
    ensures
        r.bytes() == dn_esc(val.bytes(), val.bytes().len()), //# C09.dn_escape_is_the_rfc4514_hex_escaping_for_every_string
        (forall|j: int| 0 <= j < val.bytes().len() ==> !dn_special(val.bytes(), j)) ==> r == val, //# C09.values_that_need_no_escaping_are_returned_unchanged
//@end


// ---- ldap_unescape: the un-escaper run over ALL bytes of the text (RFC 4515 section 3 escapes)
pub open spec fn unf(b: Seq<u8>, st: Unescaper, acc: Seq<u8>) -> (Unescaper, Seq<u8>) decreases b.len() {
    if b.len() == 0 { (st, acc) } else {
        let st2 = feed_spec(st, b[0]);
        unf(b.skip(1), st2, if st2 is Value { acc.push(st2->Value_0) } else { acc })
    }
}
pub open spec fn un(b: Seq<u8>) -> (Unescaper, Seq<u8>) { unf(b, Unescaper::Value(0), Seq::<u8>::empty()) }
pub proof fn lemma_unf_append(a: Seq<u8>, b: Seq<u8>, st: Unescaper, acc: Seq<u8>)
    ensures unf(a + b, st, acc) == unf(b, unf(a, st, acc).0, unf(a, st, acc).1),
    decreases a.len(),
{
    if a.len() == 0 { assert(a + b =~= b); }
    else {
        assert((a + b)[0] == a[0]);
        assert((a + b).skip(1) =~= a.skip(1) + b);
        let st2 = feed_spec(st, a[0]);
        lemma_unf_append(a.skip(1), b, st2, if st2 is Value { acc.push(st2->Value_0) } else { acc });
    }
}
pub proof fn lemma_un_step(b: Seq<u8>, i: int)
    requires 0 <= i < b.len(),
    ensures ({ let p = un(b.take(i)); let st2 = feed_spec(p.0, b[i]); un(b.take(i + 1)) == (st2, if st2 is Value { p.1.push(st2->Value_0) } else { p.1 }) }),
{
    assert(b.take(i + 1) =~= b.take(i) + seq![b[i]]);
    lemma_unf_append(b.take(i), seq![b[i]], Unescaper::Value(0), Seq::<u8>::empty());
    let one = seq![b[i]];
    assert(one.skip(1) =~= Seq::<u8>::empty());
    assert(one[0] == b[i]);
    reveal_with_fuel(unf, 3);
}
pub proof fn lemma_wf_unf(b: Seq<u8>, st: Unescaper, acc: Seq<u8>)
    requires wf_un(st),
    ensures wf_un(unf(b, st, acc).0),
    decreases b.len(),
{
    if b.len() > 0 { let st2 = feed_spec(st, b[0]); lemma_wf_unf(b.skip(1), st2, if st2 is Value { acc.push(st2->Value_0) } else { acc }); }
}

//@lift name=ldap_unescape file=src/util.rs fn=ldap_unescape
//@ sub "fn ldap_unescape<'a, S: Into<Cow<'a, str>>>(val: S) -> Result<Cow<'a, str>>" => "fn ldap_unescape<'a>(val: Cow<'a>) -> Result<Cow<'a>>"
//@ sub "for (i, &c) in val.as_bytes().iter().enumerate()" => "for (i, c) in verif_enumerate_bytes(val.as_bytes()).into_iter()"
//@ sub ".extend(val[..i].as_bytes())" => ".verif_extend_prefix_of(&val, i)" count=*
//@ sub "let mut output = None;" => "let mut output: Option<Vec<u8>> = None;"
//@ sub ".map_err(|_| LdapError::DecodingUTF8)?" => ".map_err(|_e| LdapError::DecodingUTF8)?"
//@ ret r
//@ insert before "let mut output: Option<Vec<u8>> = None;"
    let ghost b = val.bytes();
//@ loop 1 iter=it
        invariant
            b == val.bytes(), it.seq().len() == b.len(), 2 * b.len() + 4096 <= usize::MAX,
            forall|j: int| 0 <= j < b.len() ==> (#[trigger] it.seq()[j]).0 == j && it.seq()[j].1 == b[j],
            esc == un(b.take(it.index@ as int)).0, wf_un(esc), //# C09.inv_state_is_the_automaton_run_over_the_bytes_read_so_far
            output is None ==> (esc is Value && un(b.take(it.index@ as int)).1 == b.take(it.index@ as int)),
            output matches Some(o) ==> o@ == un(b.take(it.index@ as int)).1, //# C09.inv_output_is_what_the_automaton_produced_so_far
//@ insert loop-start 1
        proof {
            lemma_un_step(b, it.index@ as int);
            lemma_wf_unf(b.take(it.index@ as int), Unescaper::Value(0), Seq::<u8>::empty());
            assert(b.take(it.index@ as int).push(b[it.index@ as int]) =~= b.take(it.index@ as int + 1));
        }
//@ insert loop-after 1
    proof {
        assert(b.take(b.len() as int) =~= b);
        if output is Some && valid_utf8(output->0@) { axiom_utf8_decode_encode(output->0@); }
    }
//@ spec
    requires valid_utf8(val.bytes()), 2 * val.bytes().len() + 4096 <= usize::MAX,
    ensures
        match r {
            Ok(c) => un(val.bytes()).0 is Value && c.bytes() == un(val.bytes()).1,
            Err(_) => !(un(val.bytes()).0 is Value) || !valid_utf8(un(val.bytes()).1),
        }, //# C09.ldap_unescape_is_the_rfc4515_unescaping_for_every_string
//@end


// ---- un-escaping inverts escaping, for every byte string (theorem over the two contracts above)
pub proof fn lemma_unf_esc_byte(c: u8, x: u8, acc: Seq<u8>)
    ensures unf(esc_byte(c), Unescaper::Value(x), acc) == (Unescaper::Value(c), acc.push(c)),
{
    reveal_with_fuel(unf, 5);
    let e = esc_byte(c);
    if special(c) {
        let h1 = hexdig(c as int / 16); let h2 = hexdig(c as int % 16);
        assert(e[0] == 0x5c && e[1] == h1 && e[2] == h2);
        assert(hexval(h1) == Some((c as int / 16) as u8) && hexval(h2) == Some((c as int % 16) as u8));
        assert(e.skip(1)[0] == h1); assert(e.skip(1).skip(1)[0] == h2);
        assert(e.skip(1).skip(1).skip(1) =~= Seq::<u8>::empty());
        assert(((c as int / 16) * 16 + (c as int % 16)) == c as int);
    } else {
        assert(e[0] == c);
        assert(e.skip(1) =~= Seq::<u8>::empty());
    }
}
pub proof fn lemma_unf_esc(v: Seq<u8>, x: u8, acc: Seq<u8>)
    ensures unf(esc(v), Unescaper::Value(x), acc).0 is Value, unf(esc(v), Unescaper::Value(x), acc).1 == acc + v,
    decreases v.len(),
{
    if v.len() == 0 { assert(acc + v =~= acc); }
    else {
        lemma_unf_append(esc_byte(v[0]), esc(v.skip(1)), Unescaper::Value(x), acc);
        lemma_unf_esc_byte(v[0], x, acc);
        lemma_unf_esc(v.skip(1), v[0], acc.push(v[0]));
        assert(acc.push(v[0]) + v.skip(1) =~= acc + v);
    }
}
pub proof fn theorem_unescape_inverts_escape(v: Seq<u8>)
    ensures un(esc(v)).0 is Value, un(esc(v)).1 == v, //# C09.ldap_unescape_of_ldap_escape_is_the_identity_for_every_string
{
    lemma_unf_esc(v, 0, Seq::<u8>::empty());
    assert(Seq::<u8>::empty() + v =~= v);
}
//@canary-begin
// must FAIL: `false` does not follow from the UTF-8 axioms and the lemmas of this unit
pub proof fn escape_axioms_consistent__canary(v: Seq<u8>)
    requires valid_utf8(v)
    ensures false
{
    axiom_esc_keeps_utf8(v); axiom_dn_esc_keeps_utf8(v); axiom_utf8_decode_encode(esc(v)); theorem_unescape_inverts_escape(v);
}
//@canary-end

} // verus!
fn main() {}
