// Unit V-connsetup: the address-resolution part of connection setup (src/conn.rs): the prefix of `LdapConnAsync::new_tcp`
// up to (not including) the socket connect -- scheme dispatch, default ports, explicit port, host fallback -- and the
// scheme test of `from_url_with_settings`.  The rest of connection establishment (sockets, timeouts, StartTLS, TLS) is not
// verified text.  Strings are compared as values (Verus knows string literals apart); `format!("{}:{}", h, port)` and
// `String::from(s)` are recorded idiom substitutions.  Serves C18 (partly).
use vstd::prelude::*;
use vstd::string::*;
verus! {

//@include contracts/shared/await.rs
#[derive(Clone, Copy)]
pub struct Duration { pub d: u64 }
pub enum StdStream { Tcp(u8), Unix(u8), Invalid }
// src/conn.rs LdapConnSettings, the fields this prefix touches (tls-native build)
pub struct LdapConnSettings { pub conn_timeout: Option<Duration>, pub starttls: bool, pub no_tls_verify: bool, pub std_stream: Option<StdStream> }
impl LdapConnSettings {
//@lift name=LdapConnSettings::starttls file=src/conn.rs impl="impl\s+LdapConnSettings\s*\{" fn=starttls nth=1
//@ ret r
//@ spec
    ensures r == self.starttls,   // (nth=1: the definition compiled when TLS support is in; the other cfg returns false)
//@end
//@lift name=LdapConnSettings::set_starttls file=src/conn.rs impl="impl\s+LdapConnSettings\s*\{" fn=set_starttls
//@ ret r
//@ spec
    ensures r.starttls == starttls, r.conn_timeout == self.conn_timeout, r.no_tls_verify == self.no_tls_verify, r.std_stream == self.std_stream,
//@end
}
// url::Url: what the prefix reads
pub struct Url { pub g: u8 }
impl Url {
    pub uninterp spec fn scheme_of(&self) -> &'static str;
    pub uninterp spec fn port_of(&self) -> Option<u16>;
    pub uninterp spec fn host_of(&self) -> Option<&'static str>;
    #[verifier::external_body] pub fn scheme(&self) -> (r: &str) ensures r == self.scheme_of() { unimplemented!() }
    #[verifier::external_body] pub fn port(&self) -> (r: Option<u16>) ensures r == self.port_of() { unimplemented!() }
    #[verifier::external_body] pub fn host_str(&self) -> (r: Option<&str>) ensures r == self.host_of() { unimplemented!() }
}
pub uninterp spec fn str_empty(s: &str) -> bool;
#[verifier::external_body]
pub fn verif_is_empty(s: &str) -> (r: bool) ensures r == str_empty(s) { unimplemented!() }
// idioms: format!("{}:{}", h, port) / format!("localhost:{}", port) / String::from(s)
pub uninterp spec fn host_port_of(h: &str, port: u16) -> Seq<char>;
#[verifier::external_body]
pub fn verif_host_port(h: &str, port: u16) -> (r: String) ensures r@ == host_port_of(h, port) { unimplemented!() }
#[verifier::external_body]
pub fn verif_string_of(s: &str) -> (r: String) ensures r@ == s@ { unimplemented!() }
pub enum LdapError { UnknownScheme(String), MismatchedStreamType, Timeout, Other(u8) }
pub type Result<T> = core::result::Result<T, LdapError>;

// what the prefix computes: the scheme to continue with, the settings, and the address to connect to
pub struct Resolved<'a> { pub scheme: &'a str, pub settings: LdapConnSettings, pub hostname: &'a str, pub host_port: String }

//@lift name=new_tcp file=src/conn.rs fn=new_tcp
//@ sub "fn new_tcp(url: &Url, mut settings: LdapConnSettings) -> Result<(Self, Ldap)>" => "fn new_tcp_resolve<'a>(url: &'a Url, settings0: LdapConnSettings) -> Result<Resolved<'a>>"
//@ sub "format!(\"{}:{}\", h, port)" => "verif_host_port(h, port)"
//@ sub "format!(\"localhost:{}\", port)" => "verif_host_port(\"localhost\", port)"
//@ sub "String::from(s)" => "verif_string_of(s)"
//@ sub "!h.is_empty()" => "!verif_is_empty(h)"
//@ cut before "let stream = match settings.std_stream {" return "Ok(Resolved { scheme: scheme, settings: settings, hostname: _hostname, host_port: host_port })"
//@ ret r
//@ insert entry
    let mut settings = settings0;
//@ spec
    ensures
        // RFC 4516 / the library's documentation: ldap -> 389, ldaps -> 636, an explicit port wins; unknown schemes are an error
        (url.scheme_of() != "ldap" && url.scheme_of() != "ldaps") ==> (r matches Err(LdapError::UnknownScheme(s)) && s@ == url.scheme_of()@), //# C18.unknown_scheme_is_an_error
        (url.scheme_of() == "ldap" || url.scheme_of() == "ldaps") ==> (r matches Ok(x) && ({
            let port: u16 = match url.port_of() { Some(p) => p, None => if url.scheme_of() == "ldaps" { 636u16 } else { 389u16 } };
            // a missing (empty) host means localhost
            let host: &str = match url.host_of() { Some(h) => if str_empty(h) { "localhost" } else { h }, None => "localhost" };
            &&& x.hostname == host
            &&& x.host_port@ == host_port_of(host, port) //# C18.default_ports_389_636_explicit_port_wins_missing_host_is_localhost
            &&& x.scheme == (if url.scheme_of() == "ldaps" { "ldaps" } else if settings0.starttls { "starttls" } else { "ldap" }) //# C18.ldaps_is_tls_ldap_is_cleartext_unless_starttls_was_asked_for
            &&& (url.scheme_of() == "ldaps" ==> !x.settings.starttls) && (url.scheme_of() == "ldap" ==> x.settings.starttls == settings0.starttls)
        })),
//@end


// ---- from_url_with_settings: ldapi goes to the Unix-socket path; everything else to TCP, and a connection timeout wraps the
// WHOLE TCP establishment (new_tcp includes StartTLS and the TLS handshake)
pub struct Pair { pub g: u8 }      // (LdapConnAsync, Ldap)
pub uninterp spec fn unix_outcome(url: Url, settings: LdapConnSettings) -> Result<Pair>;
pub uninterp spec fn tcp_outcome(url: Url, settings: LdapConnSettings) -> Result<Pair>;
pub uninterp spec fn timed_out(d: Duration, url: Url, settings: LdapConnSettings) -> bool;   // prophecy: the timer fires first
pub struct TcpFut { pub url: Ghost<Url>, pub settings: Ghost<LdapConnSettings> }
pub struct UnixFut { pub url: Ghost<Url>, pub settings: Ghost<LdapConnSettings> }
pub struct TimedFut { pub d: Duration, pub inner: TcpFut }
pub struct Elapsed { pub g: u8 }
impl TcpFut { #[verifier::external_body] pub fn verif_await(self) -> (r: Result<Pair>) ensures r == tcp_outcome(self.url@, self.settings@) { unimplemented!() } }
impl UnixFut { #[verifier::external_body] pub fn verif_await(self) -> (r: Result<Pair>) ensures r == unix_outcome(self.url@, self.settings@) { unimplemented!() } }
impl TimedFut {
    #[verifier::external_body]
    pub fn verif_await(self) -> (r: core::result::Result<Result<Pair>, Elapsed>)
        ensures r == (if timed_out(self.d, self.inner.url@, self.inner.settings@) { Err::<Result<Pair>, Elapsed>(Elapsed { g: 0 }) } else { Ok::<Result<Pair>, Elapsed>(tcp_outcome(self.inner.url@, self.inner.settings@)) })
    { unimplemented!() }
}
pub struct time { }
impl time { #[verifier::external_body] pub fn timeout(d: Duration, f: TcpFut) -> (r: TimedFut) ensures r.d == d, r.inner == f { unimplemented!() } }
pub struct LdapConnAsync { }
impl LdapConnAsync {
    #[verifier::external_body] pub fn new_unix(url: &Url, settings: LdapConnSettings) -> (f: UnixFut) ensures f.url@ == *url, f.settings@ == settings { unimplemented!() }
    #[verifier::external_body] pub fn new_tcp(url: &Url, settings: LdapConnSettings) -> (f: TcpFut) ensures f.url@ == *url, f.settings@ == settings { unimplemented!() }
}
impl vstd::std_specs::convert::FromSpecImpl<Elapsed> for LdapError { open spec fn obeys_from_spec() -> bool { true } open spec fn from_spec(e: Elapsed) -> LdapError { LdapError::Timeout } }
impl From<Elapsed> for LdapError { #[verifier::external_body] fn from(e: Elapsed) -> (r: LdapError) { unimplemented!() } }
#[verifier::external_body]
pub fn verif_str_eq(a: &str, b: &str) -> (r: bool) ensures r == (a == b) { unimplemented!() }

// what from_url_with_settings (lifted below) returns, as a function of its arguments
pub open spec fn establish(settings: LdapConnSettings, url: Url, r: Result<Pair>) -> bool {
    if url.scheme_of() == "ldapi" { r == unix_outcome(url, settings) } else {
        let s2 = LdapConnSettings { conn_timeout: None, starttls: settings.starttls, no_tls_verify: settings.no_tls_verify, std_stream: settings.std_stream };
        match settings.conn_timeout { Some(t) => if timed_out(t, url, s2) { r is Err } else { r == tcp_outcome(url, s2) }, None => r == tcp_outcome(url, s2) }
    }
}
// Rust's str equality is equality of content (Verus' `==` on &str values is identity of the abstract value): needed because
// the contracts here compare strings by value while `a == b` on two &str is specified over their contents
#[verifier::external_body]
pub broadcast proof fn axiom_str_eq_is_content_eq(a: &str, b: &str)
    ensures (#[trigger] a@ == #[trigger] b@) ==> a == b
{ }
//@lift name=from_url_with_settings file=src/conn.rs fn=from_url_with_settings
//@ insert entry
    broadcast use axiom_str_eq_is_content_eq;
//@ sub "Result<(Self, Ldap)>" => "Result<Pair>"
//@ ret r
//@ spec
    ensures
        url.scheme_of() == "ldapi" ==> r == unix_outcome(*url, settings), //# C18.ldapi_goes_to_the_unix_socket_path
        url.scheme_of() != "ldapi" ==> ({
            let s2 = LdapConnSettings { conn_timeout: None, starttls: settings.starttls, no_tls_verify: settings.no_tls_verify, std_stream: settings.std_stream };
            match settings.conn_timeout {
                // the timer runs against the whole TCP establishment, StartTLS and TLS handshake included
                Some(t) => if timed_out(t, *url, s2) { r is Err } else { r == tcp_outcome(*url, s2) },
                None => r == tcp_outcome(*url, s2),
            } }), //# C18.connection_timeout_bounds_the_whole_tcp_establishment
        establish(settings, *url, r),
//@end

// ---- the public entry points: with_settings / new / from_url -- parse the URL, pass the settings on unchanged
pub struct ParseError { pub g: u8 }
pub uninterp spec fn url_parse(s: &str) -> core::result::Result<Url, ParseError>;
impl Url { #[verifier::external_body] pub fn parse(s: &str) -> (r: core::result::Result<Url, ParseError>) ensures r == url_parse(s) { unimplemented!() } }
impl vstd::std_specs::convert::FromSpecImpl<ParseError> for LdapError { open spec fn obeys_from_spec() -> bool { false } open spec fn from_spec(e: ParseError) -> LdapError { LdapError::Other(0) } }
impl From<ParseError> for LdapError { #[verifier::external_body] fn from(e: ParseError) -> (r: LdapError) { unimplemented!() } }
// #[derive(Default)] on LdapConnSettings: no timeout, no StartTLS, certificate verification ON, no pre-opened stream
impl Default for LdapConnSettings {
    #[verifier::external_body]
    fn default() -> (r: LdapConnSettings) ensures r.conn_timeout is None, !r.starttls, !r.no_tls_verify, r.std_stream is None { unimplemented!() }
}
pub open spec fn default_settings(s: LdapConnSettings) -> bool { s.conn_timeout is None && !s.starttls && !s.no_tls_verify && s.std_stream is None }
impl LdapConnSettings {
    // the other setters (proved on the real text in unit V-tls); here so that a change which calls one is decided
    #[verifier::external_body] pub fn set_no_tls_verify(self, no_tls_verify: bool) -> (r: Self) ensures r == (LdapConnSettings { no_tls_verify: no_tls_verify, ..self }) { unimplemented!() }
    #[verifier::external_body] pub fn set_conn_timeout(self, timeout: Duration) -> (r: Self) ensures r == (LdapConnSettings { conn_timeout: Some(timeout), ..self }) { unimplemented!() }
    #[verifier::external_body] pub fn set_std_stream(self, stream: StdStream) -> (r: Self) ensures r == (LdapConnSettings { std_stream: Some(stream), ..self }) { unimplemented!() }
//@lift name=LdapConnSettings::new file=src/conn.rs impl="impl\s+LdapConnSettings\s*\{" fn=new
//@ ret r
//@ spec
    ensures default_settings(r), //# C17+C18.default_settings_no_starttls_verification_on_no_timeout
//@end
}
//@lift name=LdapConnAsync::with_settings file=src/conn.rs impl="impl\s+LdapConnAsync\s*\{" fn=with_settings
//@ sub "Result<(Self, Ldap)>" => "Result<Pair>"
//@ sub "Self::from_url_with_settings(" => "from_url_with_settings("
//@ ret r
//@ spec
    ensures
        url_parse(url) is Err ==> r is Err, //# C18.an_unparsable_url_is_an_error
        url_parse(url) matches Ok(u) ==> establish(settings, u, r), //# C17+C18.with_settings_passes_the_callers_settings_on_unchanged
//@end
//@lift name=LdapConnAsync::new file=src/conn.rs impl="impl\s+LdapConnAsync\s*\{" fn=new
//@ sub "Result<(Self, Ldap)>" => "Result<Pair>"
//@ sub "Self::with_settings(" => "with_settings("
//@ sub "fn new(" => "fn ldapconnasync_new("
//@ ret r
//@ spec
    ensures
        url_parse(url) is Err ==> r is Err,
        url_parse(url) matches Ok(u) ==> exists|s: LdapConnSettings| default_settings(s) && #[trigger] establish(s, u, r), //# C17+C18.new_uses_the_default_settings
//@end
//@lift name=LdapConnAsync::from_url file=src/conn.rs impl="impl\s+LdapConnAsync\s*\{" fn=from_url
//@ sub "Result<(Self, Ldap)>" => "Result<Pair>"
//@ sub "Self::from_url_with_settings(" => "from_url_with_settings("
//@ ret r
//@ spec
    ensures exists|s: LdapConnSettings| default_settings(s) && #[trigger] establish(s, *url, r), //# C17+C18.from_url_uses_the_default_settings
//@end

// ---- new_unix (cfg(unix)): the ldapi path -- which socket path is connected to, and the refusals before any connect
pub enum ConnType { Unix(UnixStream), Tcp(u8) }
pub struct UnixStream { pub path: Ghost<Seq<char>>, pub from_std: bool }
pub struct UnixConnFut { pub path: Ghost<Seq<char>> }
pub uninterp spec fn unix_connect_ok(path: Seq<char>) -> bool;
impl UnixConnFut {
    #[verifier::external_body]
    pub fn verif_await(self) -> (r: Result<UnixStream>)
        ensures r is Ok <==> unix_connect_ok(self.path@), r matches Ok(st) ==> st.path@ == self.path@ && !st.from_std
    { unimplemented!() }
}
impl UnixStream {
    #[verifier::external_body] pub fn connect(p: &str) -> (f: UnixConnFut) ensures f.path@ == p@ { unimplemented!() }
    // tokio: "The caller is responsible for ensuring that the stream is in non-blocking mode" -- a blocking descriptor stalls the runtime
    #[verifier::external_body] pub fn from_std(s: StdUnix) -> (r: Result<UnixStream>)
        requires nonblocking_unix(s), //# C04+C18.a_pre_opened_stream_is_switched_to_non_blocking_mode_before_tokio_gets_it
        ensures r matches Ok(st) ==> st.from_std { unimplemented!() }
}
pub struct StdUnix { pub g: u8 }
// the mode the descriptor is in when it is handed over (a prophecy-style attribute: set_nonblocking fixes it; calling it twice
// with different values would make the assumptions contradictory, which the unit's `ensures false` canary would expose)
pub uninterp spec fn nonblocking_unix(s: StdUnix) -> bool;
impl StdUnix { #[verifier::external_body] pub fn set_nonblocking(&self, b: bool) -> (r: Result<()>) ensures r is Ok ==> nonblocking_unix(*self) == b { unimplemented!() } }
pub enum StdStream2 { Tcp(u8), Unix(StdUnix), Invalid }
pub struct Settings2 { pub std_stream: Option<StdStream2> }
// idioms: `path.contains(':')`, `percent_decode(path.as_bytes()).decode_utf8_lossy()` (RFC 3986 percent-decoding)
// `s.contains(':')` on a &str or a String: by content
pub open spec fn has_colon_v(s: Seq<char>) -> bool { s.contains(':') }
pub open spec fn has_colon(s: &str) -> bool { has_colon_v(s@) }
pub trait ContainsColon { fn verif_contains_colon(&self) -> bool; }
impl ContainsColon for str { #[verifier::external_body] fn verif_contains_colon(&self) -> (r: bool) ensures r == has_colon_v(self@) { unimplemented!() } }
impl ContainsColon for String { #[verifier::external_body] fn verif_contains_colon(&self) -> (r: bool) ensures r == has_colon_v(self@) { unimplemented!() } }
pub uninterp spec fn percent_decoded(s: &str) -> Seq<char>;
#[verifier::external_body] pub fn verif_percent_decode_lossy(s: &str) -> (r: String) ensures r@ == percent_decoded(s) { unimplemented!() }
pub struct Conn { pub ct: ConnType }
impl Conn { #[verifier::external_body] pub fn conn_pair(ct: ConnType) -> (r: Conn) ensures r.ct == ct { unimplemented!() } }
pub enum LdapError2 { EmptyUnixPath, PortInUnixPath, MismatchedStreamType, Io(u8) }
impl vstd::std_specs::convert::FromSpecImpl<LdapError> for LdapError2 { open spec fn obeys_from_spec() -> bool { false } open spec fn from_spec(e: LdapError) -> LdapError2 { LdapError2::Io(0) } }
impl From<LdapError> for LdapError2 { #[verifier::external_body] fn from(e: LdapError) -> (r: LdapError2) { unimplemented!() } }

pub open spec fn unix_path(url: &Url) -> &'static str { match url.host_of() { Some(h) => h, None => "" } }
//@lift name=new_unix file=src/conn.rs fn=new_unix nth=1
//@ sub "fn new_unix(url: &Url, settings: LdapConnSettings) -> Result<(Self, Ldap)>" => "fn new_unix(url: &Url, settings: Settings2) -> core::result::Result<Conn, LdapError2>"
//@ sub "StdStream::" => "StdStream2::" count=*
//@ sub "LdapError::" => "LdapError2::" count=*
//@ sub "path.is_empty()" => "verif_is_empty(path)"
//@ sub ".contains(':')" => ".verif_contains_colon()" count=*
//@ sub "let dec_path = percent_decode(path.as_bytes()).decode_utf8_lossy();" => "let dec_path = verif_percent_decode_lossy(path);"
//@ sub "dec_path.as_ref()" => "dec_path.as_str()" count=*
//@ sub "Self::conn_pair(" => "Conn::conn_pair("
//@ ret r
//@ spec
    ensures
        (settings.std_stream is None && str_empty(unix_path(url))) ==> r matches Err(LdapError2::EmptyUnixPath), //# C18.empty_ldapi_path_is_an_error
        (settings.std_stream is None && !str_empty(unix_path(url)) && has_colon(unix_path(url))) ==> r matches Err(LdapError2::PortInUnixPath), //# C18.port_bearing_ldapi_path_is_an_error
        (settings.std_stream is None && !str_empty(unix_path(url)) && !has_colon(unix_path(url)) && unix_connect_ok(percent_decoded(unix_path(url))))
            ==> (r matches Ok(c) && (c.ct matches ConnType::Unix(st) && st.path@ == percent_decoded(unix_path(url)))), //# C18.ldapi_connects_to_the_percent_decoded_socket_path
        (settings.std_stream is None && !str_empty(unix_path(url)) && !has_colon(unix_path(url)) && !unix_connect_ok(percent_decoded(unix_path(url)))) ==> r is Err, //# C18.an_unreachable_socket_is_an_error
        // a pre-opened stream is used only if its type matches the scheme
        (settings.std_stream matches Some(StdStream2::Unix(_))) ==> (r matches Ok(c) ==> (c.ct matches ConnType::Unix(st) && st.from_std)),
        (settings.std_stream matches Some(StdStream2::Tcp(_))) || (settings.std_stream matches Some(StdStream2::Invalid)) ==> r matches Err(LdapError2::MismatchedStreamType), //# C18.mismatched_pre_opened_stream_is_an_error
//@end
// ---- the synchronous constructors (src/sync.rs): LdapConn::new / with_settings / from_url / from_url_with_settings.
// They build a current-thread runtime, run the asynchronous from_url_with_settings on it with the caller's settings and URL,
// spawn the driver for the connection half and keep the handle half.  The asynchronous function is called through its
// contract (`establish`, proved above on the real text); the runtime is a stub.  Rule R6 replaces `rt.block_on(async move
// { E })` by `{ E }`: the `return Err(e)` inside the block then leaves the function instead of the block, which is the
// same result because the block's value goes through `?` with the identical error type.
pub struct IoError { pub g: u8 }
impl vstd::std_specs::convert::FromSpecImpl<IoError> for LdapError { open spec fn obeys_from_spec() -> bool { false } open spec fn from_spec(e: IoError) -> LdapError { LdapError::Other(0) } }
impl From<IoError> for LdapError { #[verifier::external_body] fn from(e: IoError) -> (r: LdapError) { unimplemented!() } }
pub struct Runtime { pub g: u8 }
pub mod runtime {
    use super::*;
    pub struct Builder { pub g: u8 }
    impl Builder {
        #[verifier::external_body] pub fn new_current_thread() -> (r: Builder) { unimplemented!() }
        #[verifier::external_body] pub fn enable_all(self) -> (r: Builder) { unimplemented!() }
        #[verifier::external_body] pub fn build(self) -> (r: core::result::Result<Runtime, IoError>) { unimplemented!() }
    }
}
pub struct ConnHalf { pub of: Ghost<Pair> }
pub struct Ldap { pub of: Ghost<Pair> }
pub struct LdapConn { pub rt: Runtime, pub ldap: Ldap }
// LdapConnAsync::from_url_with_settings seen from sync.rs: its contract (`establish`), with the pair split into its halves
#[verifier::external_body]
pub fn async_from_url_with_settings(settings: LdapConnSettings, url: &Url) -> (r: Result<(ConnHalf, Ldap)>)
    ensures exists|ra: Result<Pair>| #[trigger] establish(settings, *url, ra) && (match ra {
        Ok(p) => r matches Ok(t) && t.0.of@ == p && t.1.of@ == p,
        Err(e) => r matches Err(e2) && e2 == e })
{ unimplemented!() }
// `super::drive!(conn)`: tokio::spawn of conn.drive(); returns (ghost) whose connection half was handed to the driver task
#[verifier::external_body]
pub fn verif_spawn_drive(conn: ConnHalf) -> (d: Ghost<Pair>) ensures d@ == conn.of@ { unimplemented!() }
pub open spec fn sync_establish(settings: LdapConnSettings, url: Url, r: Result<LdapConn>) -> bool {
    r is Ok ==> exists|ra: Result<Pair>| #[trigger] establish(settings, url, ra) && (ra is Ok) && r->Ok_0.ldap.of@ == ra->Ok_0
}
//@lift name=LdapConn::from_url_with_settings file=src/sync.rs impl="impl\s+LdapConn\s*\{" fn=from_url_with_settings
//@ sub "fn from_url_with_settings(" => "fn sync_from_url_with_settings("
//@ sub "Result<Self>" => "Result<LdapConn>"
//@ sub "LdapConnAsync::from_url_with_settings(" => "async_from_url_with_settings("
//@ sub "super::drive!(conn);" => "let driven = verif_spawn_drive(conn);"
//@ sub "            Ok(ldap)\n" => "            Ok::<Ldap, LdapError>(ldap)\n"
//@ insert after "let driven = verif_spawn_drive(conn);"
            assert(driven@ == ldap.of@); //# C04+C14+C18.the_driver_is_spawned_for_the_connection_half_of_the_handle_that_is_kept
//@ ret r
//@ spec
    ensures
        sync_establish(settings, *url, r), //# C14+C17+C18.sync_constructor_establishes_with_the_callers_settings_and_url
        (forall|ra: Result<Pair>| establish(settings, *url, ra) ==> ra is Err) ==> r is Err, //# C14+C17+C18.sync_constructor_fails_when_the_asynchronous_establishment_fails
//@end
//@lift name=LdapConn::with_settings file=src/sync.rs impl="impl\s+LdapConn\s*\{" fn=with_settings
//@ sub "fn with_settings(" => "fn sync_with_settings("
//@ sub "Result<Self>" => "Result<LdapConn>"
//@ sub "Self::from_url_with_settings(" => "sync_from_url_with_settings("
//@ ret r
//@ spec
    ensures
        url_parse(url) is Err ==> r is Err, //# C14+C18.sync_with_settings_an_unparsable_url_is_an_error
        url_parse(url) matches Ok(u) ==> sync_establish(settings, u, r), //# C14+C17+C18.sync_with_settings_passes_the_callers_settings_on_unchanged
//@end
//@lift name=LdapConn::new file=src/sync.rs impl="impl\s+LdapConn\s*\{" fn=new
//@ sub "fn new(" => "fn sync_new("
//@ sub "Result<Self>" => "Result<LdapConn>"
//@ sub "Self::with_settings(" => "sync_with_settings("
//@ ret r
//@ spec
    ensures
        url_parse(url) is Err ==> r is Err,
        url_parse(url) matches Ok(u) ==> exists|s: LdapConnSettings| default_settings(s) && #[trigger] sync_establish(s, u, r), //# C14+C17+C18.sync_new_uses_the_default_settings
//@end
//@lift name=LdapConn::from_url file=src/sync.rs impl="impl\s+LdapConn\s*\{" fn=from_url
//@ sub "fn from_url(" => "fn sync_from_url("
//@ sub "Result<Self>" => "Result<LdapConn>"
//@ sub "Self::from_url_with_settings(" => "sync_from_url_with_settings("
//@ ret r
//@ spec
    ensures exists|s: LdapConnSettings| default_settings(s) && #[trigger] sync_establish(s, *url, r), //# C14+C17+C18.sync_from_url_uses_the_default_settings
//@end

} // verus!
fn main() {}
