// Unit V-connsetup: the address-resolution part of connection setup (src/conn.rs): the prefix of `LdapConnAsync::new_tcp`
// up to (not including) the socket connect -- scheme dispatch, default ports, explicit port, host fallback -- and the
// scheme test of `from_url_with_settings`.  The rest of connection establishment (sockets, timeouts, StartTLS, TLS) is not
// verified text.  Strings are compared as values (Verus knows string literals apart); `format!("{}:{}", h, port)` and
// `String::from(s)` are recorded idiom substitutions.  Serves C18 (partly).
use vstd::prelude::*;
use vstd::string::*;
verus! {

pub struct Duration { pub d: u64 }
pub enum StdStream { Tcp(u8), Unix(u8), Invalid }
// src/conn.rs LdapConnSettings, the fields this prefix touches (tls-native build)
pub struct LdapConnSettings { pub conn_timeout: Option<Duration>, pub starttls: bool, pub no_tls_verify: bool, pub std_stream: Option<StdStream> }
impl LdapConnSettings {
    // `starttls()` has one definition per cfg (TLS compiled in or not); the TLS build's is `self.starttls`
    pub fn starttls(&self) -> (r: bool) ensures r == self.starttls { self.starttls }
//@lift name=LdapConnSettings::set_starttls file=src/conn.rs impl="impl\s+LdapConnSettings\s*\{" fn=set_starttls
//@ sub "fn set_starttls(mut self, starttls: bool) -> Self" => "fn set_starttls(self, starttls: bool) -> Self"
//@ sub "self.starttls = starttls;\n        self" => "let mut verif_self = self; verif_self.starttls = starttls;\n        verif_self"
//@ ret r
//@ spec
    ensures r.starttls == starttls, r.conn_timeout == self.conn_timeout, r.no_tls_verify == self.no_tls_verify, r.std_stream == self.std_stream,
//@end
}
// url::Url: what the prefix reads
pub struct Url { pub g: u8 }
impl Url {
    pub uninterp spec fn scheme_of(&self) -> &'static str;
    pub uninterp spec fn port_of(&self) -> Option<u16>;
    pub uninterp spec fn host_of(&self) -> Option<&'static str>;
    #[verifier::external_body] pub fn scheme(&self) -> (r: &str) ensures r == self.scheme_of() { unimplemented!() }
    #[verifier::external_body] pub fn port(&self) -> (r: Option<u16>) ensures r == self.port_of() { unimplemented!() }
    #[verifier::external_body] pub fn host_str(&self) -> (r: Option<&str>) ensures r == self.host_of() { unimplemented!() }
}
pub uninterp spec fn str_empty(s: &str) -> bool;
#[verifier::external_body]
pub fn verif_is_empty(s: &str) -> (r: bool) ensures r == str_empty(s) { unimplemented!() }
// idioms: format!("{}:{}", h, port) / format!("localhost:{}", port) / String::from(s)
pub uninterp spec fn host_port_of(h: &str, port: u16) -> Seq<char>;
#[verifier::external_body]
pub fn verif_host_port(h: &str, port: u16) -> (r: String) ensures r@ == host_port_of(h, port) { unimplemented!() }
#[verifier::external_body]
pub fn verif_string_of(s: &str) -> (r: String) ensures r@ == s@ { unimplemented!() }
pub enum LdapError { UnknownScheme(String), MismatchedStreamType, Other(u8) }
pub type Result<T> = core::result::Result<T, LdapError>;

// what the prefix computes: the scheme to continue with, the settings, and the address to connect to
pub struct Resolved<'a> { pub scheme: &'a str, pub settings: LdapConnSettings, pub hostname: &'a str, pub host_port: String }

//@lift name=new_tcp file=src/conn.rs fn=new_tcp
//@ sub "fn new_tcp(url: &Url, mut settings: LdapConnSettings) -> Result<(Self, Ldap)>" => "fn new_tcp_resolve<'a>(url: &'a Url, settings0: LdapConnSettings) -> Result<Resolved<'a>>"
//@ sub "format!(\"{}:{}\", h, port)" => "verif_host_port(h, port)"
//@ sub "format!(\"localhost:{}\", port)" => "verif_host_port(\"localhost\", port)"
//@ sub "String::from(s)" => "verif_string_of(s)"
//@ sub "!h.is_empty()" => "!verif_is_empty(h)"
//@ cut before "let stream = match settings.std_stream {" return "Ok(Resolved { scheme: scheme, settings: settings, hostname: _hostname, host_port: host_port })"
//@ ret r
//@ insert entry
    let mut settings = settings0;
//@ spec
    ensures
        // RFC 4516 / the library's documentation: ldap -> 389, ldaps -> 636, an explicit port wins; unknown schemes are an error
        (url.scheme_of() != "ldap" && url.scheme_of() != "ldaps") ==> (r matches Err(LdapError::UnknownScheme(s)) && s@ == url.scheme_of()@), //# C18.unknown_scheme_is_an_error
        (url.scheme_of() == "ldap" || url.scheme_of() == "ldaps") ==> (r matches Ok(x) && ({
            let port: u16 = match url.port_of() { Some(p) => p, None => if url.scheme_of() == "ldaps" { 636u16 } else { 389u16 } };
            // a missing (empty) host means localhost
            let host: &str = match url.host_of() { Some(h) => if str_empty(h) { "localhost" } else { h }, None => "localhost" };
            &&& x.hostname == host
            &&& x.host_port@ == host_port_of(host, port) //# C18.default_ports_389_636_explicit_port_wins_missing_host_is_localhost
            &&& x.scheme == (if url.scheme_of() == "ldaps" { "ldaps" } else if settings0.starttls { "starttls" } else { "ldap" }) //# C18.ldaps_is_tls_ldap_is_cleartext_unless_starttls_was_asked_for
            &&& (url.scheme_of() == "ldaps" ==> !x.settings.starttls) && (url.scheme_of() == "ldap" ==> x.settings.starttls == settings0.starttls)
        })),
//@end

} // verus!
fn main() {}
