// Unit V-tls: the TLS part of connection establishment (src/conn.rs, tls-native build): `create_connector`,
// `create_tls_stream`, and the SUFFIX of `new_tcp` that follows the TCP connect (lifter L4b, `cut from`): the StartTLS
// exchange, the handshake, and the swap of the transport.  tokio's spawn / try_join! and the native-tls connector are stubs
// with prophecy-style outcomes; what is decided is the CONTROL FLOW around them.  Serves C17 (partly).
use vstd::prelude::*;
use vstd::string::*;
verus! {

//@include contracts/shared/await.rs

pub enum LdapError { UnknownScheme(String), MismatchedStreamType, Tls(u8), Recv, Other(u8) }
pub type Result<T> = core::result::Result<T, LdapError>;
// native_tls::TlsConnectorBuilder: the knobs that weaken what the handshake checks (all off by default)
pub struct TlsConnector { pub accept_invalid_certs: bool, pub accept_invalid_hostnames: bool, pub no_built_in_roots: bool, pub no_sni: bool, pub custom: bool }
pub struct TlsBuilder { pub accept_invalid_certs: bool, pub accept_invalid_hostnames: bool, pub no_built_in_roots: bool, pub no_sni: bool }
impl TlsConnector {
    #[verifier::external_body] pub fn builder() -> (r: TlsBuilder) ensures !r.accept_invalid_certs, !r.accept_invalid_hostnames, !r.no_built_in_roots, !r.no_sni { unimplemented!() }
}
impl TlsBuilder {
    #[verifier::external_body] pub fn danger_accept_invalid_certs(&mut self, b: bool) -> (r: &mut TlsBuilder)
        ensures *final(self) == (TlsBuilder { accept_invalid_certs: b, ..*old(self) }), *final(r) == *final(self) { unimplemented!() }
    #[verifier::external_body] pub fn danger_accept_invalid_hostnames(&mut self, b: bool) -> (r: &mut TlsBuilder)
        ensures *final(self) == (TlsBuilder { accept_invalid_hostnames: b, ..*old(self) }), *final(r) == *final(self) { unimplemented!() }
    #[verifier::external_body] pub fn disable_built_in_roots(&mut self, b: bool) -> (r: &mut TlsBuilder)
        ensures *final(self) == (TlsBuilder { no_built_in_roots: b, ..*old(self) }), *final(r) == *final(self) { unimplemented!() }
    #[verifier::external_body] pub fn use_sni(&mut self, b: bool) -> (r: &mut TlsBuilder)
        ensures *final(self) == (TlsBuilder { no_sni: !b, ..*old(self) }), *final(r) == *final(self) { unimplemented!() }
    #[verifier::external_body] pub fn build(&self) -> (r: core::result::Result<TlsConnector, u8>) ensures r matches Ok(c) && c.accept_invalid_certs == self.accept_invalid_certs && c.accept_invalid_hostnames == self.accept_invalid_hostnames
            && c.no_built_in_roots == self.no_built_in_roots && c.no_sni == self.no_sni && !c.custom { unimplemented!() }
}
pub struct StdTcp { pub id: int }
// the mode the descriptor is in when it is handed to tokio (prophecy-style attribute fixed by set_nonblocking)
pub uninterp spec fn nonblocking_tcp(s: StdTcp) -> bool;
impl StdTcp { #[verifier::external_body] pub fn set_nonblocking(&self, b: bool) -> (r: Result<()>) ensures r is Ok ==> nonblocking_tcp(*self) == b { unimplemented!() } }
pub enum StdStream { Tcp(StdTcp), Unix(u8), Invalid }
pub struct LdapConnSettings { pub conn_timeout: Option<Duration>, pub connector: Option<TlsConnector>, pub starttls: bool, pub no_tls_verify: bool, pub std_stream: Option<StdStream> }
pub struct Duration { pub d: u64 }
impl LdapConnSettings {
// the builder-style setters: each replaces exactly its own setting (what a caller "explicitly asked for" is what is stored)
//@lift name=LdapConnSettings::set_no_tls_verify file=src/conn.rs impl="impl\s+LdapConnSettings\s*\{" fn=set_no_tls_verify
//@ ret r
//@ spec
    ensures r == (LdapConnSettings { no_tls_verify: no_tls_verify, ..self }), //# C17.verification_is_switched_off_only_by_the_callers_own_flag
//@end
//@lift name=LdapConnSettings::set_connector file=src/conn.rs impl="impl\s+LdapConnSettings\s*\{" fn=set_connector
//@ ret r
//@ spec
    ensures r == (LdapConnSettings { connector: Some(connector), ..self }), //# C17.a_custom_connector_replaces_only_the_connector
//@end
//@lift name=LdapConnSettings::set_std_stream file=src/conn.rs impl="impl\s+LdapConnSettings\s*\{" fn=set_std_stream
//@ ret r
//@ spec
    ensures r == (LdapConnSettings { std_stream: Some(stream), ..self }), //# C18.a_pre_opened_stream_replaces_only_the_stream_setting
//@end
//@lift name=LdapConnSettings::set_conn_timeout file=src/conn.rs impl="impl\s+LdapConnSettings\s*\{" fn=set_conn_timeout
//@ ret r
//@ spec
    ensures r == (LdapConnSettings { conn_timeout: Some(timeout), ..self }), //# C18.the_connection_timeout_setter_replaces_only_the_timeout
//@end
//@lift name=LdapConnSettings::set_starttls::tls file=src/conn.rs impl="impl\s+LdapConnSettings\s*\{" fn=set_starttls
//@ sub "fn set_starttls(" => "fn set_starttls_real("
//@ ret r
//@ spec
    ensures r == (LdapConnSettings { starttls: starttls, ..self }), //# C17.starttls_is_requested_exactly_when_the_caller_set_it
//@end
    // V-connsetup proves both on the real text (C18 unit)
    #[verifier::external_body] pub fn starttls(&self) -> (r: bool) ensures r == self.starttls { unimplemented!() }
    #[verifier::external_body] pub fn set_starttls(self, starttls: bool) -> (r: Self)
        ensures r == (LdapConnSettings { starttls: starttls, ..self }) { unimplemented!() }
}
// a TCP stream: a ghost identity, and where it came from (connected by the library to an address, or handed in pre-opened)
pub struct TcpStream { pub id: int, pub peer: Seq<char>, pub pre_opened: bool }
pub struct TcpConnFut { pub addr: Ghost<Seq<char>> }
impl TcpConnFut { #[verifier::external_body] pub fn verif_await(self) -> (r: Result<TcpStream>) ensures r matches Ok(t) ==> t.peer == self.addr@ && !t.pre_opened { unimplemented!() } }
impl TcpStream {
    #[verifier::external_body] pub fn connect(a: &str) -> (f: TcpConnFut) ensures f.addr@ == a@ { unimplemented!() }
    // tokio: "The caller is responsible for ensuring that the stream is in non-blocking mode"
    #[verifier::external_body] pub fn from_std(s: StdTcp) -> (r: Result<TcpStream>)
        requires nonblocking_tcp(s), //# C04+C18.a_pre_opened_stream_is_switched_to_non_blocking_mode_before_tokio_gets_it
        ensures r matches Ok(t) ==> t.id == s.id && t.pre_opened { unimplemented!() }
}
// url::Url: what new_tcp reads
pub struct Url { pub g: u8 }
impl Url {
    pub uninterp spec fn scheme_of(&self) -> &'static str;
    pub uninterp spec fn port_of(&self) -> Option<u16>;
    pub uninterp spec fn host_of(&self) -> Option<&'static str>;
    #[verifier::external_body] pub fn scheme(&self) -> (r: &str) ensures r == self.scheme_of() { unimplemented!() }
    #[verifier::external_body] pub fn port(&self) -> (r: Option<u16>) ensures r == self.port_of() { unimplemented!() }
    #[verifier::external_body] pub fn host_str(&self) -> (r: Option<&str>) ensures r == self.host_of() { unimplemented!() }
}
pub uninterp spec fn str_empty(s: &str) -> bool;
#[verifier::external_body]
pub fn verif_is_empty(s: &str) -> (r: bool) ensures r == str_empty(s) { unimplemented!() }
pub uninterp spec fn host_port_of(h: &str, port: u16) -> Seq<char>;
#[verifier::external_body]
pub fn verif_host_port(h: &str, port: u16) -> (r: String) ensures r@ == host_port_of(h, port) { unimplemented!() }
#[verifier::external_body]
pub fn verif_string_of(s: &str) -> (r: String) ensures r@ == s@ { unimplemented!() }
// a TLS session: over which TCP stream, for which server name, verified or not (ghost record of the handshake)
pub struct TlsStream { pub over: TcpStream, pub server_name: Seq<char>, pub by: TlsConnector }
impl TlsStream {
    // the certificate chain was validated against the built-in roots, and the certificate was checked against the server name
    pub open spec fn verified(self) -> bool { !self.by.accept_invalid_certs && !self.by.no_built_in_roots }
    pub open spec fn name_checked(self) -> bool { !self.by.accept_invalid_certs && !self.by.accept_invalid_hostnames }
}
pub uninterp spec fn handshake_ok(tcp: int, name: Seq<char>, c: TlsConnector) -> bool;   // prophecy: the handshake succeeds
// the connector the library builds itself: everything at its default except, on request, certificate validation
pub open spec fn default_connector(no_tls_verify: bool) -> TlsConnector {
    TlsConnector { accept_invalid_certs: no_tls_verify, accept_invalid_hostnames: false, no_built_in_roots: false, no_sni: false, custom: false }
}
pub struct TokioTlsConnector { pub c: TlsConnector }
pub struct ConnectFut { pub c: TlsConnector, pub name: Ghost<Seq<char>>, pub tcp: TcpStream }
impl TokioTlsConnector {
    #[verifier::external_body] pub fn from(c: TlsConnector) -> (r: TokioTlsConnector) ensures r.c == c { unimplemented!() }
    #[verifier::external_body] pub fn connect(&self, hostname: &str, stream: TcpStream) -> (f: ConnectFut) ensures f.c == self.c, f.name@ == hostname@, f.tcp == stream { unimplemented!() }
}
pub struct NativeTlsError { pub k: u8 }
impl ConnectFut {
    #[verifier::external_body]
    pub fn verif_await(self) -> (r: core::result::Result<TlsStream, NativeTlsError>)
        ensures r is Ok <==> handshake_ok(self.tcp.id, self.name@, self.c),
            r matches Ok(t) ==> t == (TlsStream { over: self.tcp, server_name: self.name@, by: self.c }),
    { unimplemented!() }
}
// idiom: `.map_err(LdapError::from)` (thiserror's From<native_tls::Error>): Ok stays, an error stays an error
pub trait TlsErrExt<T>: Sized {
    spec fn as_res(self) -> core::result::Result<T, NativeTlsError>;
    fn verif_map_tls_err(self) -> (o: Result<T>) ensures self.as_res() is Ok ==> o == Ok::<T, LdapError>(self.as_res()->Ok_0), self.as_res() is Err ==> o is Err;
}
impl<T> TlsErrExt<T> for core::result::Result<T, NativeTlsError> {
    open spec fn as_res(self) -> core::result::Result<T, NativeTlsError> { self }
    #[verifier::external_body] fn verif_map_tls_err(self) -> (o: Result<T>) { unimplemented!() }
}

pub struct LdapConnAsyncT { }
impl LdapConnAsyncT {
//@lift name=create_connector file=src/conn.rs fn=create_connector
//@ ret r
//@ spec
    ensures r == default_connector(settings.no_tls_verify), //# C17.certificate_verification_is_disabled_only_when_explicitly_asked_for_and_nothing_else_is_weakened
//@end

//@lift name=create_tls_stream file=src/conn.rs fn=create_tls_stream nth=1
//@ sub "LdapConnAsync::create_connector(" => "LdapConnAsyncT::create_connector(" count=*
//@ sub "Self::create_connector(" => "LdapConnAsyncT::create_connector(" count=*
//@ sub "Result<TlsStream<TcpStream>>" => "Result<TlsStream>"
//@ sub ".map_err(LdapError::from)" => ".verif_map_tls_err()"
//@ ret r
//@ spec
    ensures
        // the handshake runs over the given TCP stream, for the given host name; the certificate is verified unless the
        // settings carry a custom connector (then that connector decides) or no_tls_verify
        r matches Ok(t) ==> t.over == stream && t.server_name == hostname@, //# C17.handshake_is_for_the_urls_host_over_the_connections_own_socket
        (settings.connector is None) ==> (r matches Ok(t) ==> t.by == default_connector(settings.no_tls_verify)), //# C17.server_certificate_is_verified_unless_verification_was_explicitly_disabled
        (settings.connector is None) ==> (r is Ok <==> handshake_ok(stream.id, hostname@, default_connector(settings.no_tls_verify))), //# C17.a_failed_handshake_is_an_error
//@end
}


// ---- the suffix of new_tcp after the TCP connect: StartTLS exchange, handshake, transport swap
pub enum ConnType { Tcp(TcpStream), Tls(TlsStream) }
pub struct Codec { pub g: u8 }
// the framed transport: which stream, and whether its read buffer is empty (a fresh Framed) -- ghost
pub struct Framed { pub io: ConnType, pub codec: Codec, pub fresh_buffers: bool }
// tokio_util::codec::FramedParts: the buffers of the old framed stream travel with it; what the read buffer holds after the
// StartTLS exchange is the peer's choice (nothing is known about it here)
pub struct BytesMut { pub data: Ghost<Seq<u8>> }
pub struct Parts { pub io: ConnType, pub codec: Codec, pub read_buf: BytesMut, pub write_buf: BytesMut }
pub type FramedParts = Parts;
impl Parts {
    #[verifier::external_body] pub fn new<I>(io: ConnType, codec: Codec) -> (r: Parts) ensures r.io == io, r.codec == codec, r.read_buf.data@.len() == 0, r.write_buf.data@.len() == 0 { unimplemented!() }
}
impl Framed {
    #[verifier::external_body] pub fn into_parts(self) -> (r: Parts) ensures r.io == self.io, r.codec == self.codec { unimplemented!() }
    #[verifier::external_body] pub fn from_parts(p: Parts) -> (r: Framed) ensures r.io == p.io, r.codec == p.codec, r.fresh_buffers == (p.read_buf.data@.len() == 0) { unimplemented!() }
    #[verifier::external_body] pub fn new(io: ConnType, codec: Codec) -> (r: Framed) ensures r.io == io, r.codec == codec, r.fresh_buffers { unimplemented!() }
}
pub mod tokio_util { pub mod codec { pub use crate::FramedParts; pub use crate::Framed; } }
pub type RequestId = i32;
pub struct Tag { pub g: u8 }
pub struct MaybeControls { pub g: u8 }
impl Codec { #[verifier::external_body] pub fn framed(self, io: ConnType) -> (r: Framed) ensures r.io == io, r.codec == self, r.fresh_buffers { unimplemented!() } }
pub struct LdapConnAsync { pub stream: Framed, pub id: int }
pub uninterp spec fn pair_id(ctype: ConnType) -> int;
pub enum Op { StartTls }
pub struct Ldap { pub has_tls: bool, pub issued: Ghost<Seq<Op>>, pub conn: int }
pub struct StartTLS;
pub struct ExopResult { pub rc: u32 }
impl ExopResult {
    // V-result: C03.exop_success_iff_rc_0
    #[verifier::external_body] pub fn success(self) -> (r: Result<ExopResult>) ensures r is Ok <==> self.rc == 0 { unimplemented!() }
}
pub uninterp spec fn starttls_reply(conn: int) -> Result<ExopResult>;      // prophecy: the server's answer to the StartTLS request
pub struct ExtFut { pub conn: int }
impl Ldap {
    #[verifier::external_body] pub fn extended(&mut self, e: StartTLS) -> (f: ExtFut)
        ensures final(self).issued@ == old(self).issued@.push(Op::StartTls), final(self).has_tls == old(self).has_tls, final(self).conn == old(self).conn, f.conn == old(self).conn { unimplemented!() }
}
pub struct Tx { pub g: u8 }
pub struct Rx { pub carried: Ghost<Option<LdapConnAsync>> }
pub struct oneshot { }
impl oneshot { #[verifier::external_body] pub fn channel() -> (r: (Tx, Rx)) { unimplemented!() } }
impl LdapConnAsync {
    #[verifier::external_body]
    pub fn conn_pair(ctype: ConnType) -> (r: (LdapConnAsync, Ldap))
        ensures r.0.stream.io == ctype, !r.1.has_tls, r.1.issued@ == Seq::<Op>::empty(), r.1.conn == r.0.id, r.0.id == pair_id(ctype)
    { unimplemented!() }
}
// idioms: `tokio::spawn(async move { conn.single_op(tx).await; });` runs ONE request/response turn of the driver and hands the
// connection back through the one-shot channel; `tokio::try_join!(rx.map_err(LdapError::from), ldap.extended(StartTLS))` waits for
// both: the connection coming back and the StartTLS response
#[verifier::external_body]
pub fn verif_spawn_single_op(conn: LdapConnAsync, tx: Tx) { unimplemented!() }
// ---- single_op itself: one turn of the driver in SingleOp mode, its outcome handed back through the one-shot channel
pub enum LoopMode { SingleOp, Continuous }
pub uninterp spec fn turn_result(conn: LdapConnAsync, mode: LoopMode) -> Result<LdapConnAsync>;
// what comes back through the one-shot channel in new_tcp's StartTLS exchange (single_op, below, is what is spawned there)
pub open spec fn turn_outcome(conn: LdapConnAsync) -> Result<LdapConnAsync> { turn_result(conn, LoopMode::SingleOp) }
pub struct TurnFut { pub conn: LdapConnAsync, pub mode: LoopMode }
impl TurnFut { #[verifier::external_body] pub fn verif_await(self) -> (r: Result<LdapConnAsync>) ensures r == turn_result(self.conn, self.mode) { unimplemented!() } }
impl LdapConnAsync {
    #[verifier::external_body] pub fn turn(self, mode: LoopMode) -> (f: TurnFut) ensures f.conn == self, f.mode == mode { unimplemented!() }
}
// tokio::sync::oneshot::Sender, seen as the cell its value lands in
pub struct OneshotTx<'a> { pub cell: &'a mut Ghost<Option<Result<LdapConnAsync>>> }
impl<'a> OneshotTx<'a> {
    #[verifier::external_body]
    pub fn send(self, v: Result<LdapConnAsync>) -> (r: core::result::Result<(), Result<LdapConnAsync>>)
        ensures r is Ok ==> final(self.cell)@ == Some(v), r is Err ==> *final(self.cell) == *old(self.cell)
    { unimplemented!() }
}
//@lift name=LdapConnAsync::single_op file=src/conn.rs impl="impl\s+LdapConnAsync\s*\{" fn=single_op
//@ sub "fn single_op(self, tx: oneshot::Sender<Result<Self>>)" => "fn single_op<'a>(conn_self: LdapConnAsync, tx: OneshotTx<'a>)"
//@ sub "self.turn(" => "conn_self.turn("
//@ spec
    ensures
        // whatever arrives through the channel is the outcome of ONE turn in single-operation mode on this very connection
        final(tx.cell)@ matches Some(v) ==> (v == turn_result(conn_self, LoopMode::SingleOp) || *final(tx.cell) == *old(tx.cell)), //# C17.single_op_hands_back_the_outcome_of_one_single_operation_turn
//@end
#[verifier::external_body]
pub fn verif_try_join(rx: Rx, f: ExtFut, Ghost(conn): Ghost<LdapConnAsync>) -> (r: Result<(Result<LdapConnAsync>, ExopResult)>)
    ensures r matches Ok(p) ==> p.0 == turn_outcome(conn) && starttls_reply(f.conn) == Ok::<ExopResult, LdapError>(p.1),
        r is Err ==> (starttls_reply(f.conn) is Err || turn_outcome(conn) is Err),
        // assumed (V-driver proves single_op's turn never replaces the transport): the connection handed back is the one that was spawned
        turn_outcome(conn) matches Ok(c) ==> c.stream.io == conn.stream.io && c.id == conn.id,
{ unimplemented!() }

pub open spec fn want_ldaps(url: &Url) -> bool { url.scheme_of() == "ldaps" }
pub open spec fn want_starttls(url: &Url, s: LdapConnSettings) -> bool { url.scheme_of() == "ldap" && s.starttls }
pub open spec fn want_port(url: &Url) -> u16 { match url.port_of() { Some(p) => p, None => if url.scheme_of() == "ldaps" { 636u16 } else { 389u16 } } }
pub open spec fn want_host(url: &Url) -> &'static str { match url.host_of() { Some(h) => if str_empty(h) { "localhost" } else { h }, None => "localhost" } }
//@lift name=new_tcp file=src/conn.rs fn=new_tcp
//@ sub "fn new_tcp(url: &Url, mut settings: LdapConnSettings) -> Result<(Self, Ldap)>" => "fn new_tcp(url: &Url, settings0: LdapConnSettings) -> Result<(LdapConnAsync, Ldap)>"
//@ sub "format!(\"{}:{}\", h, port)" => "verif_host_port(h, port)"
//@ sub "format!(\"localhost:{}\", port)" => "verif_host_port(\"localhost\", port)"
//@ sub "String::from(s)" => "verif_string_of(s)"
//@ sub "!h.is_empty()" => "!verif_is_empty(h)"
//@ sub "Self::conn_pair(" => "LdapConnAsync::conn_pair("
//@ sub "LdapConnAsync::create_tls_stream(" => "LdapConnAsyncT::create_tls_stream("
//@ sub "tokio::spawn(async move {\n                        conn.single_op(tx).verif_await();\n                    });" => "let ghost conn0 = conn; verif_spawn_single_op(conn, tx);"
//@ sub "tokio::try_join!(rx.map_err(LdapError::from), ldap.extended(StartTLS))" => "verif_try_join(rx, ldap.extended(StartTLS), Ghost(conn0))"
//@ sub "s == \"starttls\"" => "verif_str_eq(s, \"starttls\")"
//@ ret r
//@ insert entry
    let mut settings = settings0;
//@ spec
    ensures
        // what was ASKED for: TLS from the first byte (ldaps), TLS after a StartTLS exchange (ldap + the StartTLS setting), or cleartext.
        // The handle that comes back then runs over TLS: over the very socket this call connected (or was handed), for the URL's
        // host name, with an EMPTY read buffer (nothing received before the handshake is interpreted afterwards)
        (want_ldaps(url) || want_starttls(url, settings0)) ==> (r matches Ok(p) ==> (
            p.0.stream.io matches ConnType::Tls(t) && t.server_name == want_host(url)@ && p.0.stream.fresh_buffers && p.1.has_tls
            && (settings0.connector is None ==> (t.by == default_connector(settings0.no_tls_verify) && handshake_ok(t.over.id, want_host(url)@, t.by)
                && (!settings0.no_tls_verify ==> t.verified() && t.name_checked())))
            && (if settings0.std_stream is None { !t.over.pre_opened && t.over.peer == host_port_of(want_host(url), want_port(url)) } else { t.over.pre_opened }))), //# C17.a_handle_obtained_with_tls_requested_runs_over_verified_tls_with_an_empty_read_buffer
        want_ldaps(url) ==> (r matches Ok(p) ==> p.1.issued@.len() == 0), //# C17.ldaps_sends_nothing_before_the_handshake
        want_starttls(url, settings0) ==> (r matches Ok(p) ==> (p.1.issued@ == seq![Op::StartTls]
            && (exists|st: TcpStream| #[trigger] starttls_reply(pair_id(ConnType::Tcp(st))) matches Ok(x) && x.rc == 0))), //# C17.only_the_starttls_request_precedes_the_handshake_and_its_answer_was_success
        (url.scheme_of() == "ldap" && !settings0.starttls) ==> (r matches Ok(p) ==> (p.0.stream.io is Tcp && !p.1.has_tls && p.1.issued@.len() == 0)), //# C17.cleartext_only_when_no_tls_was_asked_for
        (url.scheme_of() != "ldap" && url.scheme_of() != "ldaps") ==> r is Err, //# C17.unknown_scheme_never_yields_a_handle
//@end
#[verifier::external_body]
pub fn verif_str_eq(a: &str, b: &str) -> (r: bool) ensures r == (a == b) { unimplemented!() }
} // verus!
fn main() {}
