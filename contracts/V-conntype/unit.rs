// Unit V-conntype: `impl AsyncRead for ConnType` and `impl AsyncWrite for ConnType` (src/conn.rs) -- the four poll methods
// of the transport enum.  Each must hand the call to the SAME-named method of the stream the connection actually holds
// (TCP, TLS or Unix), with the same arguments, and return its answer.  The `Pin` wrappers are stripped by recorded
// substitutions (`self: Pin<&mut Self>` -> a `&mut` parameter, `self.get_mut()` -> it, `Pin::new(x)` -> `x`: for these Unpin
// stream types Pin::new/get_mut are the identity).  Serves C04 (shutdown/close reach the socket), C02/C03 (bytes go to and
// come from the connection's own transport).
use vstd::prelude::*;
verus! {

pub struct Context { pub g: u8 }
// Pin::new on an Unpin stream is the identity on the reference (recorded substitution of the wrapper)
pub fn verif_unpin<T>(x: &mut T) -> (r: &mut T) ensures *r == *old(x), *final(x) == *final(r) { x }
pub struct ReadBuf { pub g: u8 }
pub mod io { pub struct Error { pub k: u8 } pub type Result<T> = core::result::Result<T, Error>; }
pub enum Poll<T> { Ready(T), Pending }
// what was asked of a stream, in order (ghost log)
pub enum Op { Read, Write(Seq<u8>), Flush, Shutdown }
pub uninterp spec fn answer_unit(log: Seq<Op>) -> Poll<io::Result<()>>;      // the stream's own answer (prophecy)
pub uninterp spec fn answer_len(log: Seq<Op>) -> Poll<io::Result<usize>>;
macro_rules! stream_mirror { ($name:ident) => { verus! {
pub struct $name { pub ops: Ghost<Seq<Op>> }
impl $name {
    #[verifier::external_body] pub fn poll_read(&mut self, cx: &mut Context, buf: &mut ReadBuf) -> (r: Poll<io::Result<()>>)
        ensures final(self).ops@ == old(self).ops@.push(Op::Read), r == answer_unit(final(self).ops@) { unimplemented!() }
    #[verifier::external_body] pub fn poll_write(&mut self, cx: &mut Context, buf: &[u8]) -> (r: Poll<io::Result<usize>>)
        ensures final(self).ops@ == old(self).ops@.push(Op::Write(buf@)), r == answer_len(final(self).ops@) { unimplemented!() }
    #[verifier::external_body] pub fn poll_flush(&mut self, cx: &mut Context) -> (r: Poll<io::Result<()>>)
        ensures final(self).ops@ == old(self).ops@.push(Op::Flush), r == answer_unit(final(self).ops@) { unimplemented!() }
    #[verifier::external_body] pub fn poll_shutdown(&mut self, cx: &mut Context) -> (r: Poll<io::Result<()>>)
        ensures final(self).ops@ == old(self).ops@.push(Op::Shutdown), r == answer_unit(final(self).ops@) { unimplemented!() }
}
} } }
stream_mirror!(TcpStream);
stream_mirror!(TlsStream);
stream_mirror!(UnixStream);
//@item file=src/conn.rs kind=enum name=ConnType retype="TlsStream<TcpStream> => TlsStream"
impl ConnType {
    pub open spec fn ops(&self) -> Seq<Op> { match self { ConnType::Tcp(s) => s.ops@, ConnType::Tls(s) => s.ops@, ConnType::Unix(s) => s.ops@ } }
    pub open spec fn same_kind(&self, o: &ConnType) -> bool { (self is Tcp && o is Tcp) || (self is Tls && o is Tls) || (self is Unix && o is Unix) }
}
//@lift name=ConnType::poll_read file=src/conn.rs impl="impl\\s+AsyncRead\\s+for\\s+ConnType\\s*\\{" fn=poll_read
//@ sub "self: Pin<&mut Self>" => "this: &mut ConnType"
//@ sub "self.get_mut()" => "this"
//@ sub "Pin::new(" => "verif_unpin(" count=*
//@ ret r
//@ spec
    ensures
        final(this).same_kind(old(this)) && final(this).ops() == old(this).ops().push(Op::Read) && r == answer_unit(final(this).ops()), //# C03+C06.reads_come_from_the_connections_own_transport
//@end

//@lift name=ConnType::poll_write file=src/conn.rs impl="impl\\s+AsyncWrite\\s+for\\s+ConnType\\s*\\{" fn=poll_write
//@ sub "self: Pin<&mut Self>" => "this: &mut ConnType"
//@ sub "self.get_mut()" => "this"
//@ sub "Pin::new(" => "verif_unpin(" count=*
//@ ret r
//@ spec
    ensures
        final(this).same_kind(old(this)) && final(this).ops() == old(this).ops().push(Op::Write(buf@)) && r == answer_len(final(this).ops()), //# C02.writes_go_to_the_connections_own_transport_unchanged
//@end

//@lift name=ConnType::poll_flush file=src/conn.rs impl="impl\\s+AsyncWrite\\s+for\\s+ConnType\\s*\\{" fn=poll_flush
//@ sub "self: Pin<&mut Self>" => "this: &mut ConnType"
//@ sub "self.get_mut()" => "this"
//@ sub "Pin::new(" => "verif_unpin(" count=*
//@ ret r
//@ spec
    ensures
        final(this).same_kind(old(this)) && final(this).ops() == old(this).ops().push(Op::Flush) && r == answer_unit(final(this).ops()), //# C02.flush_reaches_the_connections_own_transport
//@end

//@lift name=ConnType::poll_shutdown file=src/conn.rs impl="impl\\s+AsyncWrite\\s+for\\s+ConnType\\s*\\{" fn=poll_shutdown
//@ sub "self: Pin<&mut Self>" => "this: &mut ConnType"
//@ sub "self.get_mut()" => "this"
//@ sub "Pin::new(" => "verif_unpin(" count=*
//@ ret r
//@ spec
    ensures
        final(this).same_kind(old(this)) && final(this).ops() == old(this).ops().push(Op::Shutdown) && r == answer_unit(final(this).ops()), //# C04.shutdown_reaches_the_connections_own_transport
//@end

} // verus!
fn main() {}
