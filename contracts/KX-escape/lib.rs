// KX-escape mini-crate prelude (hand-written, trusted): module wiring and the two ldap3 names the lifted text mentions.
#![allow(dead_code, unused_imports, deprecated)]
extern crate lber;
extern crate nom;
pub mod filter;          // src/filter.rs copied whole, unchanged
pub mod result {
    #[derive(Debug, PartialEq)]
    pub enum LdapError { DecodingUTF8 }
    pub type Result<T> = std::result::Result<T, LdapError>;
}
pub mod util_lifted;     // ldap_escape, dn_escape, ldap_unescape lifted verbatim from src/util.rs
#[cfg(kani)]
mod harness;
