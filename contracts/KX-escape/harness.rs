// KX-escape harnesses.  Oracles are written here from RFC 4515 section 3 / RFC 4514 section 2.4, independently of
// the code under test.  String::from_utf8 is stubbed by a pass-through (std's UTF-8 validator exhausts CBMC; the
// escape functions only ever push ASCII or copy input bytes), listed under assumptions.
use crate::filter::Unescaper;
use crate::util_lifted::{dn_escape, ldap_escape, ldap_unescape};
use std::borrow::Cow;

fn stub_from_utf8(v: Vec<u8>) -> Result<String, std::string::FromUtf8Error> {
    Ok(unsafe { String::from_utf8_unchecked(v) })
}

fn hexval(c: u8) -> Option<u8> {
    match c {
        b'0'..=b'9' => Some(c - b'0'),
        b'a'..=b'f' => Some(c - b'a' + 10),
        b'A'..=b'F' => Some(c - b'A' + 10),
        _ => None,
    }
}
fn hexdig(n: u8) -> u8 { if n < 10 { b'0' + n } else { b'a' + (n - 10) } }

// RFC 4515 section 3: NUL ( ) * \ must be escaped as backslash + two hex digits; everything else stands for itself.
// Oracles write into a fixed buffer (no heap) and return the length.
fn esc(v: &[u8], o: &mut [u8; 12]) -> usize {
    let mut k = 0;
    let mut i = 0;
    while i < v.len() {
        let c = v[i];
        if c == 0 || c == b'(' || c == b')' || c == b'*' || c == b'\\' {
            o[k] = b'\\'; o[k + 1] = hexdig(c >> 4); o[k + 2] = hexdig(c & 15); k += 3;
        } else { o[k] = c; k += 1; }
        i += 1;
    }
    k
}
// RFC 4514 2.4: " + , ; < > \ and NUL anywhere (the library also escapes '='), leading space or '#', trailing space
fn dn_esc(v: &[u8], o: &mut [u8; 12]) -> usize {
    let mut k = 0;
    let mut i = 0;
    while i < v.len() {
        let c = v[i];
        let special = c == b'"' || c == b'+' || c == b',' || c == b';' || c == b'<' || c == b'=' || c == b'>' || c == b'\\' || c == 0
            || (i == 0 && (c == b' ' || c == b'#')) || (i + 1 == v.len() && c == b' ');
        if special { o[k] = b'\\'; o[k + 1] = hexdig(c >> 4); o[k + 2] = hexdig(c & 15); k += 3; } else { o[k] = c; k += 1; }
        i += 1;
    }
    k
}
// RFC 4514 reader for the hex form (harness side): maps dn_esc(v) back to v
fn dn_unesc(w: &[u8], o: &mut [u8; 12]) -> Option<usize> {
    let mut k = 0;
    let mut i = 0;
    while i < w.len() {
        if w[i] == b'\\' {
            if i + 2 >= w.len() { return None; }
            let a = hexval(w[i + 1])?; let b = hexval(w[i + 2])?;
            o[k] = a * 16 + b; k += 1; i += 3;
        } else { o[k] = w[i]; k += 1; i += 1; }
    }
    Some(k)
}
fn same(a: &[u8], b: &[u8]) -> bool {
    if a.len() != b.len() { return false; }
    let mut i = 0;
    while i < a.len() { if a[i] != b[i] { return false; } i += 1; }
    true
}
fn sym_ascii<const N: usize>() -> [u8; N] {
    let b: [u8; N] = kani::any();
    let mut i = 0;
    while i < N { kani::assume(b[i] < 128); i += 1; }
    b
}

// ---- complete leaf facts (full domain, loop-free)
#[kani::proof]
fn feed_table_complete() {
    let c: u8 = kani::any();
    let p: u8 = kani::any();
    kani::assume(p < 16);
    let which: u8 = kani::any();
    kani::assume(which < 4);
    let st = match which { 0 => Unescaper::WantFirst, 1 => Unescaper::WantSecond(p), 2 => Unescaper::Value(p), _ => Unescaper::Error };
    let r = st.feed(c);
    match which {
        0 => match hexval(c) { Some(h) => assert!(matches!(r, Unescaper::WantSecond(x) if x == h)), None => assert!(matches!(r, Unescaper::Error)) },
        1 => match hexval(c) { Some(h) => assert!(matches!(r, Unescaper::Value(x) if x == p * 16 + h)), None => assert!(matches!(r, Unescaper::Error)) },
        2 => if c == b'\\' { assert!(matches!(r, Unescaper::WantFirst)) } else { assert!(matches!(r, Unescaper::Value(x) if x == c)) },
        _ => assert!(matches!(r, Unescaper::Error)),
    }
    kani::cover!(which == 1 && c == b'F', "upper-case hex digit reachable");
}

// ---- bounded stand-ins: every ASCII string of exactly N bytes, one harness per N (the bound is stated in the
// evidence and never counted as proved)
fn check_ldap_escape<const N: usize>() {
    let b = sym_ascii::<N>();
    let s = unsafe { std::str::from_utf8_unchecked(&b[..]) };
    let mut w = [0u8; 12];
    let wl = esc(&b[..], &mut w);
    let got = ldap_escape(s);
    assert!(same(got.as_bytes(), &w[..wl]));
    assert!(matches!(got, Cow::Borrowed(_)) == (wl == N));
}
// ldap_unescape on esc(v): one harness per *shape* of the escaped text (p = plain byte, e = escaped byte), so that
// every buffer has a fixed length (a symbolic length made CBMC time out even for one byte)
fn special(c: u8) -> bool { c == 0 || c == b'(' || c == b')' || c == b'*' || c == b'\\' }
fn check_unescape_fixed<const M: usize, const N: usize>(w: [u8; M], v: [u8; N]) {
    let ws = unsafe { std::str::from_utf8_unchecked(&w[..]) };
    match ldap_unescape(ws) {
        Ok(r) => assert!(same(r.as_bytes(), &v[..])),
        Err(_) => assert!(false),
    }
}
#[kani::proof] #[kani::unwind(8)] #[kani::stub(std::string::String::from_utf8, stub_from_utf8)]
fn ldap_unescape_shape_p() { let v = sym_ascii::<1>(); kani::assume(!special(v[0])); check_unescape_fixed([v[0]], v); }
#[kani::proof] #[kani::unwind(8)] #[kani::stub(std::string::String::from_utf8, stub_from_utf8)]
fn ldap_unescape_shape_e() { let v = sym_ascii::<1>(); kani::assume(special(v[0])); check_unescape_fixed([b'\\', hexdig(v[0] >> 4), hexdig(v[0] & 15)], v); }
#[kani::proof] #[kani::unwind(8)] #[kani::stub(std::string::String::from_utf8, stub_from_utf8)]
fn ldap_unescape_shape_pp() { let v = sym_ascii::<2>(); kani::assume(!special(v[0]) && !special(v[1])); check_unescape_fixed([v[0], v[1]], v); }
#[kani::proof] #[kani::unwind(8)] #[kani::stub(std::string::String::from_utf8, stub_from_utf8)]
fn ldap_unescape_shape_ep() { let v = sym_ascii::<2>(); kani::assume(special(v[0]) && !special(v[1])); check_unescape_fixed([b'\\', hexdig(v[0] >> 4), hexdig(v[0] & 15), v[1]], v); }
#[kani::proof] #[kani::unwind(8)] #[kani::stub(std::string::String::from_utf8, stub_from_utf8)]
fn ldap_unescape_shape_pe() { let v = sym_ascii::<2>(); kani::assume(!special(v[0]) && special(v[1])); check_unescape_fixed([v[0], b'\\', hexdig(v[1] >> 4), hexdig(v[1] & 15)], v); }
#[kani::proof] #[kani::unwind(8)] #[kani::stub(std::string::String::from_utf8, stub_from_utf8)]
fn ldap_unescape_shape_ee() { let v = sym_ascii::<2>(); kani::assume(special(v[0]) && special(v[1]));
    check_unescape_fixed([b'\\', hexdig(v[0] >> 4), hexdig(v[0] & 15), b'\\', hexdig(v[1] >> 4), hexdig(v[1] & 15)], v); }
fn check_dn_escape<const N: usize>() {
    let b = sym_ascii::<N>();
    let s = unsafe { std::str::from_utf8_unchecked(&b[..]) };
    let mut w = [0u8; 12];
    let wl = dn_esc(&b[..], &mut w);
    let got = dn_escape(s);
    assert!(same(got.as_bytes(), &w[..wl]));
    assert!(matches!(got, Cow::Borrowed(_)) == (wl == N));
    // and an RFC 4514 reader gets the value back
    let mut u = [0u8; 12];
    match dn_unesc(&w[..wl], &mut u) { Some(ul) => assert!(same(&u[..ul], &b[..])), None => assert!(false) }
}
macro_rules! lens {
    ($f:ident, $u:expr, $($name:ident => $n:expr),*) => { $(
        #[kani::proof]
        #[kani::unwind($u)]
        #[kani::stub(std::string::String::from_utf8, stub_from_utf8)]
        fn $name() { $f::<$n>(); }
    )* };
}
lens!(check_ldap_escape, 13, ldap_escape_len1 => 1, ldap_escape_len2 => 2, ldap_escape_len3 => 3, ldap_escape_len4 => 4);
lens!(check_dn_escape, 13, dn_escape_len1 => 1, dn_escape_len2 => 2, dn_escape_len3 => 3, dn_escape_len4 => 4);

// ---- non-ASCII text: every string of the UTF-8 shapes (2-byte char, ASCII), (ASCII, 2-byte char), (3-byte char),
// (ASCII, 2-byte char, ASCII); the oracles work on bytes, so multi-byte characters must pass through untouched and
// positions ("leading", "trailing") are byte positions of ASCII characters
fn cont(b: u8) -> bool { b >= 0x80 && b <= 0xBF }
fn lead2(b: u8) -> bool { b >= 0xC2 && b <= 0xDF }
fn valid3(a: u8, b: u8, c: u8) -> bool {
    cont(c) && ((a == 0xE0 && b >= 0xA0 && b <= 0xBF) || (((a >= 0xE1 && a <= 0xEC) || a == 0xEE || a == 0xEF) && cont(b)) || (a == 0xED && b >= 0x80 && b <= 0x9F))
}
fn sym_shape(shape: u8) -> [u8; 3] {
    let b: [u8; 3] = kani::any();
    match shape {
        0 => kani::assume(lead2(b[0]) && cont(b[1]) && b[2] < 128),
        1 => kani::assume(b[0] < 128 && lead2(b[1]) && cont(b[2])),
        _ => kani::assume(valid3(b[0], b[1], b[2])),
    }
    b
}
fn check_dn_escape_bytes<const N: usize>(b: [u8; N]) {
    let s = unsafe { std::str::from_utf8_unchecked(&b[..]) };
    let mut w = [0u8; 12];
    let wl = dn_esc(&b[..], &mut w);
    let got = dn_escape(s);
    assert!(same(got.as_bytes(), &w[..wl]));
    assert!(matches!(got, Cow::Borrowed(_)) == (wl == N));
    let mut u = [0u8; 12];
    match dn_unesc(&w[..wl], &mut u) { Some(ul) => assert!(same(&u[..ul], &b[..])), None => assert!(false) }
}
fn check_ldap_escape_bytes<const N: usize>(b: [u8; N]) {
    let s = unsafe { std::str::from_utf8_unchecked(&b[..]) };
    let mut w = [0u8; 12];
    let wl = esc(&b[..], &mut w);
    let got = ldap_escape(s);
    assert!(same(got.as_bytes(), &w[..wl]));
    assert!(matches!(got, Cow::Borrowed(_)) == (wl == N));
}
macro_rules! shapes {
    ($f:ident, $($name:ident => $sh:expr),*) => { $(
        #[kani::proof]
        #[kani::unwind(13)]
        #[kani::stub(std::string::String::from_utf8, stub_from_utf8)]
        fn $name() { $f::<3>(sym_shape($sh)); }
    )* };
}
shapes!(check_dn_escape_bytes, dn_escape_utf8_2a => 0, dn_escape_utf8_a2 => 1, dn_escape_utf8_3 => 2);
shapes!(check_ldap_escape_bytes, ldap_escape_utf8_2a => 0, ldap_escape_utf8_a2 => 1, ldap_escape_utf8_3 => 2);
#[kani::proof]
#[kani::unwind(13)]
#[kani::stub(std::string::String::from_utf8, stub_from_utf8)]
fn dn_escape_utf8_a2a() {
    let b: [u8; 4] = kani::any();
    kani::assume(b[0] < 128 && lead2(b[1]) && cont(b[2]) && b[3] < 128);
    check_dn_escape_bytes::<4>(b);
}

// the empty string (concrete; a zero-length symbolic array sends CBMC into the allocator's slow path)
#[kani::proof]
#[kani::unwind(3)]
fn empty_strings_unchanged() {
    assert!(matches!(ldap_escape(""), Cow::Borrowed(s) if s.is_empty()));
    assert!(matches!(dn_escape(""), Cow::Borrowed(s) if s.is_empty()));
    assert!(matches!(ldap_unescape(""), Ok(Cow::Borrowed(s)) if s.is_empty()));
}

// (A harness running filter::parse on `(a=\\XX)` for the five escaped metacharacters was tried and did not finish
//  under CBMC in 30 minutes -- nom's alt/fold_many0 with Vec growth; there is no grammar-level lane, see DESIGN.md C08.)

//@append src/filter.rs
// ---- leaf functions of the filter module that are private to it (C08): appended to the copied file
#[cfg(kani)]
mod verif_k {
    use super::*;

    // RFC 4511 4.5.1: greaterOrEqual [5], lessOrEqual [6], approxMatch [8]
    #[kani::proof]
    fn filtertag_numbers() {
        assert!(filtertag(b">=") == 5);
        assert!(filtertag(b"<=") == 6);
        assert!(filtertag(b"~=") == 8);
    }

    // the assertion-value character set: everything except NUL ( ) *   (every byte)
    #[kani::proof]
    fn is_value_char_all_bytes() {
        let c: u8 = kani::any();
        assert!(is_value_char(&c) == !(c == 0 || c == b'(' || c == b')' || c == b'*'));
    }

    // RFC 4512 1.4 number = DIGIT / ( LDIGIT 1*DIGIT ): no superfluous leading zero (bounded: 3 bytes)
    #[kani::proof]
    #[kani::unwind(5)]
    fn number_lexer_len3() {
        let b: [u8; 3] = kani::any();
        let r = number(&b[..]);
        let d = |c: u8| c >= b'0' && c <= b'9';
        let k = if !d(b[0]) { 0 } else if !d(b[1]) { 1 } else if !d(b[2]) { 2 } else { 3 };
        if k == 0 { assert!(r.is_err()); }
        else if k > 1 && b[0] == b'0' { assert!(r.is_err()); }
        else { match r { Ok((rest, m)) => { assert!(m.len() == k && rest.len() == 3 - k); } Err(_) => { assert!(false); } } }
    }

    fn is_alpha(c: u8) -> bool { (c >= b'a' && c <= b'z') || (c >= b'A' && c <= b'Z') }
    fn is_digit(c: u8) -> bool { c >= b'0' && c <= b'9' }
    // RFC 4512 1.4 keystring = leadkeychar *keychar  (ALPHA then ALPHA / DIGIT / HYPHEN)  (bounded: 3 bytes)
    #[kani::proof]
    #[kani::unwind(5)]
    fn descr_lexer_len3() {
        let b: [u8; 3] = kani::any();
        let r = descr(&b[..]);
        let kc = |c: u8| is_alpha(c) || is_digit(c) || c == b'-';
        if !is_alpha(b[0]) { assert!(r.is_err()); }
        else {
            let k = if !kc(b[1]) { 1 } else if !kc(b[2]) { 2 } else { 3 };
            match r { Ok((rest, m)) => { assert!(m.len() == k && rest.len() == 3 - k); } Err(_) => { assert!(false); } }
        }
    }
    // the value lexer with the hex un-escaper (bounded: 3 bytes): a run of value characters, each \XX pair decoded,
    // an incomplete or non-hex escape is an error
    #[kani::proof]
    #[kani::unwind(6)]
    fn unescaped_lexer_len3() {
        let b: [u8; 3] = kani::any();
        let r = unescaped(&b[..]);
        let vc = |c: u8| !(c == 0 || c == b'(' || c == b')' || c == b'*');
        let hx = |c: u8| is_digit(c) || (c >= b'a' && c <= b'f') || (c >= b'A' && c <= b'F');
        let hv = |c: u8| if is_digit(c) { c - b'0' } else if c >= b'a' { c - b'a' + 10 } else { c - b'A' + 10 };
        // reference for the all-value-chars case with at most one escape at the start
        if vc(b[0]) && vc(b[1]) && vc(b[2]) {
            if b[0] == b'\\' {
                if hx(b[1]) && hx(b[2]) {
                    match r { Ok((rest, v)) => { assert!(rest.len() == 0 && v.len() == 1 && v[0] == hv(b[1]) * 16 + hv(b[2])); } Err(_) => { assert!(false); } }
                } else { assert!(r.is_err()); }
            } else if b[1] != b'\\' && b[2] != b'\\' {
                match r { Ok((rest, v)) => { assert!(rest.len() == 0 && v.len() == 3 && v[0] == b[0] && v[1] == b[1] && v[2] == b[2]); } Err(_) => { assert!(false); } }
            } else { assert!(r.is_err()); }   // an escape that cannot complete within the value
        }
    }

    // (One step up the grammar was tried with fixed shapes: `eq`/`non_eq` on `a=v` ran CBMC out of memory (20 GB) after
    //  10 min of symbolic execution; `dn_mrule` on `:r:=v` ended with an unwinding-assertion ERROR inside nom's fold_many0.
    //  The productions are under Verus contracts instead: unit V-filter.)

    // ---- nom itself, against the contracts that unit V-filter assumes for its combinators (bounded: every 3-byte input,
    // literal element parsers).  These run the real nom 7 code.
    fn run_of(b: &[u8; 3], c: u8) -> usize { if b[0] != c { 0 } else if b[1] != c { 1 } else if b[2] != c { 2 } else { 3 } }
    type R<'a, O> = IResult<&'a [u8], O>;
    #[kani::proof]
    #[kani::unwind(5)]
    fn nom_tag_opt_contracts() {
        let b: [u8; 3] = kani::any();
        let r: R<&[u8]> = tag(b"ab")(&b[..]);
        if b[0] == b'a' && b[1] == b'b' { match r { Ok((rest, m)) => { assert!(rest.len() == 1 && rest[0] == b[2] && m.len() == 2 && m[0] == b'a' && m[1] == b'b'); } Err(_) => { assert!(false); } } }
        else { assert!(matches!(r, Err(nom::Err::Error(_)))); }
        let o: R<Option<&[u8]>> = opt(tag(b"a"))(&b[..]);
        match o { Ok((rest, Some(m))) => { assert!(b[0] == b'a' && rest.len() == 2 && m.len() == 1); } Ok((rest, None)) => { assert!(b[0] != b'a' && rest.len() == 3); } Err(_) => { assert!(false); } }
    }
    #[kani::proof]
    #[kani::unwind(5)]
    fn nom_sequence_contracts() {
        let b: [u8; 3] = kani::any();
        let p: R<&[u8]> = preceded(tag(b"a"), tag(b"b"))(&b[..]);
        if b[0] == b'a' && b[1] == b'b' { match p { Ok((rest, m)) => { assert!(rest.len() == 1 && m.len() == 1 && m[0] == b'b'); } Err(_) => { assert!(false); } } } else { assert!(matches!(p, Err(nom::Err::Error(_)))); }
        let d: R<&[u8]> = delimited(tag(b"("), tag(b"x"), tag(b")"))(&b[..]);
        if b[0] == b'(' && b[1] == b'x' && b[2] == b')' { match d { Ok((rest, m)) => { assert!(rest.len() == 0 && m.len() == 1 && m[0] == b'x'); } Err(_) => { assert!(false); } } } else { assert!(matches!(d, Err(nom::Err::Error(_)))); }
        let g: R<&[u8]> = recognize(preceded(tag(b"a"), tag(b"b")))(&b[..]);
        if b[0] == b'a' && b[1] == b'b' { match g { Ok((rest, m)) => { assert!(rest.len() == 1 && m.len() == 2 && m[0] == b'a' && m[1] == b'b'); } Err(_) => { assert!(false); } } } else { assert!(g.is_err()); }
    }
    #[kani::proof]
    #[kani::unwind(5)]
    fn nom_alt_map_contracts() {
        let b: [u8; 3] = kani::any();
        // ordered choice: the first alternative that succeeds
        let a: R<&[u8]> = alt((tag(b"ab"), tag(b"a"), tag(b"b")))(&b[..]);
        match a {
            Ok((rest, m)) => {
                if b[0] == b'a' && b[1] == b'b' { assert!(m.len() == 2 && rest.len() == 1); }
                else if b[0] == b'a' { assert!(m.len() == 1 && m[0] == b'a' && rest.len() == 2); }
                else { assert!(b[0] == b'b' && m.len() == 1 && rest.len() == 2); }
            }
            Err(_) => { assert!(b[0] != b'a' && b[0] != b'b'); }
        }
        let m: R<usize> = map(tag(b"a"), |x: &[u8]| x.len() + 6)(&b[..]);
        match m { Ok((rest, v)) => { assert!(b[0] == b'a' && v == 7 && rest.len() == 2); } Err(_) => { assert!(b[0] != b'a'); } }
        let second = b[1];
        let mr: R<u8> = map_res(tag(b"a"), |_x: &[u8]| -> Result<u8, ()> { if second == b'z' { Err(()) } else { Ok(second) } })(&b[..]);
        match mr { Ok((rest, v)) => { assert!(b[0] == b'a' && second != b'z' && v == second && rest.len() == 2); } Err(_) => { assert!(b[0] != b'a' || second == b'z'); } }
    }
    #[kani::proof]
    #[kani::unwind(6)]
    fn nom_many_contracts() {
        let b: [u8; 3] = kani::any();
        let k = run_of(&b, b'a');
        let m0: R<Vec<&[u8]>> = many0(tag(b"a"))(&b[..]);
        match &m0 { Ok((rest, v)) => { assert!(v.len() == k && rest.len() == 3 - k); } Err(_) => { assert!(false); } }
        std::mem::forget(m0);
        let m1: R<Vec<&[u8]>> = many1(tag(b"a"))(&b[..]);
        match &m1 { Ok((rest, v)) => { assert!(k >= 1 && v.len() == k && rest.len() == 3 - k); } Err(_) => { assert!(k == 0); } }
        std::mem::forget(m1);
        // a success that consumes nothing is an error (the infinite-loop guard): opt(..) always succeeds, eventually without
        // consuming (at the latest on the empty rest), so many0 over it always fails
        let g: R<Vec<Option<&[u8]>>> = many0(opt(tag(b"a")))(&b[..]);
        assert!(g.is_err());
        std::mem::forget(g);
    }
}

//@append src/util_lifted.rs
// ---- ascii_lc_equal (private to src/util.rs; C20): the contract the Verus unit V-url assumes for it --
// `ascii_lc_equal(s, t) == (len equal && for all i: s[i] == lowercase(t[i]))`, for the two names get_url_params passes
#[cfg(kani)]
mod verif_lc {
    use super::*;
    fn lower(c: u8) -> u8 { if c >= b'A' && c <= b'Z' { c + 32 } else { c } }

    // complete for the property's purpose: both literal names have 8 bytes, every 8-byte ASCII candidate is covered
    #[kani::proof]
    #[kani::unwind(10)]
    fn ascii_lc_equal_len8() {
        let t: [u8; 8] = kani::any();
        let mut i = 0;
        while i < 8 { kani::assume(t[i] < 128); i += 1; }
        let ts = unsafe { std::str::from_utf8_unchecked(&t) };
        let which: bool = kani::any();
        let s = if which { "bindname" } else { "x-bindpw" };
        let sb = s.as_bytes();
        let mut want = true;
        let mut j = 0;
        while j < 8 { if sb[j] != lower(t[j]) { want = false; } j += 1; }
        kani::cover!(want, "some candidate matches");
        assert!(ascii_lc_equal(s, ts) == want);
    }

    #[kani::proof]
    #[kani::unwind(14)]
    fn ascii_lc_equal_other_len() {
        let t: [u8; 12] = kani::any();
        let n: usize = kani::any();
        kani::assume(n <= 12 && n != 8);
        let mut i = 0;
        while i < 12 { kani::assume(t[i] < 128); i += 1; }
        let ts = unsafe { std::str::from_utf8_unchecked(&t[..n]) };
        let which: bool = kani::any();
        let s = if which { "bindname" } else { "x-bindpw" };
        assert!(!ascii_lc_equal(s, ts));
    }
}
