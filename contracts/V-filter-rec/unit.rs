// Unit V-filter-rec: the recursive knot of the filter grammar.  `filter` (src/filter.rs) is proved here against the
// contract that unit V-filter assumes for it; its callee `filtercomp` is assumed here with the contract V-filter proves.
// (Verus rejects a function of a recursive cycle used as a first-class value, so the cycle filter -> filtercomp ->
// and/or/not -> filterlist -> filter is cut at `filter`; each body is checked against its callees' contracts, which is the
// usual partial-correctness argument for recursive procedures.)  Serves C08.
use vstd::prelude::*;
use vstd::string::*;
verus! {

//@include contracts/shared/lber_types.rs
//@include contracts/shared/tree_spec.rs
//@include contracts/shared/std_specs.rs
//@include contracts/V-filter/prelude.rs

// proved in V-filter: C08.filtercomp_is_one_of_and_or_not_item
#[verifier::external_body]
fn filtercomp<'a>(i: &'a [u8]) -> (r: IResult<&'a [u8], Tag>) ensures denotes(r, i, d_filtercomp(i@)) { unimplemented!() }

//@lift name=filter file=src/filter.rs fn=filter
//@ rules +R11
//@ sub "fn filter(i: &[u8])" => "fn filter<'a>(i: &'a [u8])"
//@ sub "IResult<&[u8], Tag>" => "IResult<&'a [u8], Tag>"
//@ ret r
//@ insert entry
    proof { lemma_lits(); }
//@ tail whole
    proof {
        if d_filter(i@) is Some { assert(i@.skip(1).skip((d_filtercomp(i@.skip(1))->0).0).skip(1) =~= i@.skip(1 + (d_filtercomp(i@.skip(1))->0).0 + 1)); }
    }
//@ spec
    ensures denotes(r, i, d_filter(i@)), //# C08.parenthesised_filter_denotes_rfc4515
//@end

} // verus!
fn main() {}
