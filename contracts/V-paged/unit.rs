// Unit V-paged: the PagedResults adapter (src/adapters.rs), next() and finish(), on its own text.  What is decided (C16,
// partly; C02 for the re-issued requests): when a page ends and the server's paging control carries a non-empty cookie,
// the follow-up Search is issued on a fresh clone of the saved handle with the saved timeout, search options and other
// controls plus a paging control holding the adapter's page size and exactly that cookie, for the saved base, scope,
// filter and attribute list; paging stops when the cookie is empty or no paging control came back, and the paging
// control is then removed from the final result; every item and every error of the underlying stream is handed through.
// NOT decided here: start() (its control filter is a closure mutating a captured flag: outside this Verus), the
// whole-history statement "all pages' entries, each once, in order" (it follows from "items are handed through" only
// together with the server's behaviour), the value codec of the paging control (C19, V-codecs).
use vstd::prelude::*;
use vstd::string::*;
verus! {

//@include contracts/shared/await.rs

pub type RequestId = i32;
#[derive(Clone, Copy)]
pub struct Duration { pub d: u64 }
pub enum LdapError { E(u8), AdapterInit(String) }
pub type Result<T> = core::result::Result<T, LdapError>;
// `ctype` is a String in the repo; here a wrapper that carries std's `String == &str` / `!=` (content comparison) as a
// PartialEq specification, so that both operators are decided as written
pub struct CType { pub s: String }
impl<'a> vstd::std_specs::cmp::PartialEqSpecImpl<&'a str> for CType {
    open spec fn obeys_eq_spec() -> bool { true }
    open spec fn eq_spec(&self, o: &&'a str) -> bool { self.s@ == o@ }
}
impl<'a> PartialEq<&'a str> for CType { #[verifier::external_body] fn eq(&self, o: &&'a str) -> (r: bool) { unimplemented!() } }
pub struct RawControl { pub ctype: CType, pub crit: bool, pub val: Option<Vec<u8>> }
impl Clone for RawControl { #[verifier::external_body] fn clone(&self) -> (r: RawControl) ensures r == *self { unimplemented!() } }
//@item file=src/controls_impl.rs kind=enum name=ControlType
pub struct Control(pub Option<ControlType>, pub RawControl);
pub struct LdapResult { pub rc: u32, pub ctrls: Vec<Control> }
pub struct ResultEntry { pub x: u8 }
//@item file=src/search.rs kind=enum name=Scope derive="Clone, Copy"
//@item file=src/search.rs kind=enum name=DerefAliases derive="Clone, Copy"
//@item file=src/search.rs kind=struct name=SearchOptions
impl Clone for SearchOptions { #[verifier::external_body] fn clone(&self) -> (r: SearchOptions) ensures r == *self { unimplemented!() } }
pub struct A { pub a: u8 }     // the attribute-list type parameter, passed through only
impl Clone for A { #[verifier::external_body] fn clone(&self) -> (r: A) ensures r == *self { unimplemented!() } }
pub type MaybeControls = Option<Vec<RawControl>>;

// the paging control value (codec: V-codecs C19.paged_results_*); `.into()` is the From<PagedResults> for RawControl impl
pub mod controls {
    pub struct PagedResults { pub size: i32, pub cookie: Vec<u8> }
}
pub uninterp spec fn paged_raw(size: i32, cookie: Seq<u8>) -> RawControl;
pub uninterp spec fn paged_parse(val: Option<Vec<u8>>) -> controls::PagedResults;
impl controls::PagedResults {
    #[verifier::external_body]
    pub fn into(self) -> (r: RawControl) ensures r == paged_raw(self.size, self.cookie@) { unimplemented!() }
}
impl RawControl {
    // RawControl::parse::<PagedResults>() = PagedResults::parse(val) (V-codecs: C19.paged_results_parse_*)
    #[verifier::external_body]
    pub fn parse(&self) -> (r: controls::PagedResults) ensures r == paged_parse(self.val) { unimplemented!() }
}

// what a Search was issued with (ghost record written by the streaming_search stub; its contract is V-search's
// C02.streaming_search_is_streaming_search_with_no_adapters_and_the_same_arguments)
pub struct Issued { pub controls: MaybeControls, pub timeout: Option<Duration>, pub search_opts: Option<SearchOptions>,
    pub base: Seq<char>, pub scope: Scope, pub filter: Seq<char>, pub attrs: A }
pub struct Ldap { pub last_id: RequestId, pub timeout: Option<Duration>, pub controls: MaybeControls, pub search_opts: Option<SearchOptions>, pub chan: int,
    pub issued: Ghost<Option<Issued>> }
impl Clone for Ldap {
    // V-ldap: C02.cloned_handle_starts_without_modifiers
    #[verifier::external_body]
    fn clone(&self) -> (r: Ldap) ensures r.chan == self.chan, r.last_id == 0, r.timeout is None, r.controls is None, r.search_opts is None { unimplemented!() }
}
pub struct ItemReceiver { pub g: u8 }
pub struct SearchStream { pub ldap: Ldap, pub rx: Option<ItemReceiver>, pub res: Option<LdapResult>, pub g: u8, pub asked: Ghost<Option<Asked>> }
pub struct StartFut { pub r: Result<SearchStream> }
pub struct NextFut { pub r: Result<Option<ResultEntry>> }
pub struct FinishFut { pub r: LdapResult }
impl StartFut { #[verifier::external_body] pub fn verif_await(self) -> (r: Result<SearchStream>) ensures r == self.r { unimplemented!() } }
impl NextFut { #[verifier::external_body] pub fn verif_await(self) -> (r: Result<Option<ResultEntry>>) ensures r == self.r { unimplemented!() } }
impl FinishFut { #[verifier::external_body] pub fn verif_await(self) -> (r: LdapResult) ensures r == self.r { unimplemented!() } }
impl Ldap {
    #[verifier::external_body]
    pub fn streaming_search(&mut self, base: &String, scope: Scope, filter: &String, attrs: &A) -> (f: StartFut)
        ensures f.r matches Ok(s) ==> s.ldap.issued@ == Some(Issued { controls: old(self).controls, timeout: old(self).timeout,
            search_opts: old(self).search_opts, base: base@, scope: scope, filter: filter@, attrs: *attrs }),
    { unimplemented!() }
}
pub uninterp spec fn next_of(s: SearchStream) -> Result<Option<ResultEntry>>;
pub uninterp spec fn finish_of(s: SearchStream) -> LdapResult;
// prophecy: what the inner start answers to a given request
pub uninterp spec fn start_result(q: Asked) -> Result<()>;
pub struct StartRFut { pub r: Result<()> }
impl StartRFut { #[verifier::external_body] pub fn verif_await(self) -> (r: Result<()>) ensures r == self.r { unimplemented!() } }
// what the inner start was asked for, with the handle's modifiers at that moment (ghost record, cf. V-search `Started`)
pub struct Asked { pub controls: MaybeControls, pub timeout: Option<Duration>, pub search_opts: Option<SearchOptions>,
    pub base: Seq<char>, pub scope: Scope, pub filter: Seq<char>, pub attrs: A }
impl SearchStream {
    pub fn ldap_handle(&mut self) -> (r: &mut Ldap) ensures *r == old(self).ldap, final(self).ldap == *final(r), final(self).rx == old(self).rx, final(self).res == old(self).res, final(self).g == old(self).g, final(self).asked == old(self).asked { &mut self.ldap }
    #[verifier::external_body]
    pub fn start(&mut self, base: &str, scope: Scope, filter: &str, attrs: A) -> (f: StartRFut)
        ensures final(self).asked@ == Some(Asked { controls: old(self).ldap.controls, timeout: old(self).ldap.timeout, search_opts: old(self).ldap.search_opts,
            base: base@, scope: scope, filter: filter@, attrs: attrs }),
            f.r == start_result(Asked { controls: old(self).ldap.controls, timeout: old(self).ldap.timeout, search_opts: old(self).ldap.search_opts,
                base: base@, scope: scope, filter: filter@, attrs: attrs })
    { unimplemented!() }
    #[verifier::external_body]
    pub fn next(&mut self) -> (f: NextFut) ensures f.r == next_of(*old(self)), final(self).ldap == old(self).ldap { unimplemented!() }
    #[verifier::external_body]
    pub fn finish(&mut self) -> (f: FinishFut) ensures f.r == finish_of(*old(self)) { unimplemented!() }
}
// idiom: `.iter().enumerate()` yields (index, &element) in order (Enumerate is outside this Verus)
#[verifier::external_body]
pub fn verif_enumerate_ref<'a>(v: &'a Vec<Control>) -> (r: Vec<(usize, &'a Control)>)
    ensures r@.len() == v@.len(), forall|j: int| 0 <= j < v@.len() ==> (#[trigger] r@[j]).0 == j && *r@[j].1 == v@[j]
{ unimplemented!() }

// idiom of start(): `ctrls.iter().filter(|c| { if c.ctype == OID { found_pr = true; false } else { true } }).cloned().collect()`
// -- a closure mutating a captured flag, outside this Verus; replaced by a recorded substitution with this ASSUMED meaning:
// the controls other than the paging control, in order, and whether a paging control was among them
pub open spec fn is_paging_oid(c: RawControl) -> bool { c.ctype.s@ == "1.2.840.113556.1.4.319"@ }
pub open spec fn without_paging(s: Seq<RawControl>, n: nat) -> Seq<RawControl> decreases n {
    if n == 0 || n > s.len() { Seq::<RawControl>::empty() } else if is_paging_oid(s[n - 1]) { without_paging(s, (n - 1) as nat) } else { without_paging(s, (n - 1) as nat).push(s[n - 1]) }
}
pub proof fn lemma_without_paging_id(s: Seq<RawControl>, n: nat)
    requires n <= s.len(), forall|j: int| 0 <= j < n ==> !is_paging_oid(#[trigger] s[j]),
    ensures without_paging(s, n) == s.take(n as int),
    decreases n,
{
    if n > 0 { lemma_without_paging_id(s, (n - 1) as nat); assert(s.take((n - 1) as int).push(s[n - 1]) =~= s.take(n as int)); } else { assert(s.take(0) =~= Seq::<RawControl>::empty()); }
}
//@lift name=PagedResults::start::keep_control file=src/adapters.rs block=".filter(|c|" as="fn keep_control(c: &RawControl, found_pr: &mut bool) -> (r: bool)"
//@ sub "found_pr = " => "*found_pr = " count=*
//@ spec
    ensures
        r == !is_paging_oid(*c), //# C16.the_callers_own_paging_control_and_only_that_is_dropped
        *final(found_pr) == (*old(found_pr) || is_paging_oid(*c)), //# C16.a_callers_paging_control_is_noticed
//@end
// std's `iter.filter(p).cloned().collect::<Vec<_>>()`: p on each item in order, the items it accepts cloned in order.
// NOT a stub: a verified loop over the lifted closure body (the call argument is replaced by lifter rule R12).
pub struct Kept { pub v: Vec<RawControl> }
impl Kept {
    pub fn cloned(self) -> (r: Kept) ensures r == self { self }
    pub fn collect(self) -> (r: Vec<RawControl>) ensures r == self.v { self.v }
}
pub fn verif_filter(v: &Vec<RawControl>, found_pr: &mut bool) -> (k: Kept)
    ensures
        k.v@ == without_paging(v@, v@.len()),
        *final(found_pr) == (*old(found_pr) || exists|j: int| 0 <= j < v@.len() && is_paging_oid(#[trigger] v@[j])),
{
    let mut out: Vec<RawControl> = Vec::new();
    let ghost f0 = *found_pr;
    let mut i: usize = 0;
    while i < v.len()
        invariant i <= v@.len(), out@ == without_paging(v@, i as nat),
            *found_pr == (f0 || exists|j: int| 0 <= j < i && is_paging_oid(#[trigger] v@[j])),
        decreases v@.len() - i
    {
        let c = &v[i];
        if keep_control(c, found_pr) { out.push(c.clone()); }
        i += 1;
    }
    Kept { v: out }
}
// std: String::from(&str) copies the characters (vstd leaves `from` unspecified for String; recorded substitution)
#[verifier::external_body]
pub fn verif_string_of(s: &str) -> (r: String) ensures r@ == s@ { unimplemented!() }
pub struct CtrlIter<'a> { pub v: &'a Vec<RawControl> }
pub trait VecCtrlExt { fn verif_ctrl_iter(&self) -> (r: CtrlIter<'_>); }
impl VecCtrlExt for Vec<RawControl> { fn verif_ctrl_iter(&self) -> (r: CtrlIter<'_>) ensures r.v == self { CtrlIter { v: self } } }
impl<'a> CtrlIter<'a> {
    pub fn filter(self, found_pr: &mut bool) -> (k: Kept)
        ensures k.v@ == without_paging(self.v@, self.v@.len()),
            *final(found_pr) == (*old(found_pr) || exists|j: int| 0 <= j < self.v@.len() && is_paging_oid(#[trigger] self.v@[j])),
    { verif_filter(self.v, found_pr) }
}
pub struct PhantomS { }
//@item file=src/adapters.rs kind=struct name=PagedResults retype="PagedResults<S: AsRef<str>, A> => PagedResults; _s: PhantomData<S> => _s: PhantomS"
pub open spec fn is_paged(c: Control) -> bool { c.0 matches Some(ControlType::PagedResults) }
pub open spec fn first_paged(s: Seq<Control>, n: int) -> int decreases n { if n <= 0 { -1 } else if first_paged(s, n - 1) >= 0 { first_paged(s, n - 1) } else if is_paged(s[n - 1]) { n - 1 } else { -1 } }

impl PagedResults {
//@lift name=PagedResults::start file=src/adapters.rs impl="impl<'a, S, A> Adapter<'a, S, A> for PagedResults<S, A>" fn=start
//@ sub "stream: &mut SearchStream<'a, S, A>" => "stream: &mut SearchStream"
//@ arg ".filter(|c|" => "&mut found_pr"
//@ sub ".iter()\n            .filter(" => ".verif_ctrl_iter()\n            .filter("
//@ sub "let empty_ctrls = vec![];" => "let empty_ctrls: Vec<RawControl> = vec![];"
//@ sub "String::from(base)" => "verif_string_of(base)" count=*
//@ sub "String::from(filter)" => "verif_string_of(filter)" count=*
//@ ret r
//@ insert after "ldap.controls = Some(controls.clone());"
        proof { assert(ldap.controls->0@ =~= controls@); }
//@ insert after-let controls
        proof {
            if !found_pr && stream_ldap.controls is Some { let v = stream_ldap.controls->0@; lemma_without_paging_id(v, v.len()); assert(v.take(v.len() as int) =~= v); }
        }
//@ spec
    ensures
        // a caller-supplied paging control is refused (relative to the assumed meaning of the filter idiom)
        (old(stream).ldap.controls matches Some(v) && exists|j: int| 0 <= j < v@.len() && is_paging_oid(#[trigger] v@[j])) ==> r is Err, //# C16.caller_supplied_paging_control_is_rejected
        !(old(stream).ldap.controls matches Some(v) && exists|j: int| 0 <= j < v@.len() && is_paging_oid(#[trigger] v@[j])) ==> (final(stream).asked@ matches Some(q) && r == start_result(q)), //# C16.without_a_paging_control_of_the_callers_the_search_is_started_and_its_outcome_returned
        r is Ok ==> (final(stream).asked@ matches Some(q)
            && q.base == base@ && q.scope == scope && q.filter == filter@ && q.attrs == attrs
            && q.search_opts == old(stream).ldap.search_opts
            && (q.controls matches Some(c) && c@ == (match old(stream).ldap.controls { Some(v) => v@, None => Seq::<RawControl>::empty() }).push(paged_raw(old(self).page_size, Seq::<u8>::empty())))), //# C02+C16.first_request_is_the_callers_search_plus_a_paging_control_with_the_page_size_and_an_empty_cookie
        r is Ok ==> (final(stream).asked@ matches Some(q) && q.timeout == old(stream).ldap.timeout), //# C12+C16.the_pending_timeout_applies_to_the_first_page_request
        r is Ok ==> (final(self).ldap matches Some(l) && l.timeout == old(stream).ldap.timeout), //# C12+C16.the_pending_timeout_is_saved_for_the_follow_up_pages
        r is Ok ==> (final(self).ldap matches Some(l) && l.search_opts == old(stream).ldap.search_opts
            && (l.controls matches Some(c) && c@ == (match old(stream).ldap.controls { Some(v) => v@, None => Seq::<RawControl>::empty() }))
            && final(self).base@ == base@ && final(self).scope == scope && final(self).filter@ == filter@ && final(self).attrs == Some(attrs)
            && final(self).page_size == old(self).page_size), //# C16.search_parameters_and_modifiers_are_saved_for_the_follow_up_pages
//@end

//@lift name=PagedResults::next file=src/adapters.rs impl="impl<'a, S, A> Adapter<'a, S, A> for PagedResults<S, A>" fn=next
//@ sub "stream: &mut SearchStream<'a, S, A>" => "stream: &mut SearchStream"
//@ sub "ctrls.iter().enumerate()" => "verif_enumerate_ref(ctrls).into_iter()"
//@ sub "let mut pr_index = None;" => "let mut pr_index: Option<usize> = None;"
//@ ret r
//@ attr #[verifier::exec_allows_no_decreases_clause]
//@ loop 1
            invariant
                *self == *old(self), self.ldap is Some, self.ldap->0.controls is Some, self.attrs is Some,
//@ loop 2 iter=it
                        invariant_except_break
                            pr_index is None,
                            forall|j: int| 0 <= j < it.index@ ==> !is_paged(#[trigger] ctrls@[j]),
                        invariant
                            *self == *old(self), self.ldap is Some, self.ldap->0.controls is Some, self.attrs is Some,
                            it.seq().len() == ctrls@.len(),
                            forall|j: int| 0 <= j < ctrls@.len() ==> (#[trigger] it.seq()[j]).0 == j && *it.seq()[j].1 == ctrls@[j],
                            pr_index matches Some(k) ==> k < ctrls@.len(),
                        ensures
                            // the loop ends at the first paging control, and only if its cookie is empty; or there is none
                            pr_index matches Some(k) ==> (k < ctrls@.len() && (forall|j: int| 0 <= j < k ==> !is_paged(#[trigger] ctrls@[j])) && is_paged(ctrls@[k as int])
                                && paged_parse(ctrls@[k as int].1.val).cookie@.len() == 0),
                            pr_index is None ==> (forall|j: int| 0 <= j < ctrls@.len() ==> !is_paged(#[trigger] ctrls@[j])),
//@ insert before "pr_index = Some(cno);"
                            proof { assert(cno == it.index@); assert(*ctrl == ctrls@[it.index@ as int]); assert(is_paged(ctrls@[it.index@ as int])); }
//@ insert before "if let Some(pr_index) = pr_index {"
                    let ghost c0 = ctrls@;
                    proof {
                        // paging stops here: the server returned an empty cookie, or no paging control at all
                        assert(pr_index matches Some(k) ==> is_paged(c0[k as int]) && paged_parse(c0[k as int].1.val).cookie@.len() == 0); //# C16.paging_stops_at_the_first_empty_cookie
                    }
//@ insert after "ctrls.remove(pr_index);"
                        proof {
                            assert(ctrls@ == c0.remove(pr_index as int)); //# C16.the_paging_control_is_removed_from_the_final_result
                            assert(forall|j: int| 0 <= j < pr_index ==> !is_paged(#[trigger] c0[j]));
                        }
//@ insert before "let new_stream = match ldap"
                            let ghost sent_ctrls = ldap.controls;
                            let ghost saved = self.ldap->0;
                            proof {
                                assert(sent_ctrls->0@ == saved.controls->0@.push(paged_raw(self.page_size, pr.cookie@))); //# C16.follow_up_carries_the_other_controls_plus_the_paging_control_with_the_returned_cookie
                            }
//@ insert before "continue 'ent;"
                            proof {
                                // the original stream goes on with the follow-up search: its handle AND its item receiver
                                assert(stream.ldap == new_ldap && stream.rx == new_rx); //# C16.the_stream_continues_with_the_follow_up_searchs_handle_and_receiver
                            }
//@ insert before "stream.ldap = new_stream.ldap;"
                            let ghost new_ldap = new_stream.ldap;
                            let ghost new_rx = new_stream.rx;
                            proof {
                                // the follow-up request: saved handle's modifiers, other controls + paging control(size, cookie), saved search
                                let q = new_stream.ldap.issued@->0;
                                assert(new_stream.ldap.issued@ is Some);
                                assert(q.controls == sent_ctrls); //# C02+C16.follow_up_request_carries_exactly_the_controls_built_for_it
                                assert(q.timeout == saved.timeout); //# C12+C16.follow_up_page_keeps_the_saved_timeout
                                assert(q.search_opts == saved.search_opts); //# C02+C16.follow_up_page_keeps_the_saved_search_options
                                assert(q.base == self.base@ && q.scope == self.scope && q.filter == self.filter@ && q.attrs == self.attrs->0); //# C02+C16.follow_up_page_repeats_the_saved_search_with_the_saved_modifiers
                            }
//@ spec
    requires old(self).ldap is Some, old(self).ldap->0.controls is Some, old(self).attrs is Some,
    ensures
        final(self).ldap == old(self).ldap && final(self).base == old(self).base && final(self).filter == old(self).filter
            && final(self).attrs == old(self).attrs && final(self).page_size == old(self).page_size, //# C16.saved_search_parameters_are_never_changed
//@end

//@lift name=PagedResults::finish file=src/adapters.rs impl="impl<'a, S, A> Adapter<'a, S, A> for PagedResults<S, A>" fn=finish
//@ sub "stream: &mut SearchStream<'a, S, A>" => "stream: &mut SearchStream"
//@ ret r
//@ spec
    ensures r == finish_of(*old(stream)), *final(self) == *old(self), //# C16.finish_is_the_streams_finish
//@end
}

// PagedResults::new: the page size every request of this adapter will carry is the constructor's argument; no handle yet
pub const PhantomData: PhantomS = PhantomS { };
//@lift name=PagedResults::new file=src/adapters.rs impl="impl<S, A> PagedResults<S, A>" fn=new
//@ sub "fn new(page_size: i32) -> Self" => "fn paged_results_new(page_size: i32) -> PagedResults"
//@ sub "Self {" => "PagedResults {"
//@ sub "String::from(\"\")" => "verif_string_of(\"\")" count=*
//@ ret r
//@ spec
    ensures r.page_size == page_size, r.ldap is None, r.attrs is None, //# C16.the_adapter_is_built_with_the_requested_page_size_and_no_saved_handle
//@end

} // verus!
fn main() {}
