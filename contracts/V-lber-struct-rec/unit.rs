// Unit V-lber-struct-rec: Sequence::into_structure and Set::into_structure (lber/src/structures/sequence.rs), which unit
// V-lber-struct assumes.  They map a closure calling Tag::into_structure over the children; inside the recursive cycle
// with Tag::into_structure this Verus loses vstd's map/collect specification, so the cycle is cut here: Tag::into_structure
// is the assumed contract in THIS unit (it is proved in V-lber-struct, which in turn assumes these two).  Each body is
// checked against its callees' contracts: the usual partial-correctness argument for mutually recursive procedures.
// Serves C07, C02, C19.
use vstd::prelude::*;
use vstd::string::*;
verus! {

//@item file=lber/src/common.rs kind=enum name=TagStructure derive="PartialEq, Eq, Clone, Copy, Structural"
//@item file=lber/src/common.rs kind=enum name=TagClass derive="PartialEq, Eq, Clone, Copy, Structural"
pub struct StructureTag { pub class: TagClass, pub id: u64, pub payload: PL }
pub enum PL { P(Vec<u8>), C(Vec<StructureTag>) }
pub struct Integer { pub id: u64, pub class: TagClass, pub inner: i64 }
pub struct Enumerated { pub id: u64, pub class: TagClass, pub inner: i64 }
pub struct Boolean { pub id: u64, pub class: TagClass, pub inner: bool }
pub struct Null { pub id: u64, pub class: TagClass, pub inner: () }
pub struct OctetString { pub id: u64, pub class: TagClass, pub inner: Vec<u8> }
pub struct Sequence { pub id: u64, pub class: TagClass, pub inner: Vec<Tag> }
pub struct Set { pub id: u64, pub class: TagClass, pub inner: Vec<Tag> }
pub struct ExplicitTag { pub id: u64, pub class: TagClass, pub inner: Box<Tag> }
pub enum Tag {
    Integer(Integer), Enumerated(Enumerated), Sequence(Sequence), Set(Set), OctetString(OctetString),
    Boolean(Boolean), Null(Null), ExplicitTag(ExplicitTag), StructureTag(StructureTag),
}
//@include contracts/shared/tree_spec.rs
pub mod structure { pub use super::StructureTag; pub use super::PL; }

// Tag::into_structure: proved in V-lber-struct (C07+C02: st_tree(r) == tree(t)); given here as an inherent method so that
// the method-call syntax of the lifted text resolves to it
impl Tag {
    #[verifier::external_body]
    pub fn into_structure(self) -> (r: StructureTag) ensures st_tree(r) == tree(self) { unimplemented!() }
}

// st_trees of an element-wise converted vector
pub proof fn lemma_st_trees_map(v: Seq<StructureTag>, ts: Seq<Tag>, n: nat)
    requires n <= v.len(), v.len() == ts.len(), forall|j: int| 0 <= j < v.len() ==> st_tree(#[trigger] v[j]) == tree(ts[j]),
    ensures st_trees(v, n) == trees(ts, n),
    decreases n,
{
    if n > 0 { lemma_st_trees_map(v, ts, (n - 1) as nat); }
}

// The two trait methods are lifted as free functions (`self` -> a named parameter, recorded substitutions): inside a trait
// impl this Verus does not apply vstd's into_iter/map/collect specification (probed: the identical body verifies as a free
// function and not as a trait method).
//@lift name=Sequence::into_structure file=lber/src/structures/sequence.rs impl="impl\s+ASNTag\s+for\s+Sequence\s*\{" fn=into_structure
//@ sub "fn into_structure(self) -> structure::StructureTag" => "fn sequence_into_structure(this: Sequence) -> structure::StructureTag"
//@ sub "self." => "this." count=3
//@ ret r
//@ closure at="|x| x.into_structure()" params="x: Tag" ret="(o: StructureTag)"
                ensures st_tree(o) == tree(x)
//@ tail last
        proof { let v = verif_ret.payload->C_0@; lemma_st_trees_map(v, this.inner@, v.len()); }
//@ spec
    ensures st_tree(r) == tree(Tag::Sequence(this)), //# C07+C02.sequence_children_converted_element_wise_in_order
//@end

//@lift name=Set::into_structure file=lber/src/structures/sequence.rs impl="impl\s+ASNTag\s+for\s+Set\s*\{" fn=into_structure
//@ sub "fn into_structure(self) -> structure::StructureTag" => "fn set_into_structure(this: Set) -> structure::StructureTag"
//@ sub "self." => "this." count=3
//@ ret r
//@ closure at="|x| x.into_structure()" params="x: Tag" ret="(o: StructureTag)"
                ensures st_tree(o) == tree(x)
//@ tail last
        proof { let v = verif_ret.payload->C_0@; lemma_st_trees_map(v, this.inner@, v.len()); }
//@ spec
    ensures st_tree(r) == tree(Tag::Set(this)), //# C07+C02.set_children_converted_element_wise_in_order
//@end

} // verus!
fn main() {}
