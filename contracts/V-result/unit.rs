#![feature(allocator_api)]
// Unit V-result: src/result.rs -- the result-code classification helpers and the LDAPResult decoder
// `impl From<Tag> for LdapResultExt`; src/search.rs parse_refs.  Serves C03 and C11.
//
// The decoder is lifted twice from the same source text:
//   * `ext_from_wf`  under the precondition wf_ldap_result(t) (RFC 4511 4.1.9/4.2.2/4.12): no expect()/panic! is
//     reachable and every field equals what the server encoded (C03);
//   * `ext_from_any` with no precondition on the tree: every expect()/panic! site is an obligation (C11).
use vstd::prelude::*;
use vstd::string::*;
use vstd::std_specs::iter::IteratorSpec;
verus! {

//@include contracts/shared/lber_types.rs
//@include contracts/shared/std_specs.rs
//@include contracts/shared/utf8_specs.rs
//@include contracts/shared/lift_structure_tag.rs

pub struct Control { pub x: u8 }
pub struct LdapResult { pub rc: u32, pub matched: String, pub text: String, pub refs: Vec<String>, pub ctrls: Vec<Control> }
pub struct Exop { pub name: Option<String>, pub val: Option<Vec<u8>> }
pub struct SaslCreds(pub Option<Vec<u8>>);
pub struct LdapResultExt(pub LdapResult, pub Exop, pub SaslCreds);
pub struct ResultEntry(pub StructureTag, pub Vec<Control>);
pub struct SearchResult(pub Vec<ResultEntry>, pub LdapResult);
pub struct CompareResult(pub LdapResult);
pub struct ExopResult(pub Exop, pub LdapResult);
// LdapError::LdapResult { result } is the only variant these helpers produce (#[from] LdapResult)
pub enum LdapError { LdapResult { result: LdapResult }, Other(u8) }
impl LdapError { pub fn from(r: LdapResult) -> (e: LdapError) ensures e == (LdapError::LdapResult { result: r }) { LdapError::LdapResult { result: r } } }
pub type Result<T> = core::result::Result<T, LdapError>;
//@include contracts/shared/lift_types_enum.rs
pub struct NomErr { pub incomplete: bool }
pub uninterp spec fn be_uint(s: Seq<u8>) -> u64;
#[verifier::external_body]
pub fn parse_uint(i: &[u8]) -> (r: core::result::Result<(&[u8], u64), NomErr>)
    ensures r matches Ok(p) && p.1 == be_uint(i@)
{ unimplemented!() }

pub uninterp spec fn iter_seq<T, I>(i: I) -> Seq<T>;
pub broadcast proof fn ax_iter_seq_vec<T>(v: Vec<T>) ensures #[trigger] iter_seq::<T, Vec<T>>(v) == v@ { admit(); }
pub assume_specification<T, A: std::alloc::Allocator, I: IntoIterator<Item = T>> [<Vec<T, A> as Extend<T>>::extend] (s: &mut Vec<T, A>, it: I)
    ensures final(s)@ == old(s)@ + iter_seq::<T, I>(it);
pub assume_specification<'a> [<String as From<&'a str>>::from] (s: &str) -> (r: String) ensures r@ == s@;

// ---------------------------------------------------------------- helpers (C03: documented success codes)
impl LdapResult {
//@lift name=LdapResult::success file=src/result.rs impl="impl\s+LdapResult\s*\{" fn=success
//@ ret r
//@ spec
    ensures (self.rc == 0) ==> r == Ok::<LdapResult, LdapError>(self), //# C03.success_is_ok_iff_rc_0
            (self.rc != 0) ==> r == Err::<LdapResult, LdapError>(LdapError::LdapResult { result: self }), //# C03.success_is_err_otherwise_carrying_the_result
//@end
//@lift name=LdapResult::non_error file=src/result.rs impl="impl\s+LdapResult\s*\{" fn=non_error
//@ ret r
//@ spec
    ensures (self.rc == 0 || self.rc == 10) ==> r == Ok::<LdapResult, LdapError>(self), //# C03.non_error_is_ok_iff_rc_0_or_10
            !(self.rc == 0 || self.rc == 10) ==> r == Err::<LdapResult, LdapError>(LdapError::LdapResult { result: self }),
//@end
}
impl SearchResult {
//@lift name=SearchResult::success file=src/result.rs impl="impl\s+SearchResult\s*\{" fn=success
//@ ret r
//@ spec
    ensures (self.1.rc == 0) ==> r == Ok::<(Vec<ResultEntry>, LdapResult), LdapError>((self.0, self.1)), //# C03.search_success_iff_rc_0
            (self.1.rc != 0) ==> r == Err::<(Vec<ResultEntry>, LdapResult), LdapError>(LdapError::LdapResult { result: self.1 }),
//@end
//@lift name=SearchResult::non_error file=src/result.rs impl="impl\s+SearchResult\s*\{" fn=non_error
//@ ret r
//@ spec
    ensures (self.1.rc == 0 || self.1.rc == 10) ==> r == Ok::<(Vec<ResultEntry>, LdapResult), LdapError>((self.0, self.1)), //# C03.search_non_error_iff_rc_0_or_10
            !(self.1.rc == 0 || self.1.rc == 10) ==> r == Err::<(Vec<ResultEntry>, LdapResult), LdapError>(LdapError::LdapResult { result: self.1 }),
//@end
}
impl CompareResult {
//@lift name=CompareResult::equal file=src/result.rs impl="impl\s+CompareResult\s*\{" fn=equal
//@ ret r
//@ spec
    ensures self.0.rc == 5 ==> r == Ok::<bool, LdapError>(false), //# C03.compare_false_is_5
            self.0.rc == 6 ==> r == Ok::<bool, LdapError>(true), //# C03.compare_true_is_6
            (self.0.rc != 5 && self.0.rc != 6) ==> r == Err::<bool, LdapError>(LdapError::LdapResult { result: self.0 }), //# C03.compare_other_codes_are_errors
//@end
//@lift name=CompareResult::non_error file=src/result.rs impl="impl\s+CompareResult\s*\{" fn=non_error
//@ ret r
//@ spec
    ensures (self.0.rc == 5 || self.0.rc == 6 || self.0.rc == 10) ==> r == Ok::<LdapResult, LdapError>(self.0), //# C03.compare_non_error_iff_5_6_10
            !(self.0.rc == 5 || self.0.rc == 6 || self.0.rc == 10) ==> r == Err::<LdapResult, LdapError>(LdapError::LdapResult { result: self.0 }),
//@end
}
impl ExopResult {
//@lift name=ExopResult::success file=src/result.rs impl="impl\s+ExopResult\s*\{" fn=success
//@ ret r
//@ spec
    ensures (self.1.rc == 0) ==> r == Ok::<(Exop, LdapResult), LdapError>((self.0, self.1)), //# C03+C17.exop_success_iff_rc_0
            (self.1.rc != 0) ==> r == Err::<(Exop, LdapResult), LdapError>(LdapError::LdapResult { result: self.1 }), //# C03+C17.exop_success_is_err_for_every_other_code
//@end
//@lift name=ExopResult::non_error file=src/result.rs impl="impl\s+ExopResult\s*\{" fn=non_error
//@ ret r
//@ spec
    ensures (self.1.rc == 0 || self.1.rc == 10) ==> r == Ok::<(Exop, LdapResult), LdapError>((self.0, self.1)), //# C03.exop_non_error_iff_rc_0_or_10
            !(self.1.rc == 0 || self.1.rc == 10) ==> r == Err::<(Exop, LdapResult), LdapError>(LdapError::LdapResult { result: self.1 }),
//@end
}

// ---------------------------------------------------------------- LDAPResult decoding
// referral URIs of a `[3]` component (contract of parse_refs, lifted below)
pub open spec fn wf_refs(t: StructureTag) -> bool {
    t.payload matches PL::C(k) && forall|j: int| 0 <= j < k@.len() ==> ((#[trigger] k@[j]).payload matches PL::P(b) && valid_utf8(b@))
}
// views of a list of strings, and the URIs a `[3]` component denotes
pub open spec fn strs(v: Seq<String>) -> Seq<Seq<char>> { Seq::new(v.len(), |j: int| v[j]@) }
pub open spec fn uris_of(t: StructureTag) -> Seq<Seq<char>> {
    Seq::new(t.payload->C_0@.len(), |j: int| utf8_decode(t.payload->C_0@[j].payload->P_0@))
}
pub open spec fn uri_ok(c: StructureTag, s: String) -> bool { (c.payload is P) && valid_utf8(c.payload->P_0@) && s@ == utf8_decode(c.payload->P_0@) }
pub proof fn lemma_strs_concat(a: Seq<String>, b: Seq<String>) ensures strs(a + b) == strs(a) + strs(b)
{ assert(strs(a + b) =~= strs(a) + strs(b)); }

// RFC 4511 4.1.9 LDAPResult (+ 4.2.2 serverSaslCreds [7], 4.12 responseName [10] / responseValue [11])
pub open spec fn wf_component(c: StructureTag) -> bool {
    (c.id == 3 ==> wf_refs(c)) && (c.id == 7 ==> (c.payload is P)) && (c.id == 11 ==> (c.payload is P))
    && (c.id == 10 ==> (c.payload matches PL::P(b) && valid_utf8(b@)))
}
pub open spec fn wf_ldap_result(st: StructureTag) -> bool {
    st.payload matches PL::C(ch) && ch@.len() >= 3
        && ch@[0].class == TagClass::Universal && ch@[0].id == 10 && (ch@[0].payload is P)
        && (ch@[1].payload matches PL::P(b1) && valid_utf8(b1@))
        && (ch@[2].payload matches PL::P(b2) && valid_utf8(b2@))
        && forall|j: int| 3 <= j < ch@.len() ==> wf_component(#[trigger] ch@[j])
}
// folds over the components after the first three, in order
pub open spec fn pos(ch: Seq<StructureTag>, rem: Seq<StructureTag>) -> int { ch.len() - rem.len() }
pub open spec fn refs_fold(s: Seq<StructureTag>, n: int) -> Seq<Seq<char>> decreases n {
    if n <= 3 { Seq::empty() } else if s[n - 1].id == 3 { refs_fold(s, n - 1) + uris_of(s[n - 1]) } else { refs_fold(s, n - 1) }
}
pub open spec fn last_prim(s: Seq<StructureTag>, n: int, id: u64) -> Option<Seq<u8>> decreases n {
    if n <= 3 { None } else if s[n - 1].id == id { Some(s[n - 1].payload->P_0@) } else { last_prim(s, n - 1, id) }
}

//@lift name=try_parse_refs file=src/search.rs fn=try_parse_refs
//@ sub "let mut refs = Vec::new();" => "let mut refs: Vec<String> = Vec::new();"
//@ ret r
//@ insert before "for uri in t.expect_constructed()? {"
    let ghost k = t.payload->C_0@;
//@ loop 1 iter=it
        invariant
            it.seq() == k, refs@.len() == it.index@,
            forall|j: int| #![trigger k[j]] #![trigger refs@[j]] 0 <= j < it.index@ ==> uri_ok(k[j], refs@[j]),
            t.payload matches PL::C(kv) && kv@ == k,
//@ insert loop-start 1
        proof { assert(k[it.index@ as int] == uri); }
//@ insert before "Some(refs)"
    proof { assert(strs(refs@) =~= uris_of(t)); }
//@ spec
    ensures
        r is Some <==> wf_refs(t), //# C11.malformed_referral_is_rejected_not_a_panic
        r matches Some(v) ==> strs(v@) == uris_of(t), //# C03+C10.referral_uris_in_order
//@end

//@lift name=parse_refs file=src/search.rs fn=parse_refs
//@ ret r
//@ spec
    requires wf_refs(t), //# C11.parse_refs_public_api_panics_on_malformed_input_by_contract
    ensures strs(r@) == uris_of(t),
//@end

// what a well-formed LDAPResult decodes to
pub open spec fn decoded(st: StructureTag, r: LdapResultExt) -> bool {
    st.payload matches PL::C(ch) && {
        &&& r.0.rc == (be_uint(ch@[0].payload->P_0@) as u32)
        &&& r.0.matched@ == utf8_decode(ch@[1].payload->P_0@)
        &&& r.0.text@ == utf8_decode(ch@[2].payload->P_0@)
        &&& strs(r.0.refs@) == refs_fold(ch@, ch@.len() as int)
        &&& r.0.ctrls@.len() == 0
        &&& (match r.1.name { Some(n) => last_prim(ch@, ch@.len() as int, 10) matches Some(b) && n@ == utf8_decode(b), None => last_prim(ch@, ch@.len() as int, 10) is None })
        &&& (match r.1.val { Some(v) => last_prim(ch@, ch@.len() as int, 11) == Some(v@), None => last_prim(ch@, ch@.len() as int, 11) is None })
        &&& (match r.2.0 { Some(v) => last_prim(ch@, ch@.len() as int, 7) == Some(v@), None => last_prim(ch@, ch@.len() as int, 7) is None })
    }
}

//@lift name=parse_result_ext file=src/result.rs fn=parse_result_ext
//@ sub "let mut exop_name = None;" => "let mut exop_name: Option<String> = None;"
//@ sub "let mut exop_val = None;" => "let mut exop_val: Option<Vec<u8>> = None;"
//@ sub "let mut sasl_creds = None;" => "let mut sasl_creds: Option<Vec<u8>> = None;"
//@ sub "let mut refs = Vec::new();" => "let mut refs: Vec<String> = Vec::new();"
//@ ret r
//@ closure at="|t| t.match_id(Types::Enumerated as u64)" params="t: StructureTag" ret="(o: Option<StructureTag>)"
            ensures o == (if t.id == 10 { Some(t) } else { None })
//@ closure at="|t| t.expect_primitive()" params="t: StructureTag" ret="(o: Option<Vec<u8>>)"
            ensures o == (match t.payload { PL::P(i) => Some(i), PL::C(_) => None::<Vec<u8>> })
//@ insert before "let mut tags = t.expect_constructed()"
    let ghost ch = t.payload->C_0@;
//@ loop 1
        invariant
            t.payload matches PL::C(chv) && chv@ == ch,
            3 <= pos(ch, tags.remaining()) <= ch.len(), tags.remaining() == ch.skip(pos(ch, tags.remaining())),
            forall|j: int| 3 <= j < pos(ch, tags.remaining()) ==> wf_component(#[trigger] ch[j]),
            strs(refs@) == refs_fold(ch, pos(ch, tags.remaining())),
            match exop_name { Some(n) => last_prim(ch, pos(ch, tags.remaining()), 10) matches Some(b) && n@ == utf8_decode(b), None => last_prim(ch, pos(ch, tags.remaining()), 10) is None },
            match exop_val { Some(v) => last_prim(ch, pos(ch, tags.remaining()), 11) == Some(v@), None => last_prim(ch, pos(ch, tags.remaining()), 11) is None },
            match sasl_creds { Some(v) => last_prim(ch, pos(ch, tags.remaining()), 7) == Some(v@), None => last_prim(ch, pos(ch, tags.remaining()), 7) is None },
        ensures
            forall|j: int| 3 <= j < ch.len() ==> wf_component(#[trigger] ch[j]),
            strs(refs@) == refs_fold(ch, ch.len() as int),
            match exop_name { Some(n) => last_prim(ch, ch.len() as int, 10) matches Some(b) && n@ == utf8_decode(b), None => last_prim(ch, ch.len() as int, 10) is None },
            match exop_val { Some(v) => last_prim(ch, ch.len() as int, 11) == Some(v@), None => last_prim(ch, ch.len() as int, 11) is None },
            match sasl_creds { Some(v) => last_prim(ch, ch.len() as int, 7) == Some(v@), None => last_prim(ch, ch.len() as int, 7) is None },
//@ attr #[verifier::exec_allows_no_decreases_clause]
//@ insert loop-start 1
        proof {
            assert forall|v: Vec<String>| #[trigger] iter_seq::<String, Vec<String>>(v) == v@ by { ax_iter_seq_vec::<String>(v); }
            assert forall|a: Seq<String>, b: Seq<String>| #[trigger] strs(a + b) == strs(a) + strs(b) by { lemma_strs_concat(a, b); }
        }
//@ spec
    ensures
        // C11: total -- no expect()/panic!; exactly the RFC 4511 4.1.9 shapes are accepted
        r is Some <==> wf_ldap_result(t), //# C03+C11.ldap_result_accepted_iff_well_formed
        r matches Some(x) ==> decoded(t, x), //# C03.every_field_is_what_the_server_encoded
//@end

//@lift name=LdapResultExt::from file=src/result.rs impl="impl\s+From<Tag>\s+for\s+LdapResultExt\s*\{" fn=from
//@ sub "fn from(t: Tag) -> LdapResultExt" => "fn ext_from(t: Tag) -> LdapResultExt"
//@ ret r
//@ spec
    requires (t is StructureTag) || (t is Null), //# C11.conversion_is_only_applied_to_decoded_or_null_tags
    ensures
        t is Null ==> r.0.rc == 0 && r.0.matched@ == ""@ && r.0.text@ == ""@ && r.0.refs@.len() == 0 && r.0.ctrls@.len() == 0
            && r.1.name is None && r.1.val is None && r.2.0 is None, //# C03.null_tag_is_empty_success
        t matches Tag::StructureTag(st) ==> (wf_ldap_result(st) ==> decoded(st, r)), //# C03.result_fields_equal_what_the_server_sent
        t matches Tag::StructureTag(st) ==> (!wf_ldap_result(st) ==> r.0.rc == 2 && r.0.refs@.len() == 0 && r.0.ctrls@.len() == 0
            && r.1.name is None && r.1.val is None && r.2.0 is None), //# C11.malformed_ldap_result_becomes_protocol_error_not_a_panic
//@end

// `impl From<Tag> for LdapResult` is what every single-result operation applies to the driver's answer (ldap.rs: `.0.into()` /
// `LdapResult::from`); it is the projection of the conversion above on the common fields
//@lift name=LdapResult::from file=src/result.rs impl="impl\s+From<Tag>\s+for\s+LdapResult\s*\{" fn=from
//@ sub "fn from(t: Tag) -> LdapResult" => "fn ldap_result_from(t: Tag) -> LdapResult"
//@ sub "<LdapResultExt as From<Tag>>::from(" => "ext_from("
//@ ret r
//@ spec
    requires (t is StructureTag) || (t is Null),
    ensures
        t is Null ==> r.rc == 0 && r.matched@ == ""@ && r.text@ == ""@ && r.refs@.len() == 0 && r.ctrls@.len() == 0, //# C03.plain_result_of_null_tag_is_empty_success
        t matches Tag::StructureTag(st) ==> (wf_ldap_result(st) ==> (st.payload matches PL::C(ch)
            && r.rc == (be_uint(ch@[0].payload->P_0@) as u32)
            && r.matched@ == utf8_decode(ch@[1].payload->P_0@)
            && r.text@ == utf8_decode(ch@[2].payload->P_0@)
            && strs(r.refs@) == refs_fold(ch@, ch@.len() as int)
            && r.ctrls@.len() == 0)), //# C03.plain_result_fields_equal_what_the_server_sent
        t matches Tag::StructureTag(st) ==> (!wf_ldap_result(st) ==> r.rc == 2 && r.refs@.len() == 0 && r.ctrls@.len() == 0), //# C11.plain_result_of_malformed_ldap_result_is_protocol_error
//@end

} // verus!
fn main() {}
