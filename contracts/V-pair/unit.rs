// Unit V-pair: `LdapConnAsync::conn_pair` (src/conn.rs) -- how a connection and its first handle are born.  This is the
// BASE CASE of the invariants the other units preserve: empty routing tables, no reserved ID, a counter in range, a handle without
// one-shot modifiers and without TLS, and the wiring: the handle's three senders are the other ends of the driver's three
// receivers, and both share ONE ID table.  Serves C01, C05, C13 (initial state) and C17 (has_tls starts false).
use vstd::prelude::*;
verus! {

// tokio mpsc: a channel is identified by a ghost id shared by its two ends
pub struct Sender { pub chan: int }
pub struct Receiver { pub chan: int }
pub struct mpsc { }
impl mpsc { #[verifier::external_body] pub fn unbounded_channel() -> (r: (Sender, Receiver)) ensures r.0.chan == r.1.chan { unimplemented!() } }
// std::sync::Arc / Mutex: `cell` identifies the shared allocation, `init` is the value it was created with
pub struct Mutex<T> { pub v: T }
impl<T> Mutex<T> { pub fn new(v: T) -> (r: Mutex<T>) ensures r.v == v { Mutex { v } } }
pub struct Arc<T> { pub cell: int, pub init: T }
impl<T> Arc<T> {
    #[verifier::external_body] pub fn new(v: T) -> (r: Arc<T>) ensures r.init == v { unimplemented!() }
    #[verifier::external_body] pub fn clone(&self) -> (r: Arc<T>) ensures r.cell == self.cell, r.init == self.init { unimplemented!() }
}
// the two tables and the ID set, seen as sets of keys
pub struct HashMap { pub keys: Ghost<Set<i32>> }
impl HashMap { #[verifier::external_body] pub fn new() -> (r: HashMap) ensures r.keys@ == Set::<i32>::empty() { unimplemented!() } }
pub struct HashSet { pub keys: Ghost<Set<i32>> }
impl HashSet { #[verifier::external_body] pub fn new() -> (r: HashSet) ensures r.keys@ == Set::<i32>::empty() { unimplemented!() } }
pub struct ConnType { pub g: int }
pub struct Framed { pub io: ConnType, pub fresh: bool }
pub struct LdapCodec { }
impl LdapCodec { #[verifier::external_body] pub fn framed(self, io: ConnType) -> (r: Framed) ensures r.io == io, r.fresh { unimplemented!() } }
pub struct Duration { pub d: u64 }
pub struct RawControl { pub g: u8 }
pub struct SearchOptions { pub g: u8 }
pub type RequestId = i32;
// src/conn.rs LdapConnAsync and src/ldap.rs Ldap, builds without gssapi / ntlm (the cfg'd fields are absent)
pub struct LdapConnAsync {
    pub msgmap: Arc<Mutex<(RequestId, HashSet)>>, pub resultmap: HashMap, pub searchmap: HashMap,
    pub rx: Receiver, pub id_scrub_rx: Receiver, pub misc_rx: Receiver, pub stream: Framed,
}
pub struct Ldap {
    pub msgmap: Arc<Mutex<(RequestId, HashSet)>>, pub tx: Sender, pub id_scrub_tx: Sender, pub misc_tx: Sender,
    pub has_tls: bool, pub last_id: RequestId, pub timeout: Option<Duration>, pub controls: Option<Vec<RawControl>>, pub search_opts: Option<SearchOptions>,
}

//@lift name=conn_pair file=src/conn.rs impl="impl\s+LdapConnAsync\s*\{" fn=conn_pair
//@ sub "(Self, Ldap)" => "(LdapConnAsync, Ldap)"
//@ ret r
//@ spec
    ensures
        // nothing is routed, nothing is reserved, the counter is where next_msgid may start from (V-msgid's precondition)
        r.0.resultmap.keys@ == Set::<i32>::empty() && r.0.searchmap.keys@ == Set::<i32>::empty(), //# C01+C13.a_new_connection_has_no_routes
        0 <= r.0.msgmap.init.v.0 <= i32::MAX && r.0.msgmap.init.v.1.keys@ == Set::<i32>::empty(), //# C05+C13.a_new_connection_has_no_reserved_id_and_a_counter_in_range
        // one ID table, shared by the driver and the handle (and by every clone of the handle)
        r.1.msgmap.cell == r.0.msgmap.cell, //# C05.the_handle_shares_the_drivers_id_table
        // the handle's senders are the other ends of the driver's receivers: requests, ID scrubs, miscellaneous
        r.1.tx.chan == r.0.rx.chan && r.1.id_scrub_tx.chan == r.0.id_scrub_rx.chan && r.1.misc_tx.chan == r.0.misc_rx.chan, //# C01+C13.the_handles_channels_lead_to_this_driver
        // the first handle: no modifiers pending, no TLS yet, nothing sent
        r.1.timeout is None && r.1.controls is None && r.1.search_opts is None, //# C02+C12.a_new_handle_has_no_pending_modifiers
        !r.1.has_tls, //# C17.a_new_handle_is_not_marked_as_tls
        r.0.stream.io == ctype && r.0.stream.fresh, //# C04+C17.the_driver_speaks_over_the_given_transport_with_empty_buffers
//@end

} // verus!
fn main() {}
