#![feature(allocator_api)]
// Unit V-search: the Search request and the collection layer.
//   * search_request = the PREFIX of SearchStream::start_inner (src/search.rs) up to the channel set-up: the
//     SearchRequest tree (RFC 4511 4.5.1) and the consumption of the one-shot search options;
//   * start_inner as a WHOLE (round 3): the channel, op_call(LdapOp::Search(tx)) and `.map(|_| self.state = Active)`, whose
//     closure captures &mut -- lifted as `mark_active` (L7), call argument replaced (R12), Result::map = verified verif_then.
//     V-stream's stub for start_inner states a consequence of the contract proved here.
//   * Ldap::streaming_search_with and Ldap::search (src/ldap.rs), EntriesOnly::{next,finish} (src/adapters.rs).
// Serves C02 (search request, modifier hand-over), C10 (search() collection, EntriesOnly).
use vstd::prelude::*;
use vstd::string::*;
verus! {

//@include contracts/shared/await.rs
//@include contracts/shared/lber_types.rs
//@include contracts/shared/tree_spec.rs
//@include contracts/shared/std_specs.rs

pub type RequestId = i32;
pub struct Control { pub x: u8 }
pub struct RawControl { pub x: u8 }
// the real types derive Clone; mirrored so that a change which clones instead of moving is still decided
impl Clone for RawControl { #[verifier::external_body] fn clone(&self) -> (r: RawControl) ensures r == *self { unimplemented!() } }
impl Clone for SearchOptions { #[verifier::external_body] fn clone(&self) -> (r: SearchOptions) ensures r == *self { unimplemented!() } }
pub type MaybeControls = Option<Vec<RawControl>>;
#[derive(Clone, Copy)]
pub struct Duration { pub d: u64 }
pub enum LdapError { FilterParsing, OpSend, Other(u8) }
pub type Result<T> = core::result::Result<T, LdapError>;
pub struct LdapResult { pub rc: u32, pub matched: String, pub text: String, pub refs: Vec<String>, pub ctrls: Vec<Control> }
pub struct ResultEntry(pub StructureTag, pub Vec<Control>);
pub struct SearchResult(pub Vec<ResultEntry>, pub LdapResult);

// src/search.rs: the repo's own definitions, lifted (the discriminants are the RFC 4511 4.5.1 ENUMERATED values)
//@item file=src/search.rs kind=enum name=Scope derive="Clone, Copy"
//@item file=src/search.rs kind=enum name=DerefAliases derive="Clone, Copy"
//@item file=src/search.rs kind=struct name=SearchOptions
impl SearchOptions {
    // SearchOptions::new() == Default (derive(Default) on the struct and #[default] Never): trusted
    #[verifier::external_body]
    pub fn new() -> (r: SearchOptions) ensures r.deref is Never, r.typesonly == false, r.timelimit == 0, r.sizelimit == 0 { unimplemented!() }
//@lift name=SearchOptions::deref file=src/search.rs impl="impl\s+SearchOptions\s*\{" fn=deref
//@ ret r
//@ spec
    ensures r.deref == d && r.typesonly == self.typesonly && r.timelimit == self.timelimit && r.sizelimit == self.sizelimit, //# C02.search_option_deref_sets_exactly_that_field
//@end
//@lift name=SearchOptions::typesonly file=src/search.rs impl="impl\s+SearchOptions\s*\{" fn=typesonly
//@ ret r
//@ spec
    ensures r.typesonly == typesonly && r.deref == self.deref && r.timelimit == self.timelimit && r.sizelimit == self.sizelimit, //# C02.search_option_typesonly_sets_exactly_that_field
//@end
//@lift name=SearchOptions::timelimit file=src/search.rs impl="impl\s+SearchOptions\s*\{" fn=timelimit
//@ ret r
//@ spec
    ensures r.timelimit == timelimit && r.deref == self.deref && r.typesonly == self.typesonly && r.sizelimit == self.sizelimit, //# C02.search_option_timelimit_sets_exactly_that_field
//@end
//@lift name=SearchOptions::sizelimit file=src/search.rs impl="impl\s+SearchOptions\s*\{" fn=sizelimit
//@ ret r
//@ spec
    ensures r.sizelimit == sizelimit && r.deref == self.deref && r.typesonly == self.typesonly && r.timelimit == self.timelimit, //# C02.search_option_sizelimit_sets_exactly_that_field
//@end
}
pub open spec fn scope_num(s: Scope) -> int { match s { Scope::Base => 0, Scope::OneLevel => 1, Scope::Subtree => 2 } }
pub open spec fn deref_num(d: DerefAliases) -> int { match d { DerefAliases::Never => 0, DerefAliases::Searching => 1, DerefAliases::Finding => 2, DerefAliases::Always => 3 } }

// the attribute-list type parameters A: AsRef<[S]>, S: AsRef<str>, passed through
pub struct S { pub s: String }
impl S { pub fn as_ref(&self) -> (r: &str) ensures r@ == self.s@ { self.s.as_str() } }
pub struct A { pub v: Vec<S> }
impl A { pub fn as_ref(&self) -> (r: &[S]) ensures r@ == self.v@ { self.v.as_slice() } }

// filter::parse: the compiled filter is an uninterpreted function of the string (C08)
pub uninterp spec fn filter_tree(f: Seq<char>) -> Option<T>;
#[verifier::external_body]
pub fn parse_filter(f: &str) -> (r: core::result::Result<Tag, ()>)
    ensures match filter_tree(f@) { Some(t) => r matches Ok(x) && tree(x) == t, None => r is Err }
{ unimplemented!() }

pub struct Ldap { pub last_id: RequestId, pub timeout: Option<Duration>, pub controls: MaybeControls, pub search_opts: Option<SearchOptions>, pub chan: int,
    pub calls: Ghost<Seq<Call>> }
// one op_call as the handle saw it (ghost record): the operation kind, the request, and the one-shot modifiers it consumed
pub struct Call { pub items_to: int, pub req: Tag, pub timeout: Option<Duration>, pub controls: MaybeControls }
pub struct ItemSender { pub id: int }
pub enum LdapOp { Single, Search(ItemSender), Abandon(RequestId), Unbind }
pub struct OpReply { pub g: u8 }
pub struct OpFut { pub r: Result<OpReply> }
impl OpFut { #[verifier::external_body] pub fn verif_await(self) -> (r: Result<OpReply>) ensures r == self.r { unimplemented!() } }
pub uninterp spec fn rx_id(r: ItemReceiver) -> int;
pub struct mpsc { }
impl mpsc { #[verifier::external_body] pub fn unbounded_channel() -> (r: (ItemSender, ItemReceiver)) ensures r.0.id == rx_id(r.1) { unimplemented!() } }
impl Ldap {
    // contracts of Ldap::with_timeout / Ldap::op_call, discharged on the real text in unit V-ldap
    #[verifier::external_body]
    pub fn with_timeout(&mut self, d: Duration) -> (r: &mut Ldap)
        ensures *final(self) == (Ldap { timeout: Some(d), ..*old(self) }), *final(r) == *final(self) { unimplemented!() }
    #[verifier::external_body]
    pub fn op_call(&mut self, op: LdapOp, req: Tag) -> (f: OpFut)
        ensures op matches LdapOp::Search(tx) ==> final(self).calls@ == old(self).calls@.push(Call { items_to: tx.id, req: req, timeout: old(self).timeout, controls: old(self).controls }),
            final(self).chan == old(self).chan, final(self).search_opts == old(self).search_opts,
    { unimplemented!() }
}
impl Clone for Ldap {
    // contract of `impl Clone for Ldap`, discharged in V-ldap (C02.cloned_handle_starts_without_modifiers)
    #[verifier::external_body]
    fn clone(&self) -> (r: Ldap) ensures r.chan == self.chan, r.last_id == 0, r.timeout is None, r.controls is None, r.search_opts is None, r.calls@.len() == 0 { unimplemented!() }
}

// ---- RFC 4511 4.5.1 SearchRequest ::= [APPLICATION 3] SEQUENCE { baseObject, scope, derefAliases, sizeLimit,
//      timeLimit, typesOnly, filter, attributes }
pub open spec fn attr_trees(s: Seq<S>, n: nat) -> Seq<T> decreases n {
    if n == 0 || n > s.len() { Seq::empty() } else { attr_trees(s, (n - 1) as nat).push(t_os(s[n - 1].s@.spec_bytes_of())) }
}
pub trait SpecBytesOf { spec fn spec_bytes_of(self) -> Seq<u8>; }
pub uninterp spec fn str_bytes(s: Seq<char>) -> Seq<u8>;
impl SpecBytesOf for Seq<char> { open spec fn spec_bytes_of(self) -> Seq<u8> { str_bytes(self) } }
pub broadcast axiom fn ax_str_bytes(s: &str) ensures #[trigger] s.spec_bytes() == str_bytes(s@);
pub open spec fn spec_search(base: Seq<u8>, scope: Scope, o: SearchOptions, filter: T, attrs: Seq<S>) -> T {
    t_app_c(3, seq![t_os(base), t_enum(scope_num(scope)), t_enum(deref_num(o.deref)), t_int(o.sizelimit as int), t_int(o.timelimit as int),
        t_bool(o.typesonly), filter, t_seq(attr_trees(attrs, attrs.len()))])
}
pub open spec fn default_opts(o: SearchOptions) -> bool { (o.deref is Never) && o.typesonly == false && o.timelimit == 0 && o.sizelimit == 0 }
pub proof fn lemma_trees_attrs(v: Seq<Tag>, a: Seq<S>, n: nat)
    requires n <= v.len(), v.len() == a.len(), forall|j: int| 0 <= j < v.len() ==> tree(#[trigger] v[j]) == t_os(a[j].s@.spec_bytes_of()),
    ensures trees(v, n) == attr_trees(a, n),
    decreases n,
{ if n > 0 { lemma_trees_attrs(v, a, (n - 1) as nat); } }
pub proof fn lemma_trees8(s: Seq<Tag>)
    requires s.len() == 8
    ensures trees(s, 8) == seq![tree(s[0]), tree(s[1]), tree(s[2]), tree(s[3]), tree(s[4]), tree(s[5]), tree(s[6]), tree(s[7])]
{ lemma_trees_len(s, 8); assert(trees(s, 8) =~= seq![tree(s[0]), tree(s[1]), tree(s[2]), tree(s[3]), tree(s[4]), tree(s[5]), tree(s[6]), tree(s[7])]); }

pub fn verif_vec8<X>(a: X, b: X, c: X, d: X, e: X, f: X, g: X, h: X) -> (v: Vec<X>)
    ensures v@ == seq![a, b, c, d, e, f, g, h]
{ vec![a, b, c, d, e, f, g, h] }
#[verifier::external_body] pub struct ItemReceiver { _p: u8 }
#[derive(PartialEq, Eq, Clone, Copy, Structural)]
pub enum StreamState { Fresh, Active, Done, Closed, Error }
pub struct AdapterBox { pub g: u8 }
// what a stream was started with (ghost record written by the `start` stub)
pub struct Started { pub controls: MaybeControls, pub timeout: Option<Duration>, pub search_opts: Option<SearchOptions>, pub chan: int,
    pub base: Seq<char>, pub scope: Scope, pub filter: Seq<char>, pub attrs: A }
pub struct SearchStream {
    pub ldap: Ldap,
    pub rx: Option<ItemReceiver>,
    pub state: StreamState,
    pub timeout: Option<Duration>,
    pub res: Option<LdapResult>,
    pub adapters: Vec<AdapterBox>,
    pub started: Ghost<Option<Started>>,
    // prophecy of what next()/finish() will yield (contracts of the shims are V-stream's subject)
    pub items: Ghost<Seq<ResultEntry>>,
}
pub uninterp spec fn stream_result(s: SearchStream) -> LdapResult;
// prophecy: what starting a search with these arguments and modifiers answers
pub uninterp spec fn start_outcome(q: Started) -> Result<()>;
// `res.map(|_| { <mark_active> })`: std's Result::map -- the closure runs exactly on Ok; an error passes through
pub trait ThenExt: Sized {
    spec fn was_ok(&self) -> bool;
    fn verif_then(self, state: &mut StreamState) -> (r: Result<()>)
        ensures self.was_ok() ==> (r is Ok && *final(state) == StreamState::Active),
            !self.was_ok() ==> (r is Err && *final(state) == *old(state));
}
impl ThenExt for Result<OpReply> {
    open spec fn was_ok(&self) -> bool { self is Ok }
    fn verif_then(self, state: &mut StreamState) -> (r: Result<()>) {
        match self { Ok(_x) => { SearchStream::mark_active(state); Ok(()) } Err(e) => Err(e) }
    }
}
pub trait IntoAdapterVec { spec fn as_vec(&self) -> Seq<AdapterBox>; fn into(self) -> (r: Vec<AdapterBox>) ensures r@ == self.as_vec(); }
pub struct EntriesOnly { pub refs: Vec<String> }
impl EntriesOnly { pub fn new() -> (r: EntriesOnly) ensures r.refs@.len() == 0 { EntriesOnly { refs: Vec::new() } } }
impl IntoAdapterVec for EntriesOnly {
    open spec fn as_vec(&self) -> Seq<AdapterBox> { seq![AdapterBox { g: 1 }] }
    #[verifier::external_body]
    fn into(self) -> (r: Vec<AdapterBox>) { unimplemented!() }
}

// `vec![]` as the (empty) adapter chain: element type fixed for this Verus (recorded substitution)
pub struct NoAdapters { }
impl IntoAdapterVec for NoAdapters {
    open spec fn as_vec(&self) -> Seq<AdapterBox> { Seq::<AdapterBox>::empty() }
    #[verifier::external_body]
    fn into(self) -> (r: Vec<AdapterBox>) { unimplemented!() }
}
pub fn verif_no_adapters() -> (r: NoAdapters) { NoAdapters { } }
impl SearchStream {
    #[verifier::external_body]
    pub fn new(ldap: Ldap, adapters: Vec<AdapterBox>) -> (r: SearchStream)
        ensures r.ldap == ldap, r.adapters@ == adapters@, r.state == StreamState::Fresh, r.started@ is None
    { unimplemented!() }
    #[verifier::external_body]
    pub fn start(&mut self, base: &str, scope: Scope, filter: &str, attrs: A) -> (r: Result<()>)
        ensures final(self).started@ == Some(Started { controls: old(self).ldap.controls, timeout: old(self).ldap.timeout,
                    search_opts: old(self).ldap.search_opts, chan: old(self).ldap.chan, base: base@, scope: scope, filter: filter@, attrs: attrs }),
                final(self).adapters@ == old(self).adapters@,
                r == start_outcome(final(self).started@->0),
    { unimplemented!() }
    // next(): yields the prophesied items in order, then Ok(None) (or an error)
    #[verifier::external_body]
    pub fn next(&mut self) -> (r: Result<Option<ResultEntry>>)
        ensures
            r matches Ok(Some(e)) ==> old(self).items@.len() > 0 && e == old(self).items@[0] && final(self).items@ == old(self).items@.skip(1),
            r matches Ok(None) ==> old(self).items@.len() == 0 && final(self).items@ == old(self).items@,
            final(self).started == old(self).started,
    { unimplemented!() }
    #[verifier::external_body]
    pub fn finish(&mut self) -> (r: LdapResult) ensures r == stream_result(*old(self)) { unimplemented!() }

//@lift name=search_request file=src/search.rs impl="impl<'a, S, A> SearchStream<'a, S, A>" fn=start_inner
//@+ as="fn search_request(&mut self, base: &str, scope: Scope, filter: &str, attrs: A) -> (r: Result<Tag>)"
//@ cut before "let (tx, rx) = mpsc::unbounded_channel();" return "Ok(req)"
// (this Verus does not parse a contracted closure inside `vec![..]`: the 8-element vec! literal is rewritten to the
//  equivalent call verif_vec8(..), an explicit recorded substitution)
//@ sub "class: TagClass::Application,\n            inner: vec![" => "class: TagClass::Application,\n            inner: verif_vec8("
//@ sub "            ],\n        });" => "            ),\n        });"
//@ closure at="|s| {" params="s: &S" ret="(o: Tag)"
                            ensures tree(o) == t_os(s.s@.spec_bytes_of())
//@ insert entry
        broadcast use ax_str_bytes;
//@ insert before "Ok(req)"
        proof {
            let k = req->Sequence_0.inner@;
            lemma_trees8(k);
            let av = k[7]->Sequence_0.inner@;
            lemma_trees_attrs(av, attrs.v@, av.len());
        }
//@ spec
    ensures
        final(self).ldap.search_opts is None, //# C02.search_options_consumed_by_this_search
        final(self).timeout == old(self).ldap.timeout, //# C02+C12.stream_takes_over_the_handles_timeout
        final(self).ldap.controls == old(self).ldap.controls && final(self).ldap.timeout == old(self).ldap.timeout,
        filter_tree(filter@) is None ==> (r matches Err(LdapError::FilterParsing)), //# C02.unparsable_filter_is_an_error_nothing_sent
        filter_tree(filter@) matches Some(ft) ==> (r matches Ok(req) && tree(req) == spec_search(str_bytes(base@), scope,
            match old(self).ldap.search_opts { Some(o) => o, None => SearchOptions { deref: DerefAliases::Never, typesonly: false, timelimit: 0, sizelimit: 0 } },
            ft, attrs.v@)), //# C02.search_request_rfc4511_4.5.1
//@end

// ---- the WHOLE of start_inner: the request above, then the item channel, the re-armed timeout, op_call(Search(tx)), and --
// on success only -- the stream becomes Active.  The final `.map(|_| { self.state = Active; })` captures `&mut self`: its
// body is lifted as `mark_active` (L7) and the call argument replaced (R12); `Result::map` is the verified `verif_then`.
//@lift name=start_inner::mark_active file=src/search.rs block=".await.map(|_|" as="fn mark_active(state: &mut StreamState)"
//@ sub "self.state = " => "*state = " count=*
//@ spec
    ensures *final(state) == StreamState::Active, //# C10.a_started_stream_is_active
//@end
//@lift name=start_inner file=src/search.rs impl="impl<'a, S, A> SearchStream<'a, S, A>" fn=start_inner
//@ sub "class: TagClass::Application,\n            inner: vec![" => "class: TagClass::Application,\n            inner: verif_vec8("
//@ sub "            ],\n        });" => "            ),\n        });"
//@ arg ".map(|_|" => "&mut self.state"
//@ sub ".map(&mut self.state)" => ".verif_then(&mut self.state)"
//@ closure at="|s| {" params="s: &S" ret="(o: Tag)"
                            ensures tree(o) == t_os(s.s@.spec_bytes_of())
//@ ret r
//@ insert entry
        broadcast use ax_str_bytes;
//@ insert after-let req
        proof {
            let k = req->Sequence_0.inner@;
            lemma_trees8(k);
            let av = k[7]->Sequence_0.inner@;
            lemma_trees_attrs(av, attrs.v@, av.len());
        }
//@ spec
    ensures
        filter_tree(filter@) is None ==> (r matches Err(LdapError::FilterParsing)) && final(self).ldap.calls@ == old(self).ldap.calls@ && final(self).state == old(self).state, //# C02+C10.unparsable_filter_nothing_sent_stream_not_started
        filter_tree(filter@) matches Some(ft) ==> (final(self).ldap.calls@.len() == old(self).ldap.calls@.len() + 1 && ({
            let c = final(self).ldap.calls@.last();
            &&& final(self).ldap.calls@ == old(self).ldap.calls@.push(c)
            &&& tree(c.req) == spec_search(str_bytes(base@), scope,
                    match old(self).ldap.search_opts { Some(o) => o, None => SearchOptions { deref: DerefAliases::Never, typesonly: false, timelimit: 0, sizelimit: 0 } }, ft, attrs.v@)
            &&& c.controls == old(self).ldap.controls
        })), //# C02.the_search_request_is_issued_once_with_the_handles_controls
        filter_tree(filter@) is Some ==> final(self).ldap.calls@.last().timeout == old(self).ldap.timeout, //# C12.the_pending_timeout_covers_the_search_request_itself
        final(self).timeout == old(self).ldap.timeout, //# C12.the_stream_keeps_the_timeout_for_every_next
        filter_tree(filter@) is Some ==> (final(self).rx matches Some(rx) && rx_id(rx) == final(self).ldap.calls@.last().items_to), //# C10.items_of_this_search_arrive_at_this_streams_receiver
        r is Ok ==> final(self).state == StreamState::Active, //# C10.a_started_stream_is_active
        r is Err ==> final(self).state == old(self).state, //# C10.a_failed_start_leaves_the_state_alone
//@end
}

impl Ldap {

//@lift name=streaming_search_with file=src/ldap.rs impl="impl\s+Ldap\s*\{" fn=streaming_search_with
//@ sub "<\n        'a,\n        V: IntoAdapterVec<'a, S, A>,\n        S: AsRef<str> + Send + Sync + 'a,\n        A: AsRef<[S]> + Send + Sync + 'a,\n    >" => "<V: IntoAdapterVec>"
//@ sub "Result<SearchStream<'a, S, A>>" => "Result<SearchStream>"
//@ ret r
//@ spec
    ensures
        final(self).controls is None && final(self).timeout is None && final(self).search_opts is None, //# C02+C12.search_consumes_all_three_modifiers
        r matches Ok(s) ==> s.started@ == Some(Started { controls: old(self).controls, timeout: old(self).timeout, search_opts: old(self).search_opts, chan: old(self).chan,
            base: base@, scope: scope, filter: filter@, attrs: attrs }), //# C02+C12.stream_handle_receives_the_modifiers_and_the_search_arguments
        r matches Ok(s) ==> s.adapters@ == adapters.as_vec(),
        r is Ok <==> start_outcome(Started { controls: old(self).controls, timeout: old(self).timeout, search_opts: old(self).search_opts, chan: old(self).chan,
            base: base@, scope: scope, filter: filter@, attrs: attrs }) is Ok, //# C02+C10.the_search_fails_exactly_when_starting_it_fails
//@end

//@lift name=Ldap::streaming_search file=src/ldap.rs impl="impl\s+Ldap\s*\{" fn=streaming_search
//@ sub "<\n        'a,\n        S: AsRef<str> + Send + Sync + 'a,\n        A: AsRef<[S]> + Send + Sync + 'a,\n    >" => ""
//@ sub "Result<SearchStream<'a, S, A>>" => "Result<SearchStream>"
//@ sub "vec![]" => "verif_no_adapters()"
//@ ret r
//@ spec
    ensures
        final(self).controls is None && final(self).timeout is None && final(self).search_opts is None, //# C02+C12.search_consumes_all_three_modifiers
        r matches Ok(s) ==> s.started@ == Some(Started { controls: old(self).controls, timeout: old(self).timeout, search_opts: old(self).search_opts, chan: old(self).chan,
            base: base@, scope: scope, filter: filter@, attrs: attrs }), //# C02.streaming_search_is_streaming_search_with_no_adapters_and_the_same_arguments
        r matches Ok(s) ==> s.adapters@.len() == 0,
        r is Ok <==> start_outcome(Started { controls: old(self).controls, timeout: old(self).timeout, search_opts: old(self).search_opts, chan: old(self).chan,
            base: base@, scope: scope, filter: filter@, attrs: attrs }) is Ok, //# C02+C10.the_search_fails_exactly_when_starting_it_fails
//@end

//@lift name=Ldap::search file=src/ldap.rs impl="impl\s+Ldap\s*\{" fn=search
//@ sub "<'a, S: AsRef<str> + Send + Sync + 'a, A: AsRef<[S]> + Send + Sync + 'a>" => ""
//@ sub "let mut re_vec = vec![];" => "let mut re_vec: Vec<ResultEntry> = vec![];"
//@ ret r
//@ attr #[verifier::exec_allows_no_decreases_clause]
//@ insert after "let mut re_vec: Vec<ResultEntry> = vec![];"
        let ghost all = stream.items@;
        proof {
            // the stream that is read is the one started for exactly this search, through the EntriesOnly adapter
            assert(stream.started@ matches Some(st) && st.base == base@ && st.scope == scope && st.filter == filter@ && st.attrs == attrs); //# C02+C10.search_starts_the_search_it_was_asked_for
            assert(stream.adapters@ == seq![AdapterBox { g: 1 }]); //# C10.search_reads_through_the_entries_only_adapter
        }
//@ loop 1
            invariant
                re_vec@ + stream.items@ == all, //# C04+C10.inv_collected_prefix_plus_remaining_is_everything
                self.controls is None && self.timeout is None && self.search_opts is None,
            ensures
                stream.items@.len() == 0,
//@ insert loop-end 1
            proof { assert(re_vec@ + stream.items@ =~= all); } //# C10.inv_entries_collected_so_far_plus_the_rest_are_all_items
//@ insert before "let res = stream.finish().verif_await();"
        proof { assert(re_vec@ =~= all); } //# C10.search_returns_every_item_the_stream_yields_in_order
        let ghost fin = stream;
//@ insert before "Ok(SearchResult(re_vec, res))"
        proof { assert(res == stream_result(fin)); } //# C10.search_returns_the_streams_final_result
//@ spec
    ensures
        final(self).controls is None && final(self).timeout is None && final(self).search_opts is None, //# C02+C12.search_consumes_all_three_modifiers
//@end
}


// ---- EntriesOnly adapter (src/adapters.rs): skips intermediate messages (25), moves the URIs of reference messages
// (19) into `refs`, hands everything else through unchanged; finish() appends the collected refs to the result.
pub uninterp spec fn ref_uris(t: StructureTag) -> Seq<String>;
// search::parse_refs (public, panics on a malformed referral by contract -- V-result); its result as a function of the tag
#[verifier::external_body]
pub fn parse_refs(t: StructureTag) -> (r: Vec<String>) ensures r@ == ref_uris(t) { unimplemented!() }
pub uninterp spec fn iter_seq<X, I>(i: I) -> Seq<X>;
pub broadcast proof fn ax_iter_seq_vec<X>(v: Vec<X>) ensures #[trigger] iter_seq::<X, Vec<X>>(v) == v@ { admit(); }
pub assume_specification<X, AL: std::alloc::Allocator, I: IntoIterator<Item = X>> [<Vec<X, AL> as Extend<X>>::extend] (s: &mut Vec<X, AL>, it: I)
    ensures final(s)@ == old(s)@ + iter_seq::<X, I>(it);
pub assume_specification<X: Default> [core::mem::take::<X>] (dest: &mut X) -> (r: X) ensures r == *old(dest);
pub open spec fn skipped(e: ResultEntry) -> bool { e.0.id == 25 || e.0.id == 19 }
// URIs of the reference messages among the first n items, in order
pub open spec fn refs_of(items: Seq<ResultEntry>, n: int) -> Seq<String> decreases n {
    if n <= 0 { Seq::empty() } else if items[n - 1].0.id == 19 && items[n - 1].0.id != 25 { refs_of(items, n - 1) + ref_uris(items[n - 1].0) } else { refs_of(items, n - 1) }
}
impl EntriesOnly {
//@lift name=EntriesOnly::next file=src/adapters.rs impl="impl<'a, S, A> Adapter<'a, S, A> for EntriesOnly" fn=next
//@ sub "stream: &mut SearchStream<'a, S, A>" => "stream: &mut SearchStream"
//@ ret r
//@ attr #[verifier::exec_allows_no_decreases_clause]
//@ insert entry
        let ghost all = stream.items@;
        let ghost refs0 = self.refs@;
        proof { assert(all.skip(0) =~= all); assert(refs0 + Seq::<String>::empty() =~= refs0); }
//@ loop 1
            invariant
                all == old(stream).items@, refs0 == old(self).refs@,
                stream.items@.len() <= all.len(), stream.items@ == all.skip(all.len() - stream.items@.len()),
                forall|j: int| 0 <= j < all.len() - stream.items@.len() ==> skipped(#[trigger] all[j]),
                self.refs@ == refs0 + refs_of(all, all.len() - stream.items@.len()), //# C10.inv_reference_uris_collected_in_order
//@ insert loop-start 1
            proof {
                assert forall|v: Vec<String>| #[trigger] iter_seq::<String, Vec<String>>(v) == v@ by { ax_iter_seq_vec::<String>(v); }
                // (no ghost counter: the number of items consumed is all.len() - stream.items@.len(); one step of it, for every branch)
                assert forall|m: int| 0 <= m < all.len() implies #[trigger] all.skip(m).skip(1) =~= all.skip(m + 1) by { }
                assert forall|m: int| 0 <= m < all.len() implies #[trigger] all.skip(m)[0] == all[m] by { }
            }
//@ spec
    ensures
        // the first item that is neither an intermediate message nor a reference, unchanged; everything before it consumed
        r matches Ok(Some(e)) ==> exists|k: int| 0 <= k < old(stream).items@.len() && (forall|j: int| 0 <= j < k ==> skipped(#[trigger] old(stream).items@[j]))
            && e == old(stream).items@[k] && !skipped(e) && final(stream).items@ == old(stream).items@.skip(k + 1)
            && final(self).refs@ == old(self).refs@ + refs_of(old(stream).items@, k), //# C10.entries_only_yields_next_directory_entry_and_collects_reference_uris
        // end of stream: everything that was left was skipped, all reference URIs collected
        r matches Ok(None) ==> (forall|j: int| 0 <= j < old(stream).items@.len() ==> skipped(#[trigger] old(stream).items@[j]))
            && final(self).refs@ == old(self).refs@ + refs_of(old(stream).items@, old(stream).items@.len() as int), //# C10.entries_only_end_of_stream_after_skipping_the_rest
//@end

//@lift name=EntriesOnly::finish file=src/adapters.rs impl="impl<'a, S, A> Adapter<'a, S, A> for EntriesOnly" fn=finish
//@ sub "stream: &mut SearchStream<'a, S, A>" => "stream: &mut SearchStream"
//@ ret r
//@ insert entry
        proof { assert forall|v: Vec<String>| #[trigger] iter_seq::<String, Vec<String>>(v) == v@ by { ax_iter_seq_vec::<String>(v); } }
//@ spec
    ensures
        r.rc == stream_result(*old(stream)).rc && r.matched == stream_result(*old(stream)).matched && r.text == stream_result(*old(stream)).text
            && r.ctrls == stream_result(*old(stream)).ctrls, //# C10.entries_only_finish_keeps_the_streams_result
        r.refs@ == stream_result(*old(stream)).refs@ + old(self).refs@, //# C03+C10.entries_only_finish_appends_collected_referrals
//@end

//@lift name=EntriesOnly::start file=src/adapters.rs impl="impl<'a, S, A> Adapter<'a, S, A> for EntriesOnly" fn=start
//@ sub "stream: &mut SearchStream<'a, S, A>" => "stream: &mut SearchStream"
//@ ret r
//@ spec
    ensures final(self).refs@.len() == 0, //# C10.entries_only_start_forgets_old_referrals
        final(stream).started@ == Some(Started { controls: old(stream).ldap.controls, timeout: old(stream).ldap.timeout,
                    search_opts: old(stream).ldap.search_opts, chan: old(stream).ldap.chan, base: base@, scope: scope, filter: filter@, attrs: attrs }), //# C02+C10.entries_only_start_passes_the_search_arguments_unchanged
//@end
}

impl ResultEntry {
//@lift name=is_ref file=src/search.rs impl="impl\s+ResultEntry\s*\{" fn=is_ref
//@ ret r
//@ spec
    ensures r == (self.0.id == 19),
//@end
//@lift name=is_intermediate file=src/search.rs impl="impl\s+ResultEntry\s*\{" fn=is_intermediate
//@ ret r
//@ spec
    ensures r == (self.0.id == 25),
//@end
}

} // verus!
fn main() {}
