// Unit V-decode: src/protocol.rs -- decode_inner (framing + LDAPMessage envelope extraction) and
// LdapCodec::encode (envelope construction).  Serves C06 (c), C01 (the tag handed to the driver comes from the
// envelope that carried the id), C03 (envelope + controls), C11 (no panic, malformed envelope -> Err), C02 (3).
//
// The BER parser is a contracted stub here: `frame_status(bytes)` is what lber::Parser::parse answers as a
// function of the buffer contents alone (the parser is pure); unit V-lber-dec proves on the real parse_tag that
// NeedMore is answered exactly when the header or the announced contents are incomplete and that a Frame consumes
// exactly header + announced length.
use vstd::prelude::*;
use vstd::string::*;
verus! {

//@include contracts/shared/lber_types.rs
//@include contracts/shared/tree_spec.rs
//@include contracts/shared/std_specs.rs

pub type RequestId = i32;
pub struct Control { pub x: u8 }
pub struct RawControl { pub ctype: String, pub crit: bool, pub val: Option<Vec<u8>> }
pub type MaybeControls = Option<Vec<RawControl>>;

//@include contracts/shared/lift_structure_tag.rs

// --- std::io::Error, bytes::BytesMut, nom::Err, lber::Parser as contracted stubs
pub mod io {
    use super::*;
    pub struct Error { pub k: u8 }
    pub enum ErrorKind { Other }
    impl Error {
        #[verifier::external_body]
        pub fn new(k: ErrorKind, msg: &str) -> Error { unimplemented!() }
    }
    pub type Result<T> = core::result::Result<T, Error>;
}
#[verifier::external_body]
pub struct BytesMut { _p: u8 }
impl BytesMut {
    pub uninterp spec fn view(&self) -> Seq<u8>;
    #[verifier::external_body]
    pub fn len(&self) -> (n: usize) ensures n == self.view().len() { unimplemented!() }
    // bytes::Buf::advance panics if cnt > remaining
    #[verifier::external_body]
    pub fn advance(&mut self, cnt: usize)
        requires cnt <= old(self).view().len(), //# C11.advance_within_buffer
        ensures final(self).view() == old(self).view().subrange(cnt as int, old(self).view().len() as int)
    { unimplemented!() }
}
// nom::Err as the decoder sees it: "need more input" (with nom's size hint) or a hard error.  The variants are mirrored so
// that code which matches on them directly (instead of calling is_incomplete()) is decided too.
pub mod nom {
    use super::*;
    pub enum Needed { Unknown, Size(usize) }
    pub enum Err { Incomplete(Needed), Error(u8), Failure(u8) }
    impl Err {
        pub fn is_incomplete(&self) -> (b: bool) ensures b == (self is Incomplete) { match self { Err::Incomplete(_) => true, _ => false } }
    }
}
pub type NomErr = nom::Err;
pub enum FrameStatus { NeedMore, Invalid, Frame(nat, StructureTag) }
pub uninterp spec fn frame_status(b: Seq<u8>) -> FrameStatus;
pub mod lber {
    use super::*;
    pub struct Parser {}
    impl Parser {
        pub fn new() -> Parser { Parser {} }
        // contract of lber::Parser::parse = clauses L-frame / L-dec of the lber contract (V-lber-dec)
        #[verifier::external_body]
        pub fn parse<'a>(&mut self, input: &'a BytesMut) -> (r: core::result::Result<(&'a [u8], StructureTag), NomErr>)
            ensures
                match frame_status(input.view()) {
                    // (which size hint nom attaches to Incomplete is NOT part of the contract: the streaming combinators give
                    //  Needed::Size(n), the empty-buffer guard gives Needed::Unknown)
                    FrameStatus::NeedMore => r matches Err(e) && e is Incomplete,
                    FrameStatus::Invalid => r matches Err(e) && !(e is Incomplete),
                    FrameStatus::Frame(n, t) => r matches Ok((rest, tag)) && tag == t && 0 < n <= input.view().len()
                        && rest@ == input.view().subrange(n as int, input.view().len() as int),
                }
        { unimplemented!() }
    }
}
// lber::parse::parse_uint: big-endian unsigned value mod 2^64, never fails (Kani leaf: K-lber::C07.parse_uint_is_be_uint)
pub uninterp spec fn be_uint(s: Seq<u8>) -> u64;
#[verifier::external_body]
pub fn parse_uint(i: &[u8]) -> (r: core::result::Result<(&[u8], u64), NomErr>)
    ensures r matches Ok(p) && p.1 == be_uint(i@)
{ unimplemented!() }
// controls_impl::parse_controls / build_tag: contracts discharged in V-controls
pub uninterp spec fn controls_of(t: StructureTag) -> Option<Seq<Control>>;
#[verifier::external_body]
pub fn parse_controls(t: StructureTag) -> (r: Option<Vec<Control>>)
    ensures match controls_of(t) { Some(s) => r matches Some(v) && v@ == s, None => r is None }
{ unimplemented!() }
pub uninterp spec fn control_tree(rc: RawControl) -> T;
#[verifier::external_body]
pub fn build_tag(rc: RawControl) -> (r: StructureTag) ensures st_tree(r) == control_tree(rc) { unimplemented!() }

//@include contracts/shared/lift_types_enum.rs

// ---- RFC 4511 4.1.1: LDAPMessage ::= SEQUENCE { messageID INTEGER, protocolOp CHOICE, controls [0] Controls OPTIONAL }
// (+ the library's documented Active Directory workaround: a stray trailing [10] element is ignored)
pub struct Env { pub id_octets: Seq<u8>, pub op: StructureTag, pub controls: Option<StructureTag> }
pub open spec fn env_of(idt: StructureTag, op: StructureTag, ctl: Option<StructureTag>) -> Option<Env> {
    if idt.class == TagClass::Universal && idt.id == 2 && (idt.payload is P) {
        Some(Env { id_octets: idt.payload->P_0@, op: op, controls: ctl })
    } else { None }
}
pub open spec fn envelope(t: StructureTag) -> Option<Env> {
    if !(t.class == TagClass::Universal && t.id == 16 && (t.payload is C)) { None } else {
        let c = t.payload->C_0@;
        if c.len() == 0 { None } else {
            let last = c[c.len() - 1];
            if last.class == TagClass::Context && last.id == 0 {
                if (last.payload is C) && c.len() == 3 { env_of(c[0], c[1], Some(last)) } else { None }
            } else if last.class == TagClass::Context && last.id == 10 {
                if c.len() == 3 { env_of(c[0], c[1], None) } else { None }
            } else {
                if c.len() == 2 { env_of(c[0], c[1], None) } else { None }
            }
        }
    }
}

//@lift name=decode_inner file=src/protocol.rs fn=decode_inner
//@ ret r
//@ closure at="|t| t.match_id(Types::Sequence as u64)" params="t: StructureTag" ret="(o: Option<StructureTag>)"
            ensures o == (if t.id == 16 { Some(t) } else { None })
//@ closure at="|t| t.expect_constructed()" params="t: StructureTag" ret="(o: Option<Vec<StructureTag>>)"
            ensures o == (match t.payload { PL::P(_) => None::<Vec<StructureTag>>, PL::C(i) => Some(i) })
//@ closure at="|t| t.match_class(TagClass::Universal)" params="t: StructureTag" ret="(o: Option<StructureTag>)"
            ensures o == (if t.class == TagClass::Universal { Some(t) } else { None })
//@ closure at="|t| t.match_id(Types::Integer as u64)" params="t: StructureTag" ret="(o: Option<StructureTag>)"
            ensures o == (if t.id == 2 { Some(t) } else { None })
//@ closure at="|t| t.expect_primitive()" params="t: StructureTag" ret="(o: Option<Vec<u8>>)"
            ensures o == (match t.payload { PL::P(i) => Some(i), PL::C(_) => None::<Vec<u8>> })
//@ spec
    ensures
        // C06 (c): need-more leaves the buffer intact; a frame is cut exactly; nothing else is consumed
        frame_status(old(buf).view()) is NeedMore ==> (r matches Ok(None)) && final(buf).view() == old(buf).view(), //# C06.incomplete_frame_leaves_buffer_intact
        frame_status(old(buf).view()) matches FrameStatus::Frame(n, t) ==> final(buf).view() == old(buf).view().subrange(n as int, old(buf).view().len() as int), //# C06.exactly_the_frame_is_consumed
        // C11: anything but NeedMore is delivered or rejected, never "need more"
        !(frame_status(old(buf).view()) is NeedMore) ==> !(r matches Ok(None)), //# C04+C06+C11.complete_frame_is_delivered_or_rejected
        frame_status(old(buf).view()) is Invalid ==> r is Err, //# C04+C11.parser_failure_is_decoding_error
        frame_status(old(buf).view()) matches FrameStatus::Frame(n, t) ==> (envelope(t) is None ==> r is Err), //# C04+C11.malformed_envelope_is_decoding_error
        // C01/C03: id, protocolOp and controls come from the same envelope
        frame_status(old(buf).view()) matches FrameStatus::Frame(n, t) ==> (envelope(t) matches Some(e) ==>
            ((e.controls matches Some(c) && controls_of(c) is None) ==> r is Err)), //# C04+C11.malformed_control_list_is_decoding_error
        frame_status(old(buf).view()) matches FrameStatus::Frame(n, t) ==> (envelope(t) matches Some(e) ==>
            (!(e.controls matches Some(c) && controls_of(c) is None) ==>
            (r matches Ok(Some(m)) && m.0 == (be_uint(e.id_octets) as i32) && m.1.0 == Tag::StructureTag(e.op)
             && (e.controls matches Some(c) ==> Some(m.1.1@) == controls_of(c)) && (e.controls is None ==> m.1.1@.len() == 0)))), //# C01+C03.id_op_and_controls_from_the_same_envelope
//@end

pub struct LdapCodec { pub g: u8 }
pub open spec fn controls_trees(s: Seq<RawControl>, n: nat) -> Seq<T> decreases n {
    if n == 0 || n > s.len() { Seq::empty() } else { controls_trees(s, (n - 1) as nat).push(control_tree(s[n - 1])) }
}
// maybe_wrap (no-gssapi variant) hands the structure to lber::write::encode_into; ghost log of what was written
pub struct Wire { pub out: Ghost<Seq<T>> }
pub mod write {
    use super::*;
    // lber::write::encode_into: appends the BER of the structure (V-lber-enc: C07+C02.encode_into_appends_ber_of_the_tree); here
    // the wire is a ghost log of the structures written
    #[verifier::external_body]
    pub fn encode_into(into: &mut Wire, tag: StructureTag) -> (r: io::Result<()>)
        ensures r is Ok, final(into).out@ == old(into).out@.push(st_tree(tag))      // (V-lber-enc: C07.encoder_never_fails)
    { unimplemented!() }
}
//@lift name=maybe_wrap file=src/protocol.rs fn=maybe_wrap nth=1
//@ sub "into: &mut BytesMut" => "into: &mut Wire"
//@ ret r
//@ spec
    // (nth=1: the definition compiled without the gssapi feature; the gssapi one may wrap the bytes in a SASL security layer)
    ensures r is Ok, final(into).out@ == old(into).out@.push(st_tree(outstruct)), //# C02+C04.the_encoded_request_is_written_as_it_is_and_encoding_never_fails
//@end
pub trait ASNTag { spec fn stree(&self) -> T; fn into_structure(self) -> (r: StructureTag) ensures st_tree(r) == self.stree(); }
impl ASNTag for Tag {
    open spec fn stree(&self) -> T { tree(*self) }
    // lber Tag::into_structure == tree(t): discharged in V-lber-struct
    #[verifier::external_body]
    fn into_structure(self) -> (r: StructureTag) { unimplemented!() }
}

pub proof fn lemma_controls_trees(v: Seq<StructureTag>, cs: Seq<RawControl>, n: nat)
    requires n <= v.len(), v.len() == cs.len(), forall|i: int| 0 <= i < v.len() ==> st_tree(#[trigger] v[i]) == control_tree(cs[i]),
    ensures st_trees(v, n) == controls_trees(cs, n),
    decreases n,
{
    if n > 0 { lemma_controls_trees(v, cs, (n - 1) as nat); }
}

impl LdapCodec {
//@lift name=LdapCodec::encode file=src/protocol.rs impl="impl\s+Encoder<\(RequestId, Tag, MaybeControls\)>\s+for\s+LdapCodec\s*\{" fn=encode
//@ sub "into: &mut BytesMut" => "into: &mut Wire"
//@ ret r
//@ insert entry
        let ghost cs0 = msg.2;
//@ insert after "}));"
                proof {
                    let v = msg@[2]->StructureTag_0.payload->C_0@;
                    lemma_controls_trees(v, cs0->0@, v.len());
                }
//@ insert before "Tag::Sequence(Sequence {"
            proof { if cs0 is Some { tree_lemmas::lemma_trees3(msg@, 3); } else { tree_lemmas::lemma_trees2(msg@, 2); } }
//@ spec
    ensures
        r is Ok, //# C02+C04.encoding_a_request_never_fails
        r is Ok ==> final(into).out@ == old(into).out@.push(final(into).out@.last()), //# C02.one_pdu_per_request
        r is Ok ==> (msg.2 is None ==> final(into).out@.last() == t_seq(seq![t_int(msg.0 as int), tree(msg.1)])), //# C02.envelope_without_controls_rfc4511_4.1.1
        r is Ok ==> (msg.2 matches Some(cs) ==> final(into).out@.last() ==
            t_seq(seq![t_int(msg.0 as int), tree(msg.1), t_ctx_c(0, controls_trees(cs@, cs@.len()))])), //# C02.envelope_with_controls_in_order_rfc4511_4.1.1
//@end
}

impl LdapCodec {
// Decoder::decode (the definition compiled without the gssapi feature, nth=1): tokio-util's FramedRead calls THIS, not
// decode_inner, once per read and again after every delivered frame.  Its contract is decode_inner's, clause for clause:
// anything the wrapper adds (caching, a length peek, a skipped call) has to preserve every one of them.
//@lift name=LdapCodec::decode file=src/protocol.rs impl="impl\s+Decoder\s+for\s+LdapCodec\s*\{" fn=decode nth=1
//@ sub "Result<Option<Self::Item>, Self::Error>" => "Result<Option<(RequestId, (Tag, Vec<Control>))>, io::Error>"
//@ ret r
//@ spec
    ensures
        frame_status(old(buf).view()) is NeedMore ==> (r matches Ok(None)) && final(buf).view() == old(buf).view(), //# C06.codec_decode_incomplete_frame_leaves_buffer_intact
        frame_status(old(buf).view()) matches FrameStatus::Frame(n, t) ==> final(buf).view() == old(buf).view().subrange(n as int, old(buf).view().len() as int), //# C06.codec_decode_consumes_exactly_the_frame
        !(frame_status(old(buf).view()) is NeedMore) ==> !(r matches Ok(None)), //# C04+C06+C11.codec_decode_complete_frame_is_delivered_or_rejected
        frame_status(old(buf).view()) is Invalid ==> r is Err, //# C04+C11.codec_decode_parser_failure_is_decoding_error
        frame_status(old(buf).view()) matches FrameStatus::Frame(n, t) ==> (envelope(t) is None ==> r is Err), //# C04+C11.codec_decode_malformed_envelope_is_decoding_error
        frame_status(old(buf).view()) matches FrameStatus::Frame(n, t) ==> (envelope(t) matches Some(e) ==>
            ((e.controls matches Some(c) && controls_of(c) is None) ==> r is Err)), //# C04+C11.codec_decode_malformed_control_list_is_decoding_error
        frame_status(old(buf).view()) matches FrameStatus::Frame(n, t) ==> (envelope(t) matches Some(e) ==>
            (!(e.controls matches Some(c) && controls_of(c) is None) ==>
            (r matches Ok(Some(m)) && m.0 == (be_uint(e.id_octets) as i32) && m.1.0 == Tag::StructureTag(e.op)
             && (e.controls matches Some(c) ==> Some(m.1.1@) == controls_of(c)) && (e.controls is None ==> m.1.1@.len() == 0)))), //# C01+C03+C06.codec_decode_id_op_and_controls_from_the_same_envelope
//@end
}

} // verus!
fn main() {}
