use vstd::prelude::*;
verus! {
pub struct OS { pub id: u64, pub inner: Vec<u8> }
pub assume_specification<T: Clone> [<[T]>::to_vec] (s: &[T]) -> (v: Vec<T>) ensures v@ == s@;

fn attrs(a: &Vec<Vec<u8>>) -> (r: Vec<OS>)
    ensures r.len() == a.len(), forall|i: int| 0 <= i < r.len() ==> r@[i].id == 4 && r@[i].inner@ == a@[i]@
{
    a.iter().map(|s: &Vec<u8>| -> (o: OS) ensures o.id == 4 && o.inner@ == s@ { OS { id: 4, inner: s.as_slice().to_vec() } }).collect()
}
fn attrs2(a: &Vec<Vec<u8>>) -> (r: Vec<OS>)
    ensures r.len() == a.len(),
{
    a.iter().map(|s| OS { id: 4, inner: s.as_slice().to_vec() }).collect()
}
}
fn main(){}
