use vstd::prelude::*;
use std::collections::HashSet;
verus! {
broadcast use vstd::std_specs::hash::group_hash_axioms;

pub open spec fn free_exists(s: Set<i32>) -> bool { exists|k: i32| #![trigger s.contains(k)] 1 <= k <= i32::MAX && !s.contains(k) }
// ids already examined when the cursor stands at `next`, having started after `last`
pub open spec fn visited(last: i32, next: i32, k: i32) -> bool {
    1 <= k <= i32::MAX && (if next >= last { last < k <= next } else { k > last || k <= next })
}
pub open spec fn dist(last: i32, next: i32) -> int {
    if next >= last { next - last } else { next - last + i32::MAX }
}

pub struct Ldap { pub msgmap: (i32, HashSet<i32>) }
impl Ldap {
    fn next_msgid(&mut self) -> (r: i32)
    requires
        0 <= old(self).msgmap.0 <= i32::MAX,
        free_exists(old(self).msgmap.1@),
    ensures
        1 <= r <= i32::MAX,
        !old(self).msgmap.1@.contains(r),
        final(self).msgmap.1@ == old(self).msgmap.1@.insert(r),
        final(self).msgmap.0 == r,
    {
        let mut msgmap = &mut self.msgmap;
        let last_ldap_id = msgmap.0;
        let mut next_ldap_id = last_ldap_id;
        loop
            invariant_except_break
                forall|k: i32| #![trigger msgmap.1@.contains(k)] visited(last_ldap_id, next_ldap_id, k) ==> msgmap.1@.contains(k),
                dist(last_ldap_id, next_ldap_id) < i32::MAX,
            invariant
                0 <= last_ldap_id <= i32::MAX,
                0 <= next_ldap_id <= i32::MAX,
                next_ldap_id == 0 ==> last_ldap_id == 0,
                msgmap.1@ == old(self).msgmap.1@,
                msgmap.0 == old(self).msgmap.0,
                last_ldap_id == old(self).msgmap.0,
                free_exists(msgmap.1@),
            ensures
                1 <= next_ldap_id <= i32::MAX,
                !msgmap.1@.contains(next_ldap_id),
            decreases i32::MAX - dist(last_ldap_id, next_ldap_id),
        {
            if next_ldap_id == i32::MAX {
                next_ldap_id = 1;
            } else {
                next_ldap_id += 1;
            }
            if !msgmap.1.contains(&next_ldap_id) {
                break;
            }
            assert(next_ldap_id != last_ldap_id);
        }
        msgmap.0 = next_ldap_id;
        msgmap.1.insert(next_ldap_id);
        next_ldap_id
    }
}
} // verus!
fn main() {}
