use vstd::prelude::*;
verus! {

pub struct LdapResult { pub rc: u32, pub matched: String, pub text: String, pub refs: Vec<String> }
pub struct LdapError { pub result: LdapResult }
pub type Result<T> = std::result::Result<T, LdapError>;

impl LdapError {
    #[verifier::external_body]
    pub fn from(r: LdapResult) -> (e: LdapError) ensures e.result == r { LdapError { result: r } }
}

pub struct CompareResult(pub LdapResult);

impl LdapResult {
    pub fn success(self) -> (r: Result<Self>)
        ensures r.is_ok() <==> self.rc == 0,
                r matches Ok(v) ==> v == self,
                r matches Err(e) ==> e.result == self,
    {
        if self.rc == 0 {
            Ok(self)
        } else {
            Err(LdapError::from(self))
        }
    }
    pub fn non_error(self) -> (r: Result<Self>)
        ensures r.is_ok() <==> (self.rc == 0 || self.rc == 10),
    {
        if self.rc == 0 || self.rc == 10 {
            Ok(self)
        } else {
            Err(LdapError::from(self))
        }
    }
}
impl CompareResult {
    pub fn equal(self) -> (r: Result<bool>)
        ensures self.0.rc == 5 ==> r == Ok::<bool, LdapError>(false),
                self.0.rc == 6 ==> r == Ok::<bool, LdapError>(true),
                (self.0.rc != 5 && self.0.rc != 6) ==> r.is_err(),
    {
        match self.0.rc {
            5 => Ok(false),
            6 => Ok(true),
            _ => Err(LdapError::from(self.0)),
        }
    }
}

pub enum Unescaper { WantFirst, WantSecond(u8), Value(u8), Error }

pub open spec fn is_hex(c: u8) -> bool { (c >= 0x30 && c <= 0x39) || (c >= 0x41 && c <= 0x46) || (c >= 0x61 && c <= 0x66) }
#[verifier::external_body]
pub fn is_hex_digit(c: u8) -> (b: bool) ensures b == is_hex(c) { unimplemented!() }

pub open spec fn hexval(c: u8) -> int { if c <= 0x39 { c - 0x30 } else if c <= 0x46 { c - 0x41 + 10 } else { c - 0x61 + 10 } }

impl Unescaper {
    pub fn feed(&self, c: u8) -> (r: Unescaper)
        requires (*self) matches Unescaper::WantSecond(p) ==> p < 16,
        ensures
            (*self) matches Unescaper::WantFirst ==> (if is_hex(c) { r == Unescaper::WantSecond(hexval(c) as u8) } else { r == Unescaper::Error }),
            (*self) matches Unescaper::WantSecond(p) ==> (if is_hex(c) { r == Unescaper::Value((p * 16 + hexval(c)) as u8) } else { r == Unescaper::Error }),
            (*self) matches Unescaper::Value(_) ==> (if c != 0x5c { r == Unescaper::Value(c) } else { r == Unescaper::WantFirst }),
            (*self) matches Unescaper::Error ==> r == Unescaper::Error,
    {
        match *self {
            Unescaper::Error => Unescaper::Error,
            Unescaper::WantFirst => {
                if is_hex_digit(c) {
                    Unescaper::WantSecond(
                        c - if c <= b'9' {
                            b'0'
                        } else {
                            (c & 0x20) + b'A' - 10
                        },
                    )
                } else {
                    Unescaper::Error
                }
            }
            Unescaper::WantSecond(partial) => {
                if is_hex_digit(c) {
                    Unescaper::Value(
                        (partial << 4)
                            + (c - if c <= b'9' {
                                b'0'
                            } else {
                                (c & 0x20) + b'A' - 10
                            }),
                    )
                } else {
                    Unescaper::Error
                }
            }
            Unescaper::Value(_v) => {
                if c != b'\\' {
                    Unescaper::Value(c)
                } else {
                    Unescaper::WantFirst
                }
            }
        }
    }
}

} // verus!
fn main() {}
