use vstd::prelude::*;
use vstd::string::*;
verus! {
pub assume_specification<'a> [<Vec<u8> as From<&'a str>>::from] (s: &str) -> (v: Vec<u8>) ensures v@ == s.spec_bytes();
pub assume_specification<'a, T: Clone> [<Vec<T> as From<&'a [T]>>::from] (s: &[T]) -> (v: Vec<T>) ensures v@ == s@;
fn a(s: &str) -> (v: Vec<u8>) ensures v@ == s.spec_bytes() { Vec::from(s) }
fn b(s: &str) -> (v: Vec<u8>) ensures v@ == s.spec_bytes() { Vec::from(s.as_bytes()) }
}
fn main(){}
