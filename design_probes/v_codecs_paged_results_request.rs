use vstd::prelude::*;
use vstd::string::*;
verus! {
#[derive(PartialEq, Eq, Clone, Copy, Structural)]
pub enum TagClass { Universal, Application, Context, Private }
pub enum PL { P(Vec<u8>), C(Vec<StructureTag>) }
pub struct StructureTag { pub class: TagClass, pub id: u64, pub payload: PL }
pub struct Integer { pub id: u64, pub class: TagClass, pub inner: i64 }
pub struct OctetString { pub id: u64, pub class: TagClass, pub inner: Vec<u8> }
pub struct Sequence { pub id: u64, pub class: TagClass, pub inner: Vec<Tag> }
pub enum Tag { Integer(Integer), OctetString(OctetString), Sequence(Sequence) }
impl Default for Integer { fn default() -> (r: Integer) ensures r.id == 2, r.class == TagClass::Universal, r.inner == 0 { Integer { id: 2, class: TagClass::Universal, inner: 0i64 } } }
impl Default for OctetString { fn default() -> (r: OctetString) ensures r.id == 4, r.class == TagClass::Universal, r.inner@ == Seq::<u8>::empty() { OctetString { id: 4, class: TagClass::Universal, inner: Vec::new() } } }
impl Default for Sequence { fn default() -> (r: Sequence) ensures r.id == 16, r.class == TagClass::Universal, r.inner@.len() == 0 { Sequence { id: 16, class: TagClass::Universal, inner: Vec::new() } } }

// lber contract (spec side)
pub uninterp spec fn ber(t: StructureTag) -> Seq<u8>;
pub uninterp spec fn int_octets(x: int) -> Seq<u8>;
// tree shape of a tag (what into_structure returns), as a relation because StructureTag holds exec Vecs
pub open spec fn is_structure_of(t: Tag, s: StructureTag) -> bool decreases t {
    match t {
        Tag::Integer(i) => s.id == i.id && s.class == i.class && (s.payload matches PL::P(v) && v@ == int_octets(i.inner as int)),
        Tag::OctetString(o) => s.id == o.id && s.class == o.class && (s.payload matches PL::P(v) && v@ == o.inner@),
        Tag::Sequence(q) => s.id == q.id && s.class == q.class && (s.payload matches PL::C(ch) && ch@.len() == q.inner@.len()
            && forall|k: int| 0 <= k < ch@.len() ==> is_structure_of(q.inner@[k], #[trigger] ch@[k])),
    }
}
impl Tag {
    #[verifier::external_body]
    pub fn into_structure(self) -> (s: StructureTag) ensures is_structure_of(self, s) { unimplemented!() }
}
#[verifier::external_body]
pub struct BytesMut { _p: u8 }
impl BytesMut {
    pub uninterp spec fn view(&self) -> Seq<u8>;
    #[verifier::external_body]
    pub fn with_capacity(n: usize) -> (b: BytesMut) ensures b.view() == Seq::<u8>::empty() { unimplemented!() }
    #[verifier::external_body]
    pub fn to_vec_all(&self) -> (v: Vec<u8>) ensures v@ == self.view() { unimplemented!() }   // stands for Vec::from(&buf[..])
}
#[derive(Debug)]
pub struct IoErr {}
pub struct write {}
impl write {
    #[verifier::external_body]
    pub fn encode_into(buf: &mut BytesMut, tag: StructureTag) -> (r: Result<(), IoErr>)
        ensures r is Ok, final(buf).view() == old(buf).view() + ber(tag)
    { unimplemented!() }
}
pub struct RawControl { pub ctype: String, pub crit: bool, pub val: Option<Vec<u8>> }
pub struct PagedResults { pub size: i32, pub cookie: Vec<u8> }
pub const PAGED_RESULTS_OID: &'static str = "1.2.840.113556.1.4.319";

// RFC 2696: SEQUENCE { size INTEGER, cookie OCTET STRING }
pub open spec fn paged_tree(s: StructureTag, size: int, cookie: Seq<u8>) -> bool {
    s.id == 16 && s.class == TagClass::Universal && (s.payload matches PL::C(ch) && ch@.len() == 2
      && ch@[0].id == 2 && ch@[0].class == TagClass::Universal && (ch@[0].payload matches PL::P(a) && a@ == int_octets(size))
      && ch@[1].id == 4 && ch@[1].class == TagClass::Universal && (ch@[1].payload matches PL::P(b) && b@ == cookie))
}

fn from(pr: PagedResults) -> (rc: RawControl)
    requires pr.cookie@.len() <= usize::MAX - 16,
    ensures rc.ctype@ == PAGED_RESULTS_OID@, !rc.crit,
            rc.val matches Some(v) && (exists|s: StructureTag| paged_tree(s, pr.size as int, pr.cookie@) && v@ == ber(s)),
{
        proof { reveal_with_fuel(is_structure_of, 3); }
        let cookie_len = pr.cookie.len();
        let cval = Tag::Sequence(Sequence {
            inner: vec![
                Tag::Integer(Integer {
                    inner: pr.size as i64,
                    ..Default::default()
                }),
                Tag::OctetString(OctetString {
                    inner: pr.cookie,
                    ..Default::default()
                }),
            ],
            ..Default::default()
        })
        .into_structure();
        let mut buf = BytesMut::with_capacity(cookie_len + 16);
        write::encode_into(&mut buf, cval).expect("encoded");
        RawControl {
            ctype: PAGED_RESULTS_OID.to_owned(),
            crit: false,
            val: Some(buf.to_vec_all()),
        }
}
}
fn main(){}
