use vstd::prelude::*;
verus! {
#[derive(PartialEq, Eq, Clone, Copy, Structural)]
pub enum TagClass { Universal, Application, Context, Private }
pub enum PL { P(Vec<u8>), C(Vec<StructureTag>) }
pub struct StructureTag { pub class: TagClass, pub id: u64, pub payload: PL }
pub struct NullT { pub id: u64 }
pub enum Tag { StructureTag(StructureTag), Null(NullT), Other(u8) }
pub struct NomErr { pub incomplete: bool }
impl StructureTag {
    pub fn match_class(self, class: TagClass) -> (r: Option<Self>)
        ensures r == (if self.class == class { Some(self) } else { None })
    { if self.class == class { Some(self) } else { None } }
    pub fn match_id(self, id: u64) -> (r: Option<Self>)
        ensures r == (if self.id == id { Some(self) } else { None })
    { if self.id == id { Some(self) } else { None } }
    pub fn expect_constructed(self) -> (r: Option<Vec<StructureTag>>)
        ensures r == (match self.payload { PL::P(_) => None, PL::C(i) => Some(i) })
    { match self.payload { PL::P(_) => None, PL::C(i) => Some(i), } }
    pub fn expect_primitive(self) -> (r: Option<Vec<u8>>)
        ensures r == (match self.payload { PL::P(i) => Some(i), PL::C(_) => None })
    { match self.payload { PL::P(i) => Some(i), PL::C(_) => None, } }
}
pub open spec fn be_uint(s: Seq<u8>) -> nat decreases s.len() {
    if s.len() == 0 { 0 } else { (be_uint(s.drop_last()) * 256 + s.last() as nat) }
}
#[verifier::external_body]
pub fn parse_uint(i: &[u8]) -> (r: Result<(&[u8], u64), NomErr>)
    ensures r matches Ok((_, v)) && v as nat == be_uint(i@) % 0x1_0000_0000_0000_0000
{ unimplemented!() }
pub enum Types { Eoc = 0, Boolean = 1, Integer = 2, OctetString = 4, Enumerated = 10, Sequence = 16 }

#[verifier::external_type_specification]
#[verifier::external_body]
pub struct ExFromUtf8Error(std::string::FromUtf8Error);
pub uninterp spec fn valid_utf8(b: Seq<u8>) -> bool;
pub uninterp spec fn utf8_bytes(s: String) -> Seq<u8>;
pub assume_specification [String::from_utf8] (v: Vec<u8>) -> (r: Result<String, std::string::FromUtf8Error>)
    ensures valid_utf8(v@) ==> (r matches Ok(s) && utf8_bytes(s) == v@), !valid_utf8(v@) ==> r is Err;
pub struct LdapResult { pub rc: u32, pub matched: String, pub text: String, pub refs: Vec<String> }

pub fn from(t: Tag) -> (r: LdapResult)
    requires t matches Tag::StructureTag(st) && (st.payload matches PL::C(ch) && ch@.len() >= 3
        && ch@[0].class == TagClass::Universal && ch@[0].id == 10 && ch@[0].payload is P
        && (ch@[1].payload matches PL::P(b1) && valid_utf8(b1@)) && ch@[2].payload is P)
{
        let t = match t {
            Tag::StructureTag(t) => t,
            Tag::Null(_) => {
                return LdapResult { rc: 0, matched: String::from(""), text: String::from(""), refs: vec![] }
            }
            _ => unimplemented!(),
        };
        let mut tags = t.expect_constructed().expect("result sequence").into_iter();
        let rc = match parse_uint(
            tags.next()
                .expect("element")
                .match_class(TagClass::Universal)
                .and_then(|t: StructureTag| -> (r: Option<StructureTag>) ensures r == (if t.id == 10 { Some(t) } else { None }) { t.match_id(Types::Enumerated as u64) })
                .and_then(|t: StructureTag| -> (r: Option<Vec<u8>>) ensures r == (match t.payload { PL::P(i) => Some(i), PL::C(_) => None }) { t.expect_primitive() })
                .expect("result code")
                .as_slice(),
        ) {
            Ok((_, rc)) => rc as u32,
            _ => panic!("failed to parse result code"),
        };
        let matched = String::from_utf8(
            tags.next()
                .expect("element")
                .expect_primitive()
                .expect("octet string"),
        )
        .expect("matched dn");
        LdapResult { rc, matched, text: String::from(""), refs: vec![] }
}
}
fn main(){}
