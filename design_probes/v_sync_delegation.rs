use vstd::prelude::*;
verus! {
pub struct LdapResult { pub rc: u32 }
pub enum LdapError { E }
pub type Result<T> = core::result::Result<T, LdapError>;
pub struct Duration { pub d: u64 }
pub struct Runtime { pub g: u8 }
pub struct LdapH { pub timeout: Option<Duration>, pub last: i32 }
pub struct Fut<T> { pub v: T }
impl<T> Fut<T> {
    #[verifier::external_body]
    pub fn verif_await(self) -> (r: T) ensures r == self.v { unimplemented!() }
}
pub uninterp spec fn spec_modifydn(h: LdapH, dn: &str, rdn: &str, delete_old: bool, new_sup: Option<&str>) -> Result<LdapResult>;
pub uninterp spec fn post_modifydn(h: LdapH, dn: &str, rdn: &str, delete_old: bool, new_sup: Option<&str>) -> LdapH;
impl LdapH {
    #[verifier::external_body]
    pub fn modifydn(&mut self, dn: &str, rdn: &str, delete_old: bool, new_sup: Option<&str>) -> (f: Fut<Result<LdapResult>>)
        ensures f.v == spec_modifydn(*old(self), dn, rdn, delete_old, new_sup), *final(self) == post_modifydn(*old(self), dn, rdn, delete_old, new_sup)
    { unimplemented!() }
}
pub struct LdapConn { pub rt: Runtime, pub ldap: LdapH }
impl LdapConn {
    pub fn with_timeout(&mut self, duration: Duration) -> (r: &mut Self)
        ensures (*r).ldap.timeout == Some(duration), (*r).ldap.last == old(self).ldap.last
    {
        self.ldap.timeout = Some(duration);
        self
    }
    pub fn modifydn(
        &mut self,
        dn: &str,
        rdn: &str,
        delete_old: bool,
        new_sup: Option<&str>,
    ) -> (r: Result<LdapResult>)
        ensures r == spec_modifydn(old(self).ldap, dn, rdn, delete_old, new_sup), final(self).ldap == post_modifydn(old(self).ldap, dn, rdn, delete_old, new_sup)
    {
        let rt = &mut self.rt;
        let ldap = &mut self.ldap;
        { ldap.modifydn(dn, rdn, delete_old, new_sup).verif_await() }
    }
}
}
fn main(){}
