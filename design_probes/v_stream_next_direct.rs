use vstd::prelude::*;
verus! {

pub struct Control { pub x: u8 }
pub struct StructureTag { pub id: u64 }
pub struct LdapResult { pub rc: u32, pub matched: String, pub text: String, pub refs: Vec<String>, pub ctrls: Vec<Control> }
pub enum SearchItem { Entry(StructureTag), Referral(StructureTag), Done(LdapResult) }
pub struct ResultEntry(pub StructureTag, pub Vec<Control>);
pub enum LdapError { EndOfStream, Timeout, IdScrubSend }
pub type Result<T> = core::result::Result<T, LdapError>;
#[derive(PartialEq, Eq, Clone, Copy, Structural)]
pub enum StreamState { Fresh, Active, Done, Closed, Error }
impl StreamState {
    #[verifier::external_body]
    pub fn ne(&self, o: &StreamState) -> (b: bool) ensures b == (*self != *o) { self != o }
}
#[derive(Clone, Copy)]
pub struct Duration { pub d: u64 }

#[verifier::external_body]
pub struct ItemReceiver { _p: u8 }
pub struct RecvFut { pub g: u8 }
impl ItemReceiver {
    #[verifier::external_body]
    pub fn recv(&mut self) -> RecvFut { unimplemented!() }
}
impl RecvFut {
    #[verifier::external_body]
    pub fn verif_await(self) -> Option<(SearchItem, Vec<Control>)> { unimplemented!() }
}
pub struct TimeoutFut { pub g: u8 }
impl TimeoutFut {
    #[verifier::external_body]
    pub fn verif_await(self) -> core::result::Result<Option<(SearchItem, Vec<Control>)>, LdapError> { unimplemented!() }
}
pub struct time_ {}
#[verifier::external_body]
pub fn time_timeout(d: Duration, f: RecvFut) -> TimeoutFut { unimplemented!() }

#[verifier::external_body]
pub struct ScrubSender { _p: u8 }
impl ScrubSender {
    #[verifier::external_body]
    pub fn send(&self, id: i32) -> core::result::Result<(), LdapError> { unimplemented!() }
}
pub struct Ldap { pub last_id: i32, pub id_scrub_tx: ScrubSender }

pub struct SearchStream {
    pub ldap: Ldap,
    pub rx: Option<ItemReceiver>,
    pub state: StreamState,
    pub ax: usize,
    pub nadapters: usize,
    pub timeout: Option<Duration>,
    pub res: Option<LdapResult>,
}

impl SearchStream {
    pub open spec fn wf(&self) -> bool {
        self.state == StreamState::Active ==> self.rx.is_some()
    }

    pub fn next_inner(&mut self) -> (r: Result<Option<ResultEntry>>)
        requires old(self).rx.is_some(),
        ensures
            final(self).state == old(self).state,
            r matches Ok(Some(_)) ==> final(self).rx.is_some(),
            r matches Ok(None) ==> final(self).rx.is_none() && final(self).res.is_some(),
    {
        let item = if let Some(timeout) = self.timeout {
            let res = time_timeout(timeout, self.rx.as_mut().unwrap().recv()).verif_await();
            if res.is_err() {
                let last_id = self.ldap.last_id;
                self.ldap.id_scrub_tx.send(last_id)?;
            }
            res?
        } else {
            self.rx.as_mut().unwrap().recv().verif_await()
        };
        let (item, controls) = match item {
            Some((item, controls)) => (item, controls),
            None => {
                self.rx = None;
                return Err(LdapError::EndOfStream);
            }
        };
        match item {
            SearchItem::Entry(tag) | SearchItem::Referral(tag) => {
                return Ok(Some(ResultEntry(tag, controls)))
            }
            SearchItem::Done(mut res) => {
                res.ctrls = controls;
                self.res = Some(res);
                self.rx = None;
            }
        }
        Ok(None)
    }

    pub fn next(&mut self) -> (r: Result<Option<ResultEntry>>)
        requires old(self).wf(), old(self).ax == old(self).nadapters,
        ensures final(self).wf(),
            old(self).state != StreamState::Active ==> (r matches Ok(None)) && final(self).state == old(self).state,
            r is Err ==> final(self).state == StreamState::Error,
            (old(self).state == StreamState::Active && r matches Ok(None)) ==> final(self).state == StreamState::Done,
    {
        if self.state != StreamState::Active {
            return Ok(None);
        }
        if self.ax == self.nadapters {
            let res = self.next_inner();
            if res.is_err() {
                self.state = StreamState::Error;
            }
            return res;
        }
        Ok(None)
    }
}
}
fn main(){}
