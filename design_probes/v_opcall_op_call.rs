use vstd::prelude::*;
verus! {
pub type RequestId = i32;
pub struct Control { pub x: u8 }
pub struct RawControl { pub x: u8 }
pub type MaybeControls = Option<Vec<RawControl>>;
pub enum Tag { Null, Other(u8) }
#[derive(Clone, Copy)]
pub struct Duration { pub d: u64 }
pub struct LdapResult { pub rc: u32, pub ctrls: Vec<Control> }
pub struct Exop { pub n: u8 }
pub struct SaslCreds(pub Option<Vec<u8>>);
pub struct LdapResultExt(pub LdapResult, pub Exop, pub SaslCreds);
impl LdapResultExt {
    #[verifier::external_body]
    pub fn from(t: Tag) -> LdapResultExt { unimplemented!() }
}
pub enum LdapError { OpSend, ResultRecv, IdScrubSend, Timeout }
pub type Result<T> = core::result::Result<T, LdapError>;
pub enum LdapOp { Single, Unbind }

#[verifier::external_body] pub struct ResultSender { _p: u8 }
#[verifier::external_body] pub struct ResultReceiver { _p: u8 }
impl ResultSender { pub uninterp spec fn chan(&self) -> int; }
impl ResultReceiver {
    pub uninterp spec fn chan(&self) -> int;
    #[verifier::external_body]
    pub fn verif_await(self) -> (r: Result<(Tag, Vec<Control>)>) ensures r matches Err(e) ==> e is ResultRecv { unimplemented!() }
}
pub struct oneshot {}
impl oneshot {
    #[verifier::external_body]
    pub fn channel() -> (p: (ResultSender, ResultReceiver)) ensures p.0.chan() == p.1.chan() { unimplemented!() }
}
pub struct TimeoutFut { pub rx: ResultReceiver }
impl TimeoutFut {
    #[verifier::external_body]
    pub fn verif_await(self) -> (r: Result<Result<(Tag, Vec<Control>)>>)
        ensures r matches Err(e) ==> e is Timeout, r matches Ok(Err(e)) ==> e is ResultRecv
    { unimplemented!() }
}
pub struct time {}
impl time {
    #[verifier::external_body]
    pub fn timeout(d: Duration, rx: ResultReceiver) -> (f: TimeoutFut) ensures f.rx == rx { unimplemented!() }
}
pub struct OpSender { pub log: Ghost<Seq<(RequestId, MaybeControls, int)>> }
impl OpSender {
    #[verifier::external_body]
    pub fn send(&mut self, t: (RequestId, LdapOp, Tag, MaybeControls, ResultSender)) -> (r: Result<()>)
        ensures r is Ok ==> final(self).log@ == old(self).log@.push((t.0, t.3, t.4.chan())),
                r matches Err(e) ==> e is OpSend && final(self).log@ == old(self).log@
    { unimplemented!() }
}
pub struct ScrubSender { pub log: Ghost<Seq<RequestId>> }
impl ScrubSender {
    #[verifier::external_body]
    pub fn send(&mut self, id: RequestId) -> (r: Result<()>)
        ensures r is Ok ==> final(self).log@ == old(self).log@.push(id), r matches Err(e) ==> e is IdScrubSend
    { unimplemented!() }
}
pub struct Ldap { pub tx: OpSender, pub id_scrub_tx: ScrubSender, pub last_id: RequestId, pub timeout: Option<Duration>, pub controls: MaybeControls, pub next: Ghost<int> }
impl Ldap {
    #[verifier::external_body]
    fn next_msgid(&mut self) -> (r: i32)
        ensures 1 <= r, final(self).tx == old(self).tx, final(self).id_scrub_tx == old(self).id_scrub_tx, final(self).timeout == old(self).timeout, final(self).controls == old(self).controls
    { unimplemented!() }

    pub fn op_call(&mut self, op: LdapOp, req: Tag) -> (r: Result<(LdapResult, Exop, SaslCreds)>)
        ensures
            final(self).controls is None,
            // exactly one tuple enqueued (or none on OpSend), carrying the fresh id and the caller's controls
            final(self).tx.log@.len() <= old(self).tx.log@.len() + 1,
            final(self).tx.log@.len() == old(self).tx.log@.len() + 1 ==> final(self).tx.log@.last().0 == final(self).last_id && final(self).tx.log@.last().1 == old(self).controls,
            r matches Err(e) && e is Timeout ==> final(self).id_scrub_tx.log@ == old(self).id_scrub_tx.log@.push(final(self).last_id),
            !(r matches Err(LdapError::OpSend)) ==> final(self).timeout is None,
    {
        let id = self.next_msgid();
        self.last_id = id;
        let (tx, rx) = oneshot::channel();
        self.tx.send((id, op, req, self.controls.take(), tx))?;
        let response = if let Some(timeout) = self.timeout.take() {
            let res = time::timeout(timeout, rx).verif_await();
            if res.is_err() {
                self.id_scrub_tx.send(self.last_id)?;
            }
            res?
        } else {
            rx.verif_await()
        }?;
        let (ldap_ext, controls) = (LdapResultExt::from(response.0), response.1);
        let (mut result, exop, sasl_creds) = (ldap_ext.0, ldap_ext.1, ldap_ext.2);
        result.ctrls = controls;
        Ok((result, exop, sasl_creds))
    }
}
}
fn main(){}
