use vstd::prelude::*;
verus! {
#[derive(PartialEq, Eq, Clone, Copy, Structural)]
pub enum TagClass { Universal, Application, Context, Private }
pub enum PL { P(Vec<u8>), C(Vec<StructureTag>) }
pub struct StructureTag { pub class: TagClass, pub id: u64, pub payload: PL }
pub enum Tag { StructureTag(StructureTag), Null }
pub struct Control { pub x: u8 }
pub struct IoError { pub k: u8 }
pub type RequestId = i32;

impl Clone for StructureTag {
    #[verifier::external_body]
    fn clone(&self) -> (r: StructureTag) ensures r == *self { unimplemented!() }
}

impl StructureTag {
    pub fn match_class(self, class: TagClass) -> (r: Option<Self>)
        ensures r == (if self.class == class { Some(self) } else { None })
    {
        if self.class == class {
            Some(self)
        } else {
            None
        }
    }

    pub fn match_id(self, id: u64) -> (r: Option<Self>)
        ensures r == (if self.id == id { Some(self) } else { None })
    {
        if self.id == id {
            Some(self)
        } else {
            None
        }
    }

    pub fn expect_constructed(self) -> (r: Option<Vec<StructureTag>>)
        ensures r == (match self.payload { PL::P(_) => None, PL::C(i) => Some(i) })
    {
        match self.payload {
            PL::P(_) => None,
            PL::C(i) => Some(i),
        }
    }

    pub fn expect_primitive(self) -> (r: Option<Vec<u8>>)
        ensures r == (match self.payload { PL::P(i) => Some(i), PL::C(_) => None })
    {
        match self.payload {
            PL::P(i) => Some(i),
            PL::C(_) => None,
        }
    }
}

// --- stubs: bytes::BytesMut, lber::Parser, nom::Err ---
#[verifier::external_body]
pub struct BytesMut { _p: u8 }
impl BytesMut {
    pub uninterp spec fn view(&self) -> Seq<u8>;
    #[verifier::external_body]
    pub fn len(&self) -> (n: usize) ensures n == self.view().len() { unimplemented!() }
    #[verifier::external_body]
    pub fn advance(&mut self, cnt: usize)
        requires cnt <= old(self).view().len()
        ensures final(self).view() == old(self).view().subrange(cnt as int, old(self).view().len() as int)
    { unimplemented!() }
    #[verifier::external_body]
    pub fn as_slice(&self) -> (s: &[u8]) ensures s@ == self.view() { unimplemented!() }
}
pub struct NomErr { pub incomplete: bool }
impl NomErr {
    pub fn is_incomplete(&self) -> (b: bool) ensures b == self.incomplete { self.incomplete }
}
pub enum FrameStatus { NeedMore, Invalid, Frame(nat, StructureTag) }
pub uninterp spec fn frame_status(b: Seq<u8>) -> FrameStatus;
pub struct Parser {}
impl Parser {
    pub fn new() -> Parser { Parser {} }
    #[verifier::external_body]
    pub fn parse<'a>(&mut self, input: &'a BytesMut) -> (r: Result<(&'a [u8], StructureTag), NomErr>)
        ensures
            match frame_status(input.view()) {
                FrameStatus::NeedMore => r matches Err(e) && e.incomplete,
                FrameStatus::Invalid => r matches Err(e) && !e.incomplete,
                FrameStatus::Frame(n, t) => r matches Ok((rest, tag)) && tag == t && n <= input.view().len() && rest@ == input.view().subrange(n as int, input.view().len() as int),
            }
    { unimplemented!() }
}
#[verifier::external_body]
pub fn parse_uint(i: &[u8]) -> (r: Result<(&[u8], u64), NomErr>)
    ensures r is Ok
{ unimplemented!() }
#[verifier::external_body]
pub fn parse_controls(t: StructureTag) -> Vec<Control> { unimplemented!() }
#[verifier::external_body]
pub fn new_decoding_error() -> IoError { unimplemented!() }

pub enum Types { Eoc = 0, Boolean = 1, Integer = 2, OctetString = 4, Sequence = 16 }

fn decode_inner(buf: &mut BytesMut) -> (r: Result<Option<(RequestId, (Tag, Vec<Control>))>, IoError>)
    ensures
        frame_status(old(buf).view()) is NeedMore ==> (r matches Ok(None)) && final(buf).view() == old(buf).view(),
        frame_status(old(buf).view()) is Invalid ==> r is Err,
        frame_status(old(buf).view()) matches FrameStatus::Frame(n, t) ==> !(r matches Ok(None)) && final(buf).view() == old(buf).view().subrange(n as int, old(buf).view().len() as int),
{
    let decoding_error = new_decoding_error();
    let mut parser = Parser::new();
    let binding = parser.parse(buf);
    let (i, tag) = match binding {
        Err(e) if e.is_incomplete() => return Ok(None),
        Err(_e) => return Err(decoding_error),
        Ok((i, ref tag)) => (i, tag),
    };
    buf.advance(buf.len() - i.len());
    let tag = tag.clone();
    let mut tags = match tag
        .match_id(Types::Sequence as u64)
        .and_then(|t| t.expect_constructed())
    {
        Some(tags) => tags,
        None => return Err(decoding_error),
    };
    let mut maybe_controls = tags.pop().expect("element");
    let has_controls = match maybe_controls {
        StructureTag {
            id,
            class,
            ref payload,
        } if class == TagClass::Context && id == 0 => match *payload {
            PL::C(_) => true,
            PL::P(_) => return Err(decoding_error),
        },
        StructureTag { id, class, .. } if class == TagClass::Context && id == 10 => {
            maybe_controls = tags.pop().expect("element");
            false
        }
        _ => false,
    };
    let (protoop, controls) = if has_controls {
        (tags.pop().expect("element"), Some(maybe_controls))
    } else {
        (maybe_controls, None)
    };
    let controls = match controls {
        Some(controls) => parse_controls(controls),
        None => vec![],
    };
    let msgid = match parse_uint(
        tags.pop()
            .expect("element")
            .match_class(TagClass::Universal)
            .and_then(|t| t.match_id(Types::Integer as u64))
            .and_then(|t| t.expect_primitive())
            .expect("message id")
            .as_slice(),
    ) {
        Ok((_, id)) => id as i32,
        _ => return Err(decoding_error),
    };
    Ok(Some((msgid, (Tag::StructureTag(protoop), controls))))
}
}
fn main(){}
