use vstd::prelude::*;
use std::collections::{HashMap, HashSet};
verus! {
broadcast use vstd::std_specs::hash::group_hash_axioms;
pub type RequestId = i32;
pub struct Null { pub id: u64 }
impl Default for Null { fn default() -> Null { Null { id: 5 } } }
pub enum Tag { Null(Null), Other(u8) }
pub struct Control { pub x: u8 }
pub struct RawControl { pub x: u8 }
pub type MaybeControls = Option<Vec<RawControl>>;
pub struct IoError { pub k: u8 }
pub enum LdapError { Io(IoError) }
impl LdapError { pub fn from(e: IoError) -> LdapError { LdapError::Io(e) } }

#[verifier::external_body]
pub struct ItemSender { _p: u8 }
#[verifier::external_body]
pub struct ResultSender { _p: u8 }
impl ItemSender {
    pub uninterp spec fn owner(&self) -> i32;
}
impl Clone for ItemSender {
    #[verifier::external_body]
    fn clone(&self) -> (r: ItemSender) ensures r.owner() == self.owner() { unimplemented!() }
}
impl ResultSender {
    pub uninterp spec fn owner(&self) -> i32;
    #[verifier::external_body]
    pub fn send(self, v: (Tag, Vec<Control>)) -> (r: core::result::Result<(), (Tag, Vec<Control>)>) { unimplemented!() }
}
pub enum LdapOp { Single, Search(ItemSender), Abandon(RequestId), Unbind }

pub struct SendFut { pub ok: bool }
impl SendFut {
    #[verifier::external_body]
    pub fn verif_await(self) -> core::result::Result<(), IoError> { unimplemented!() }
}
pub struct UnitFut { pub g: u8 }
impl UnitFut {
    #[verifier::external_body]
    pub fn verif_await(self) -> core::result::Result<(), IoError> { unimplemented!() }
}
pub struct ConnType { pub g: u8 }
impl ConnType {
    #[verifier::external_body]
    pub fn shutdown(&mut self) -> UnitFut { unimplemented!() }
}
pub struct Framed { pub io: ConnType, pub sent: Ghost<Seq<i32>>, pub closed: bool }
impl Framed {
    #[verifier::external_body]
    pub fn send(&mut self, m: (RequestId, Tag, MaybeControls)) -> (f: SendFut)
        ensures final(self).sent@ == old(self).sent@.push(m.0), final(self).closed == old(self).closed
    { unimplemented!() }
    #[verifier::external_body]
    pub fn close(&mut self) -> (f: UnitFut) ensures final(self).closed, final(self).sent@ == old(self).sent@ { unimplemented!() }
}

pub struct Conn {
    pub msgmap: (i32, HashSet<i32>),
    pub resultmap: HashMap<i32, ResultSender>,
    pub searchmap: HashMap<i32, ItemSender>,
    pub stream: Framed,
}
pub enum Flow { Next, Break, Continue, Exit(core::result::Result<(), LdapError>) }

pub open spec fn op_wf(id: i32, op: LdapOp, tx: ResultSender) -> bool {
    tx.owner() == id && (op matches LdapOp::Search(s) ==> s.owner() == id)
}

impl Conn {
    pub open spec fn wf(&self) -> bool {
        &&& forall|k: i32| self.resultmap@.contains_key(k) ==> #[trigger] self.resultmap@[k].owner() == k
        &&& forall|k: i32| self.searchmap@.contains_key(k) ==> #[trigger] self.searchmap@[k].owner() == k
    }

    fn arm_op(&mut self, op_tuple: Option<(RequestId, LdapOp, Tag, MaybeControls, ResultSender)>) -> (f: Flow)
        requires old(self).wf(), op_tuple matches Some(t) ==> op_wf(t.0, t.1, t.4),
        ensures final(self).wf(),
            op_tuple is None ==> f is Break,
            op_tuple matches Some(t) ==> final(self).stream.sent@ == old(self).stream.sent@.push(t.0),
            op_tuple matches Some(t) ==> (t.1 matches LdapOp::Abandon(m) ==> (!(f is Exit) ==> !final(self).msgmap.1@.contains(t.0) && !final(self).resultmap@.contains_key(m) && !final(self).searchmap@.contains_key(m))),
            op_tuple matches Some(t) ==> (t.1 matches LdapOp::Abandon(m) ==> (!(f is Exit) ==> !final(self).msgmap.1@.contains(m))),
    {
                    if let Some((id, op, tag, controls, tx)) = op_tuple {
                        if let LdapOp::Search(ref search_tx) = op {
                            self.searchmap.insert(id, search_tx.clone());
                        }
                        if let Err(e) = self.stream.send((id, tag, controls)).verif_await() {
                            return Flow::Exit(Err(LdapError::from(e)));
                        } else {
                            match op {
                                LdapOp::Single => {
                                    self.resultmap.insert(id, tx);
                                    return Flow::Continue;
                                },
                                LdapOp::Search(_) => (),
                                LdapOp::Abandon(msgid) => {
                                    self.resultmap.remove(&msgid);
                                    self.searchmap.remove(&msgid);
                                    let mut msgmap = &mut self.msgmap;
                                    msgmap.1.remove(&id);
                                },
                                LdapOp::Unbind => {
                                    if let Err(e) = self.stream.io.shutdown().verif_await() {
                                    }
                                    if let Err(e) = self.stream.close().verif_await() {
                                    }
                                },
                            }
                            if let Err(e) = tx.send((Tag::Null(Null { ..Default::default() }), vec![])) {
                            }
                        }
                    } else {
                        return Flow::Break;
                    }
        Flow::Next
    }
}
}
fn main(){}
