use vstd::prelude::*;
verus! {
#[derive(PartialEq, Eq, Clone, Copy, Structural)]
pub enum TagClass { Universal, Application, Context, Private }
pub struct Integer { pub id: u64, pub class: TagClass, pub inner: i64 }
pub struct OctetString { pub id: u64, pub class: TagClass, pub inner: Vec<u8> }
pub struct Sequence { pub id: u64, pub class: TagClass, pub inner: Vec<Tag> }
pub enum Tag { Integer(Integer), OctetString(OctetString), Sequence(Sequence) }

impl Default for Integer {
    fn default() -> (r: Integer) ensures r.id == 2, r.class == TagClass::Universal, r.inner == 0 {
        Integer { id: 2, class: TagClass::Universal, inner: 0i64 }
    }
}
impl Default for OctetString {
    fn default() -> (r: OctetString) ensures r.id == 4, r.class == TagClass::Universal, r.inner@ == Seq::<u8>::empty() {
        OctetString { id: 4, class: TagClass::Universal, inner: Vec::new() }
    }
}

fn bind(bind_dn: &str, bind_pw: &str) -> (req: Tag)
    ensures req matches Tag::Sequence(s) && s.id == 0 && s.class == TagClass::Application && s.inner@.len() == 3
        && (s.inner@[0] matches Tag::Integer(i) && i.inner == 3 && i.id == 2)
        && (s.inner@[2] matches Tag::OctetString(o) && o.id == 0 && o.class == TagClass::Context)
{
        let req = Tag::Sequence(Sequence {
            id: 0,
            class: TagClass::Application,
            inner: vec![
                Tag::Integer(Integer {
                    inner: 3,
                    ..Default::default()
                }),
                Tag::OctetString(OctetString {
                    inner: Vec::from(bind_dn),
                    ..Default::default()
                }),
                Tag::OctetString(OctetString {
                    id: 0,
                    class: TagClass::Context,
                    inner: Vec::from(bind_pw),
                }),
            ],
        });
        req
}
}
fn main(){}
