use vstd::prelude::*;
verus! {
#[derive(PartialEq, Eq, Clone, Copy, Structural)]
pub enum TagClass { Universal, Application, Context, Private }
#[derive(PartialEq, Eq, Clone, Copy, Structural)]
pub enum TagStructure { Primitive, Constructed }
pub enum PL { P(Vec<u8>), C(Vec<StructureTag>) }
pub struct StructureTag { pub class: TagClass, pub id: u64, pub payload: PL }
pub enum NErr { Incomplete, Error, Failure }
pub type IResult<I, O> = Result<(I, O), NErr>;
pub assume_specification<T: Clone> [<[T]>::to_vec] (s: &[T]) -> (v: Vec<T>) ensures v@ == s@;

// ---- contract of the two header parsers (discharged on the real code by K-lber-dec) ----
pub enum Hdr { NeedMore, Bad, Ok(nat, TagClass, TagStructure, u64) }
pub uninterp spec fn type_hdr(b: Seq<u8>) -> Hdr;
pub enum Len { NeedMore, Bad, Ok(nat, usize) }
pub uninterp spec fn len_hdr(b: Seq<u8>) -> Len;
pub broadcast proof fn ax_type_hdr(b: Seq<u8>) ensures (#[trigger] type_hdr(b)) matches Hdr::Ok(n, _, _, _) ==> 0 < n <= b.len() { admit(); }
pub broadcast proof fn ax_len_hdr(b: Seq<u8>) ensures (#[trigger] len_hdr(b)) matches Len::Ok(n, _) ==> 0 < n <= b.len() { admit(); }

#[verifier::external_body]
pub fn parse_type_header<'a>(i: &'a [u8]) -> (r: IResult<&'a [u8], (TagClass, TagStructure, u64)>)
    ensures match type_hdr(i@) {
        Hdr::NeedMore => r matches Err(e) && e is Incomplete,
        Hdr::Bad => r matches Err(e) && !(e is Incomplete),
        Hdr::Ok(n, c, s, id) => r matches Ok((rest, (c2, s2, id2))) && c2 == c && s2 == s && id2 == id && rest@ == i@.subrange(n as int, i@.len() as int),
    }
{ unimplemented!() }
#[verifier::external_body]
pub fn parse_length<'a>(i: &'a [u8]) -> (r: IResult<&'a [u8], usize>)
    ensures match len_hdr(i@) {
        Len::NeedMore => r matches Err(e) && e is Incomplete,
        Len::Bad => r matches Err(e) && !(e is Incomplete),
        Len::Ok(n, l) => r matches Ok((rest, l2)) && l2 == l && rest@ == i@.subrange(n as int, i@.len() as int),
    }
{ unimplemented!() }

// ---- nom combinators as contracted stubs (T: nom) ----
#[verifier::external_body]
pub fn take<'a>(len: usize) -> (f: impl Fn(&'a [u8]) -> IResult<&'a [u8], &'a [u8]>)
    ensures forall|i: &'a [u8], r: IResult<&'a [u8], &'a [u8]>| #[trigger] call_ensures(f, (i,), r) ==>
        (if i@.len() >= len { r matches Ok((rest, c)) && c@ == i@.subrange(0, len as int) && rest@ == i@.subrange(len as int, i@.len() as int) } else { r matches Err(e) && e is Incomplete }),
        forall|i: &'a [u8]| call_requires(f, (i,)),
{ move |i: &'a [u8]| unimplemented!() }

#[verifier::external_body]
pub fn tuple<'a, A, B, FA: Fn(&'a [u8]) -> IResult<&'a [u8], A>, FB: Fn(&'a [u8]) -> IResult<&'a [u8], B>>(p: (FA, FB)) -> (f: impl Fn(&'a [u8]) -> IResult<&'a [u8], (A, B)>)
    ensures
        forall|i: &'a [u8]| call_requires(f, (i,)),
        forall|i: &'a [u8], r: IResult<&'a [u8], (A, B)>| #[trigger] call_ensures(f, (i,), r) ==> (
            (exists|e: NErr| call_ensures(p.0, (i,), Err::<(&'a [u8], A), NErr>(e)) && r == Err::<(&'a [u8], (A, B)), NErr>(e))
            || (exists|i1: &'a [u8], a: A| call_ensures(p.0, (i,), Ok::<(&'a [u8], A), NErr>((i1, a))) && (
                    (exists|e: NErr| call_ensures(p.1, (i1,), Err::<(&'a [u8], B), NErr>(e)) && r == Err::<(&'a [u8], (A, B)), NErr>(e))
                 || (exists|i2: &'a [u8], b: B| call_ensures(p.1, (i1,), Ok::<(&'a [u8], B), NErr>((i2, b))) && r == Ok::<(&'a [u8], (A, B)), NErr>((i2, (a, b))))))),
{ move |i: &'a [u8]| unimplemented!() }

pub trait InputLength { fn input_len(&self) -> usize; }
impl<'a> InputLength for &'a [u8] {
    #[verifier::external_body]
    fn input_len(&self) -> (n: usize) ensures n == self@.len() { self.len() }
}

pub fn parse_tag<'a>(i0: &'a [u8]) -> (r: IResult<&'a [u8], StructureTag>)
    ensures
        r matches Ok((rest, t)) ==> rest@.len() < i0@.len(),
        // once header and announced contents are present the answer is never "need more"
        (type_hdr(i0@) matches Hdr::Ok(n1, _, _, _) && (len_hdr(i0@.subrange(n1 as int, i0@.len() as int)) matches Len::Ok(n2, l) && i0@.len() >= n1 + n2 + l)) ==> !(r matches Err(NErr::Incomplete)),
    decreases i0@.len(),
{
    broadcast use ax_type_hdr, ax_len_hdr;
    let ghost old_len = i0@.len();
    let i = i0;
    let (mut i, ((class, structure, id), len)) = tuple((parse_type_header, parse_length))(i)?;

    let pl: PL = match structure {
        TagStructure::Primitive => {
            let (j, content) = take(len)(i)?;
            i = j;

            PL::P(content.to_vec())
        }
        TagStructure::Constructed => {
            let (j, mut content) = take(len)(i)?;
            i = j;

            let mut tv: Vec<StructureTag> = Vec::new();
            while content.input_len() > 0 
                invariant content@.len() <= len, len < old_len, old_len == i0@.len(),
                decreases content@.len(),
            {
                assert(content@.len() < old_len);
                let (j, sub) = parse_tag(content)?;
                content = j;
                tv.push(sub);
            }

            PL::C(tv)
        }
    };

    Ok((
        i,
        StructureTag {
            class,
            id,
            payload: pl,
        },
    ))
}
}
fn main(){}
