use vstd::prelude::*;
verus! {
#[derive(PartialEq, Eq, Clone, Copy, Structural)]
pub enum TagClass { Universal, Application, Context, Private }
#[derive(PartialEq, Eq, Clone, Copy, Structural)]
pub enum TagStructure { Primitive, Constructed }
pub enum PL { P(Vec<u8>), C(Vec<StructureTag>) }
pub struct StructureTag { pub class: TagClass, pub id: u64, pub payload: PL }
pub enum NErr { Incomplete, Error, Failure }
pub type IResult<I, O> = Result<(I, O), NErr>;
pub assume_specification<T: Clone> [<[T]>::to_vec] (s: &[T]) -> (v: Vec<T>) ensures v@ == s@;

pub enum Hdr { NeedMore, Bad, Ok(nat, TagClass, TagStructure, u64) }
pub uninterp spec fn type_hdr(b: Seq<u8>) -> Hdr;
pub enum Len { NeedMore, Bad, Ok(nat, usize) }
pub uninterp spec fn len_hdr(b: Seq<u8>) -> Len;
// leaf clauses (discharged on the real header parsers by K-lber-dec)
pub broadcast proof fn ax_type_hdr(b: Seq<u8>) ensures (#[trigger] type_hdr(b)) matches Hdr::Ok(n, _, _, _) ==> 0 < n <= b.len() { admit(); }
pub broadcast proof fn ax_len_hdr(b: Seq<u8>) ensures (#[trigger] len_hdr(b)) matches Len::Ok(n, _) ==> 0 < n <= b.len() { admit(); }
pub proof fn ax_type_local(b: Seq<u8>, m: int) requires type_hdr(b) matches Hdr::Ok(n, _, _, _) && n <= m <= b.len() ensures type_hdr(b.subrange(0, m)) == type_hdr(b) { admit(); }
pub proof fn ax_len_local(b: Seq<u8>, m: int) requires len_hdr(b) matches Len::Ok(n, _) && n <= m <= b.len() ensures len_hdr(b.subrange(0, m)) == len_hdr(b) { admit(); }

#[verifier::external_body]
pub fn parse_type_header<'a>(i: &'a [u8]) -> (r: IResult<&'a [u8], (TagClass, TagStructure, u64)>)
    ensures match type_hdr(i@) {
        Hdr::NeedMore => r matches Err(e) && e is Incomplete,
        Hdr::Bad => r matches Err(e) && !(e is Incomplete),
        Hdr::Ok(n, c, s, id) => r matches Ok((rest, (c2, s2, id2))) && c2 == c && s2 == s && id2 == id && rest@ == i@.subrange(n as int, i@.len() as int),
    }
{ unimplemented!() }
#[verifier::external_body]
pub fn parse_length<'a>(i: &'a [u8]) -> (r: IResult<&'a [u8], usize>)
    ensures match len_hdr(i@) {
        Len::NeedMore => r matches Err(e) && e is Incomplete,
        Len::Bad => r matches Err(e) && !(e is Incomplete),
        Len::Ok(n, l) => r matches Ok((rest, l2)) && l2 == l && rest@ == i@.subrange(n as int, i@.len() as int),
    }
{ unimplemented!() }
#[verifier::external_body]
pub fn take<'a>(len: usize) -> (f: impl Fn(&'a [u8]) -> IResult<&'a [u8], &'a [u8]>)
    ensures forall|i: &'a [u8], r: IResult<&'a [u8], &'a [u8]>| #[trigger] call_ensures(f, (i,), r) ==>
        (if i@.len() >= len { r matches Ok((rest, c)) && c@ == i@.subrange(0, len as int) && rest@ == i@.subrange(len as int, i@.len() as int) } else { r matches Err(e) && e is Incomplete }),
        forall|i: &'a [u8]| call_requires(f, (i,)),
{ move |i: &'a [u8]| unimplemented!() }
#[verifier::external_body]
pub fn tuple<'a, A, B, FA: Fn(&'a [u8]) -> IResult<&'a [u8], A>, FB: Fn(&'a [u8]) -> IResult<&'a [u8], B>>(p: (FA, FB)) -> (f: impl Fn(&'a [u8]) -> IResult<&'a [u8], (A, B)>)
    ensures
        forall|i: &'a [u8]| call_requires(f, (i,)),
        forall|i: &'a [u8], r: IResult<&'a [u8], (A, B)>| #[trigger] call_ensures(f, (i,), r) ==> (
            (exists|e: NErr| call_ensures(p.0, (i,), Err::<(&'a [u8], A), NErr>(e)) && r == Err::<(&'a [u8], (A, B)), NErr>(e))
            || (exists|i1: &'a [u8], a: A| call_ensures(p.0, (i,), Ok::<(&'a [u8], A), NErr>((i1, a))) && (
                    (exists|e: NErr| call_ensures(p.1, (i1,), Err::<(&'a [u8], B), NErr>(e)) && r == Err::<(&'a [u8], (A, B)), NErr>(e))
                 || (exists|i2: &'a [u8], b: B| call_ensures(p.1, (i1,), Ok::<(&'a [u8], B), NErr>((i2, b))) && r == Ok::<(&'a [u8], (A, B)), NErr>((i2, (a, b))))))),
{ move |i: &'a [u8]| unimplemented!() }
pub trait InputLength { fn input_len(&self) -> usize; }
impl<'a> InputLength for &'a [u8] {
    #[verifier::external_body]
    fn input_len(&self) -> (n: usize) ensures n == self@.len() { self.len() }
}

pub open spec fn pc_of(t: StructureTag) -> TagStructure { match t.payload { PL::P(_) => TagStructure::Primitive, PL::C(_) => TagStructure::Constructed } }
// b is exactly one definite-length BER encoding of t (any length form the header parser accepts)
pub open spec fn enc_of(b: Seq<u8>, t: StructureTag) -> bool decreases t, 0nat {
    match type_hdr(b) {
        Hdr::Ok(n1, c, s, id) => c == t.class && s == pc_of(t) && id == t.id && n1 <= b.len() && (match len_hdr(b.subrange(n1 as int, b.len() as int)) {
            Len::Ok(n2, l) => b.len() == n1 + n2 + l && (match t.payload {
                PL::P(v) => v@ == b.subrange((n1 + n2) as int, b.len() as int),
                PL::C(ch) => encs_of(b.subrange((n1 + n2) as int, b.len() as int), ch@, ch@.len()),
            }),
            _ => false }),
        _ => false }
}
pub open spec fn encs_of(c: Seq<u8>, chs: Seq<StructureTag>, k: nat) -> bool decreases chs, k {
    if k == 0 { c.len() == 0 } else if k > chs.len() { false } else {
        exists|m: int| #![trigger c.subrange(0, m)] 0 <= m <= c.len() && encs_of(c.subrange(0, m), chs, (k - 1) as nat) && enc_of(c.subrange(m, c.len() as int), chs[k - 1])
    }
}
pub proof fn lemma_encs_push(c: Seq<u8>, chs: Seq<StructureTag>, t: StructureTag, k: nat)
    requires k <= chs.len()
    ensures encs_of(c, chs.push(t), k) == encs_of(c, chs, k)
    decreases k
{
    if k > 0 {
        assert forall|m: int| 0 <= m <= c.len() implies encs_of(c.subrange(0, m), chs.push(t), (k - 1) as nat) == encs_of(c.subrange(0, m), chs, (k - 1) as nat) by {
            lemma_encs_push(c.subrange(0, m), chs, t, (k - 1) as nat);
        }
        assert(chs.push(t)[k - 1] == chs[k - 1]);
    }
}

pub fn parse_tag<'a>(i0: &'a [u8]) -> (r: IResult<&'a [u8], StructureTag>)
    ensures
        r matches Ok((rest, t)) ==> rest@.len() < i0@.len()
            && rest@ == i0@.subrange(i0@.len() - rest@.len(), i0@.len() as int)
            && enc_of(i0@.subrange(0, i0@.len() - rest@.len()), t),
    decreases i0@.len(),
{
    broadcast use ax_type_hdr, ax_len_hdr;
    let ghost old_len = i0@.len();
    let i = i0;
    let (mut i, ((class, structure, id), len)) = tuple((parse_type_header, parse_length))(i)?;
    let ghost n1 = type_hdr(i0@)->Ok_0;
    let ghost n2 = len_hdr(i0@.subrange(n1 as int, i0@.len() as int))->Ok_0;
    proof {
        assert(i@ == i0@.subrange(n1 as int, i0@.len() as int).subrange(n2 as int, i0@.len() - n1));
        assert(i@ =~= i0@.subrange((n1 + n2) as int, i0@.len() as int));
    }

    let pl: PL = match structure {
        TagStructure::Primitive => {
            let (j, content) = take(len)(i)?;
            i = j;

            PL::P(content.to_vec())
        }
        TagStructure::Constructed => {
            let (j, mut content) = take(len)(i)?;
            i = j;

            let mut tv: Vec<StructureTag> = Vec::new();
            let ghost c0 = content@;
            while content.input_len() > 0
                invariant content@.len() <= len, len < old_len, old_len == i0@.len(), c0.len() == len,
                    content@ == c0.subrange(c0.len() - content@.len(), c0.len() as int),
                    encs_of(c0.subrange(0, c0.len() - content@.len()), tv@, tv@.len()),
                decreases content@.len(),
            {
                let ghost p = c0.len() - content@.len();
                let ghost tv_old = tv@;
                let (j, sub) = parse_tag(content)?;
                let ghost k = content@.len() - j@.len();
                content = j;
                tv.push(sub);
                proof {
                    let p2 = p + k;
                    lemma_encs_push(c0.subrange(0, p), tv_old, sub, tv_old.len());
                    assert(c0.subrange(0, p2).subrange(0, p) =~= c0.subrange(0, p));
                    assert(c0.subrange(0, p2).subrange(p, p2) =~= c0.subrange(p, c0.len() as int).subrange(0, k));
                    assert(content@ =~= c0.subrange(p2, c0.len() as int));
                    assert(tv@[tv@.len() - 1] == sub);
                }
            }
            proof { assert(c0.subrange(0, c0.len() as int) =~= c0); }

            PL::C(tv)
        }
    };
    proof {
        let n = (n1 + n2 + len) as int;
        let b = i0@.subrange(0, n);
        ax_type_local(i0@, n);
        ax_len_local(i0@.subrange(n1 as int, i0@.len() as int), n - n1);
        assert(b.subrange(n1 as int, n) =~= i0@.subrange(n1 as int, i0@.len() as int).subrange(0, n - n1));
        assert(b.subrange((n1 + n2) as int, n) =~= i0@.subrange((n1 + n2) as int, i0@.len() as int).subrange(0, len as int));
        assert(i@ =~= i0@.subrange(n, i0@.len() as int));
    }

    Ok((
        i,
        StructureTag {
            class,
            id,
            payload: pl,
        },
    ))
}
}
fn main(){}
