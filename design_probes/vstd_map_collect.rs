use vstd::prelude::*;
verus! {
pub struct RC { pub x: u8 }
pub struct ST { pub y: u8 }
pub fn build_tag(rc: RC) -> (r: ST) ensures r.y == rc.x { ST { y: rc.x } }

#[verifier::external_body]
pub fn verif_map_collect<T, U, F: Fn(T) -> U>(v: Vec<T>, f: F) -> (r: Vec<U>)
    requires forall|i: int| 0 <= i < v.len() ==> call_requires(f, (v@[i],)),
    ensures r.len() == v.len(), forall|i: int| 0 <= i < v.len() ==> call_ensures(f, (v@[i],), #[trigger] r@[i]),
{ v.into_iter().map(f).collect() }

fn enc(controls: Vec<RC>) -> (r: Vec<ST>)
    ensures r.len() == controls.len(), forall|i: int| 0 <= i < r.len() ==> r@[i].y == controls@[i].x
{
    verif_map_collect(controls, build_tag)
}
fn enc2(controls: Vec<RC>) -> (r: Vec<ST>)
    ensures r.len() == controls.len(), forall|i: int| 0 <= i < r.len() ==> r@[i].y == controls@[i].x
{
    controls.into_iter().map(build_tag).collect()
}
}
fn main(){}
