#![feature(allocator_api)]
use vstd::prelude::*;
verus! {
#[derive(PartialEq, Eq, Clone, Copy, Structural)]
pub enum TagClass { Universal, Application, Context, Private }
#[derive(PartialEq, Eq, Clone, Copy, Structural)]
pub enum TagStructure { Primitive, Constructed }
pub enum PL { P(Vec<u8>), C(Vec<StructureTag>) }
pub struct StructureTag { pub class: TagClass, pub id: u64, pub payload: PL }
pub struct IoErr {}
pub type IoResult<T> = Result<T, IoErr>;

pub uninterp spec fn ident(c: TagClass, s: TagStructure, id: u64) -> Seq<u8>;
pub uninterp spec fn len_octets(n: nat) -> Seq<u8>;

pub open spec fn ber(t: StructureTag) -> Seq<u8> decreases t, 0nat {
    match t.payload {
        PL::P(v) => ident(t.class, TagStructure::Primitive, t.id) + len_octets(v@.len()) + v@,
        PL::C(ch) => { let body = ber_list(ch@, ch@.len()); ident(t.class, TagStructure::Constructed, t.id) + len_octets(body.len()) + body },
    }
}
pub open spec fn ber_list(s: Seq<StructureTag>, n: nat) -> Seq<u8> decreases s, n {
    if n == 0 || n > s.len() { Seq::empty() } else { ber_list(s, (n - 1) as nat) + ber(s[n - 1]) }
}

#[verifier::external_body]
fn write_type(w: &mut Vec<u8>, class: TagClass, structure: TagStructure, id: u64)
    ensures final(w)@ == old(w)@ + ident(class, structure, id)
{ unimplemented!() }
#[verifier::external_body]
fn write_length(w: &mut Vec<u8>, length: usize)
    ensures final(w)@ == old(w)@ + len_octets(length as nat)
{ unimplemented!() }


pub uninterp spec fn iter_seq<T, I>(i: I) -> Seq<T>;
pub broadcast proof fn ax_iter_seq_vec<T>(v: Vec<T>) ensures #[trigger] iter_seq::<T, Vec<T>>(v) == v@ { admit(); }
pub assume_specification<T, A: std::alloc::Allocator, I: IntoIterator<Item = T>> [<Vec<T, A> as Extend<T>>::extend] (s: &mut Vec<T, A>, it: I)
    ensures final(s)@ == old(s)@ + iter_seq::<T, I>(it);

#[verifier::exec_allows_no_decreases_clause]
fn encode_inner(buf: &mut Vec<u8>, tag: StructureTag) -> (r: IoResult<()>)
    ensures r is Ok, final(buf)@ == old(buf)@ + ber(tag),
{
    broadcast use ax_iter_seq_vec;
    let structure = match tag.payload {
        PL::P(_) => TagStructure::Primitive,
        PL::C(_) => TagStructure::Constructed,
    };

    write_type(buf, tag.class, structure, tag.id);
    match tag.payload {
        PL::P(v) => {
            write_length(buf, v.len());
            buf.extend(v);
        }
        PL::C(tags) => {
            let ghost old_children = tags@;
            let mut tmp = Vec::new();
            for tag in it: tags
                invariant tmp@ == ber_list(tags@, it.index@ as nat), it.seq() == old_children,
            {
                encode_inner(&mut tmp, tag)?;
            }
            write_length(buf, tmp.len());
            buf.extend(tmp);
        }
    };

    Ok(())
}
}
fn main(){}
