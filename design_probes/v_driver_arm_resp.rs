use vstd::prelude::*;
use std::collections::{HashMap, HashSet};
verus! {
broadcast use vstd::std_specs::hash::group_hash_axioms;

pub struct StructureTag { pub id: u64, pub payload: Vec<u8> }
pub enum Tag { StructureTag(StructureTag), Null }
pub struct Control { pub x: u8 }
pub struct LdapResult { pub rc: u32 }
pub enum SearchItem { Entry(StructureTag), Referral(StructureTag), Done(LdapResult) }

#[verifier::external_body]
pub fn tag_into_result(t: Tag) -> LdapResult { unimplemented!() }

// abstract channel endpoints: each sender carries the ghost id of the operation that owns its receiver
#[verifier::external_body]
pub struct ItemSender { _p: u8 }
#[verifier::external_body]
pub struct ResultSender { _p: u8 }

impl ItemSender {
    pub uninterp spec fn owner(&self) -> i32;
    #[verifier::external_body]
    pub fn send(&self, v: (SearchItem, Vec<Control>)) -> (r: core::result::Result<(), (SearchItem, Vec<Control>)>) { unimplemented!() }
}
impl ResultSender {
    pub uninterp spec fn owner(&self) -> i32;
    #[verifier::external_body]
    pub fn send(self, v: (Tag, Vec<Control>)) -> (r: core::result::Result<(), (Tag, Vec<Control>)>) { unimplemented!() }
}

pub struct Conn {
    pub msgmap: (i32, HashSet<i32>),
    pub resultmap: HashMap<i32, ResultSender>,
    pub searchmap: HashMap<i32, ItemSender>,
}

pub enum Flow { Next, Break }

impl Conn {
    pub open spec fn wf(&self) -> bool {
        &&& forall|k: i32| self.resultmap@.contains_key(k) ==> #[trigger] self.resultmap@[k].owner() == k
        &&& forall|k: i32| self.searchmap@.contains_key(k) ==> #[trigger] self.searchmap@[k].owner() == k
    }

    fn arm_resp(&mut self, id: i32, tag: Tag, controls: Vec<Control>) -> (f: Flow)
        requires old(self).wf(), tag is StructureTag, old(self).searchmap@.contains_key(id) ==> (tag->StructureTag_0.id == 4 || tag->StructureTag_0.id == 25 || tag->StructureTag_0.id == 5 || tag->StructureTag_0.id == 19),
        ensures final(self).wf(),
            // frame: other ids untouched
            forall|k: i32| k != id ==> (final(self).resultmap@.contains_key(k) == old(self).resultmap@.contains_key(k)),
            forall|k: i32| k != id ==> (final(self).searchmap@.contains_key(k) == old(self).searchmap@.contains_key(k)),
            forall|k: i32| k != id ==> (final(self).msgmap.1@.contains(k) == old(self).msgmap.1@.contains(k)),
    {
                    if let Some(tx) = self.searchmap.get(&id) {
                        let protoop = if let Tag::StructureTag(protoop) = tag {
                            protoop
                        } else {
                            panic!("unmatched tag structure");
                        };
                        let (item, mut remove) = match protoop.id {
                            4 | 25 => (SearchItem::Entry(protoop), false),
                            5 => (SearchItem::Done(tag_into_result(Tag::StructureTag(protoop))), true),
                            19 => (SearchItem::Referral(protoop), false),
                            _ => panic!("unrecognized op id"),
                        };
                        if let Err(e) = tx.send((item, controls)) {
                            remove = true;
                        }
                        if remove {
                            self.searchmap.remove(&id);
                        }
                    } else if let Some(tx) = self.resultmap.remove(&id) {
                        if let Err(e) = tx.send((tag, controls)) {
                        }
                        let msgmap = &mut self.msgmap;
                        msgmap.1.remove(&id);
                    } else {
                    }
        Flow::Next
    }
}
} // verus!
fn main() {}
