use vstd::prelude::*;
verus! {
#[derive(PartialEq, Eq, Clone, Copy, Structural)]
pub enum TagClass { Universal, Application, Context, Private }
pub enum PL { P(Vec<u8>), C(Vec<StructureTag>) }
pub struct StructureTag { pub class: TagClass, pub id: u64, pub payload: PL }
impl Clone for StructureTag { #[verifier::external_body] fn clone(&self) -> (r: StructureTag) ensures r == *self { unimplemented!() } }
impl StructureTag {
    pub fn expect_constructed(self) -> (r: Option<Vec<StructureTag>>)
        ensures r == (match self.payload { PL::P(_) => None, PL::C(i) => Some(i) })
    { match self.payload { PL::P(_) => None, PL::C(i) => Some(i), } }
    pub fn expect_primitive(self) -> (r: Option<Vec<u8>>)
        ensures r == (match self.payload { PL::P(i) => Some(i), PL::C(_) => None })
    { match self.payload { PL::P(i) => Some(i), PL::C(_) => None, } }
}
pub enum Types { Eoc = 0, Boolean = 1, Integer = 2, OctetString = 4, Sequence = 16 }
#[derive(Clone, Copy)]
pub enum ControlType { PagedResults, PostReadResp }
pub struct RawControl { pub ctype: String, pub crit: bool, pub val: Option<Vec<u8>> }
pub struct Control(pub Option<ControlType>, pub RawControl);

#[verifier::external_type_specification]
#[verifier::external_body]
pub struct ExFromUtf8Error(std::string::FromUtf8Error);
pub uninterp spec fn valid_utf8(b: Seq<u8>) -> bool;
pub uninterp spec fn utf8_bytes(s: String) -> Seq<u8>;
pub assume_specification [String::from_utf8] (v: Vec<u8>) -> (r: Result<String, std::string::FromUtf8Error>)
    ensures valid_utf8(v@) ==> (r matches Ok(s) && utf8_bytes(s) == v@), !valid_utf8(v@) ==> r is Err;

pub struct ControlsTable {}
pub uninterp spec fn known(ctype: String) -> Option<ControlType>;
impl ControlsTable {
    #[verifier::external_body]
    pub fn get_copied(&self, k: &str) -> Option<ControlType> { unimplemented!() }
}

pub open spec fn wf_control(c: StructureTag) -> bool {
    c.payload matches PL::C(comp) && comp@.len() >= 1 && comp@.len() <= 3
    && (comp@[0].payload matches PL::P(o) && valid_utf8(o@))
    && (comp@.len() == 2 ==> ((comp@[1].id == 1 && (comp@[1].payload matches PL::P(b) && b@.len() >= 1)) || (comp@[1].id == 4 && comp@[1].payload is P)))
    && (comp@.len() == 3 ==> (comp@[1].id == 1 && (comp@[1].payload matches PL::P(b) && b@.len() >= 1) && comp@[2].payload is P))
}

#[verifier::exec_allows_no_decreases_clause]
pub fn parse_controls(t: StructureTag, table: &ControlsTable) -> (r: Vec<Control>)
    requires t.payload matches PL::C(cs) && forall|i: int| 0 <= i < cs@.len() ==> wf_control(#[trigger] cs@[i]),
{
    let tags = t.expect_constructed().expect("result sequence").into_iter();
    let mut ctrls = Vec::new();
    for ctrl in it: tags
        invariant forall|i: int| 0 <= i < it.seq().len() ==> wf_control(#[trigger] it.seq()[i]),
    {
        let mut components = ctrl.expect_constructed().expect("components").into_iter();
        let ctype = String::from_utf8(
            components
                .next()
                .expect("element")
                .expect_primitive()
                .expect("octet string"),
        )
        .expect("control type");
        let next = components.next();
        let (crit, maybe_val) = match next {
            None => (false, None),
            Some(c) => match c {
                StructureTag {
                    id, ref payload, ..
                } if id == Types::Boolean as u64 => match *payload {
                    PL::P(ref v) => (v[0] != 0, components.next()),
                    PL::C(_) => panic!("decoding error"),
                },
                StructureTag { id, .. } if id == Types::OctetString as u64 => {
                    (false, Some(c.clone()))
                }
                _ => panic!("decoding error"),
            },
        };
        let val = maybe_val.map(|v| v.expect_primitive().expect("octet string"));
        let known_type = table.get_copied(ctype.as_str());
        ctrls.push(Control(known_type, RawControl { ctype, crit, val }));
    }
    ctrls
}
}
fn main(){}
