#!/usr/bin/env python3
"""
run_verus.py -- build a Verus unit from /repo's working tree with lift.py, run the
verifier on it, and turn its diagnostics into *named obligations*.

result = run_unit(unit_name, repo, outdir, solver='z3') ->
  {
   'unit', 'status': 'ok' | 'failed' | 'undecided',
   'undecided_reason': str | None,
   'functions': [ {name, span, sha256, rules, subs, woven, clauses:[labels], native_sites:int, success:bool} ],
   'failed': [ {obligation, fn, label, kind, message, gen_line, src, rendered} ],
   'obligations': int, 'discharged': int,
   'verus': {verified, errors, smt_ms, total_ms, version},
   'canary': {'ran': bool, 'ok': bool, 'detail': ...},
   'assumption_scan': {...}, 'generated': path, 'generated_sha256': ...
  }
"""
import hashlib
import json
import os
import re
import subprocess
import sys
import time

sys.path.insert(0, os.path.dirname(os.path.abspath(__file__)))
import lift  # noqa: E402

VERIF = os.path.dirname(os.path.dirname(os.path.abspath(__file__)))

# Verus verification-failure messages (a diagnostic with any other error text means the unit could
# not be *decided*: type error against the prelude, unsupported construct, rlimit, ...).
FAIL_KINDS = [
    (r'^postcondition not satisfied', 'postcondition'),
    (r'^precondition not satisfied', 'precondition'),
    (r'^assertion failed', 'assertion'),
    (r'^invariant not satisfied at end of loop body', 'invariant-end'),
    (r'^invariant not satisfied before loop', 'invariant-entry'),
    (r'^loop invariant not', 'invariant'),
    (r'^possible arithmetic (underflow/)?overflow', 'overflow'),
    (r'^possible division by zero', 'div-zero'),
    (r'^decreases not satisfied', 'decreases'),
    (r'^could not prove termination', 'decreases'),
    (r'^possible bit shift underflow/overflow', 'shift-overflow'),
    (r'^unable to prove assertion safety condition', 'assert-safety'),
    (r'^cannot show invariant', 'invariant'),
    (r'^failed precondition', 'precondition'),
    (r'^unable to prove', 'other-proof-failure'),
    (r'^index out of bounds', 'index'),
    (r'^possible (.*)', 'other-proof-failure'),
]
UNDECIDED_MARKERS = [
    r'Resource limit \(rlimit\) exceeded', r'rlimit', r'not supported', r'unsupported',
    r'The verifier does not yet support', r'timed out', r'solver',
]

NATIVE_SITE_RX = re.compile(r'\.expect\(|\.unwrap\(\)|\bpanic!\(|\bassert\(|\bunreachable!\(')


def _run(cmd, cwd, timeout):
    t0 = time.time()
    try:
        p = subprocess.run(cmd, cwd=cwd, stdout=subprocess.PIPE, stderr=subprocess.PIPE,
                           timeout=timeout, text=True)
        return p.returncode, p.stdout, p.stderr, time.time() - t0, False
    except subprocess.TimeoutExpired as e:
        return -1, (e.stdout or b'').decode() if isinstance(e.stdout, bytes) else (e.stdout or ''), \
            (e.stderr or b'').decode() if isinstance(e.stderr, bytes) else (e.stderr or ''), time.time() - t0, True


def parse_diags(stderr):
    out = []
    for ln in stderr.splitlines():
        ln = ln.strip()
        if not ln.startswith('{'):
            continue
        try:
            d = json.loads(ln)
        except Exception:
            continue
        if d.get('$message_type') == 'diagnostic':
            out.append(d)
    return out


def classify(msg):
    for rx, k in FAIL_KINDS:
        if re.search(rx, msg):
            return k
    return None


def slug(s, n=70):
    s = re.sub(r'\s+', ' ', s.strip())
    return s[:n]


def fn_of_line(meta, line):
    for f in meta['functions']:
        a, b = f['gen_lines']
        if a <= line <= b:
            return f
    return None


def _resolve_span(s, gen_name):
    """follow macro expansion back to the generated file"""
    n = 0
    while s is not None and os.path.basename(s.get('file_name', '')) != gen_name and n < 10:
        e = s.get('expansion')
        s = e.get('span') if e else None
        n += 1
    return s


def name_obligation(unit, meta, gen_lines, d, seen, gen_name):
    """-> dict describing the failed obligation for diagnostic d."""
    kind = classify(d['message'])
    spans = [_resolve_span(s, gen_name) for s in d.get('spans', [])]
    spans = [s for s in spans if s is not None]
    prim = [s for s in spans if s.get('is_primary')]
    sec = [s for s in spans if not s.get('is_primary')]
    labels = meta['labels']
    label = None
    # label: any span line carrying a //# label (prefer the span Verus marks as the failed clause)
    pref = sorted(spans, key=lambda s: 0 if re.search(r'failed (this )?(pre|post)condition|invariant', s.get('label') or '') else 1)
    for s in pref:
        for ln in range(s['line_start'], s['line_end'] + 1):
            if ln in labels and (s['line_end'] - s['line_start']) < 6:
                label = labels[ln]
                break
        if label:
            break
    # owning function: a lifted function that contains any span
    fn = None
    site_line = None
    for s in prim + sec:
        f = fn_of_line(meta, s['line_start'])
        if f is not None:
            fn = f
            break
    # call-site / source site: the first span that maps to a source line
    src = None
    site_text = None
    for s in prim + sec:
        lm = meta['linemap'].get(s['line_start'])
        if lm and fn_of_line(meta, s['line_start']) is fn:
            src = '%s:%d' % (lm[0], lm[1])
            site_text = gen_lines[s['line_start'] - 1]
            site_line = s['line_start']
            # narrow to the highlighted columns when the span is on one line
            if s['line_start'] == s['line_end']:
                site_text = site_text[s['column_start'] - 1:s['column_end'] - 1] or site_text
            break
    fname = fn['name'] if fn else '(prelude)'
    if site_text is not None and 'panic!("verif")' in site_text:
        kind = 'panic'
    if src is not None and kind in ('panic', 'precondition', 'assertion', 'overflow', 'index'):
        # name the site by the repo's own source line
        try:
            f_, l_ = src.rsplit(':', 1)
            site_text = open(os.path.join(meta.get('repo', '/repo'), f_)).read().split('\n')[int(l_) - 1].strip()
        except Exception:
            pass
    if label and kind in ('postcondition', 'invariant-end', 'invariant-entry', 'invariant', 'decreases', 'assertion'):
        # a labelled clause of this function failed
        ob = '%s::%s::%s' % (unit, fname, label)
        if kind.startswith('invariant') and site_text is None:
            pass
    elif label and kind == 'precondition':
        # labelled precondition of a (stub) callee failed at a call site in fn
        ob = '%s::%s::%s@%s' % (unit, fname, label, slug(site_text or '?', 50))
    else:
        ob = '%s::%s::%s@%s' % (unit, fname, kind or 'error', slug(site_text or d['message'], 60))
    base = ob
    k = seen.get(base, 0) + 1
    seen[base] = k
    if k > 1:
        ob = '%s#%d' % (base, k)
    return {
        'obligation': ob, 'fn': fname, 'label': label, 'kind': kind, 'message': d['message'],
        'gen_line': site_line, 'src': src, 'rendered': d.get('rendered', ''),
    }


def scan_assumptions(gen):
    km = lift.mask(gen)
    counts = {}
    for key, rx in [('external_body', r'external_body'), ('assume_specification', r'\bassume_specification\b'),
                    ('assume', r'\bassume\s*\('), ('admit', r'\badmit\s*\('), ('axiom', r'\baxiom\b|broadcast\s+axiom'),
                    ('external_fn_specification', r'external_fn_specification'), ('external_type_specification', r'external_type_specification'),
                    ('uninterp', r'\buninterp\b'), ('exec_allows_no_decreases_clause', r'exec_allows_no_decreases_clause')]:
        counts[key] = sum(1 for _ in lift.code_finditer(gen, km, rx))
    return counts


def run_unit(unit, repo='/repo', outdir=None, solver='z3', canary=True, timeout=600, rlimit=None):
    outdir = outdir or os.path.join(VERIF, 'out')
    os.makedirs(outdir, exist_ok=True)
    template = os.path.join(VERIF, 'contracts', unit, 'unit.rs')
    res = {'unit': unit, 'engine': 'verus', 'status': 'undecided', 'undecided_reason': None, 'functions': [],
           'failed': [], 'obligations': 0, 'discharged': 0, 'verus': {}, 'canary': {'ran': False, 'ok': False},
           'solver': solver}
    t0 = time.time()
    try:
        gen, meta = lift.build_unit(template, repo)
    except lift.LiftError as e:
        res['undecided_reason'] = 'lifter: %s' % e
        res['wall_s'] = time.time() - t0
        return res
    meta['repo'] = repo
    meta['linemap'] = {int(k): v for k, v in meta['linemap'].items()}
    meta['labels'] = {int(k): v for k, v in meta['labels'].items()}
    gpath = os.path.join(outdir, unit.replace('-', '_') + '.rs')
    open(gpath, 'w').write(gen)
    res['generated'] = gpath
    res['generated_sha256'] = hashlib.sha256(gen.encode()).hexdigest()
    res['assumption_scan'] = scan_assumptions(gen)
    res['imports'] = meta.get('imports')
    gen_lines = gen.split('\n')

    cmd = ['verus', os.path.basename(gpath), '--output-json', '--time-expanded', '--error-format=json',
           '--multiple-errors', '30']
    try:
        ucfg = json.load(open(os.path.join(VERIF, 'contracts', 'registry.json')))['units'].get(unit, {})
    except Exception:
        ucfg = {}
    cmd += ucfg.get('verus_flags', [])
    rlimit = rlimit or ucfg.get('rlimit')
    if rlimit:
        cmd += ['--rlimit', str(rlimit)]
    if solver == 'cvc5':
        cmd += ['-V', 'cvc5', '-V', 'no-solver-version-check']
    res['checker_cmd'] = ' '.join(cmd)
    rc, so, se, wall, to = _run(cmd, outdir, timeout)
    if to:
        res['undecided_reason'] = 'verus timed out after %ds' % timeout
        res['wall_s'] = time.time() - t0
        return res
    try:
        j = json.loads(so[so.index('{'):])
    except Exception:
        j = {}
    vr = j.get('verification-results', {})
    times = j.get('times-ms', {})
    smt = times.get('smt', {})
    fb = []
    for mt in smt.get('smt-run-module-times', []):
        fb += mt.get('function-breakdown', [])
    res['verus'] = {
        'verified': vr.get('verified'), 'errors': vr.get('errors'), 'success': vr.get('success'),
        'smt_run_ms': smt.get('smt-run'), 'total_ms': times.get('total'),
        'version': (j.get('verus') or times.get('verus-build') or {}).get('version') if isinstance(j.get('verus'), dict) else None,
        'exit': rc,
    }
    if not res['verus']['version']:
        vb = times.get('verus-build') or {}
        res['verus']['version'] = vb.get('version')

    diags = [d for d in parse_diags(se) if d.get('level') == 'error']
    seen = {}
    undecided = []
    for d in diags:
        if d['message'].startswith('aborting due to'):
            continue
        k = classify(d['message'])
        if k is None:
            undecided.append(d['message'] + ' :: ' + slug((d.get('rendered') or ''), 300))
            continue
        res['failed'].append(name_obligation(unit, meta, gen_lines, d, seen, os.path.basename(gpath)))
    # Resource-limit diagnostics: the solver gave up on (part of) one function.  On their own they mean *undecided*.
    # When the same run also has definite failures (a named obligation that the verifier reports as not satisfied),
    # those stand -- giving up on further errors of a function does not retract the ones already reported -- and the
    # resource-limit messages are kept as notes.
    rl_notes = []
    for d in parse_diags(se):
        if re.search(r'rlimit|Resource limit', d.get('message', '')):
            rl_notes.append(d['message'])
    only_rl = [u for u in undecided if re.search(r'rlimit|Resource limit', u)]
    if res['failed'] and len(only_rl) == len(undecided):
        res['resource_limit_notes'] = sorted(set(rl_notes + only_rl))[:10]
        undecided = []
    else:
        undecided += rl_notes

    # per-function verdicts
    succ = {}
    for f in fb:
        succ[f['function'].split('::')[-1]] = f.get('success')
    for f in meta['functions']:
        a, b = f['gen_lines']
        body = '\n'.join(gen_lines[a - 1:b])
        clauses = [meta['labels'][i] for i in range(a, b + 1) if i in meta['labels']]
        native = sum(1 for _ in lift.code_finditer(body, lift.mask(body), NATIVE_SITE_RX))
        fq = f['name']
        res['functions'].append({
            'name': f['name'], 'span': f['span'], 'sha256': f['sha256'], 'rules': f['rules'], 'subs': f['subs'],
            'woven': f['woven'], 'clauses': clauses, 'native_sites': native,
            'success': succ.get(f['gen_fn']),
        })
    in_fn = set()
    for f in meta['functions']:
        in_fn.update(range(f['gen_lines'][0], f['gen_lines'][1] + 1))
    res['prelude_clauses'] = [lab for ln, lab in sorted(meta['labels'].items()) if ln not in in_fn]
    res['obligations'] = sum(len(f['clauses']) + f['native_sites'] for f in res['functions']) + len(res['prelude_clauses'])
    res['discharged'] = max(0, res['obligations'] - len(res['failed']))

    if undecided or (rc != 0 and not res['failed']) or vr.get('encountered-vir-error'):
        res['status'] = 'undecided'
        res['undecided_reason'] = '; '.join(undecided)[:2000] or ('verus exit %d without verification diagnostics: %s' % (rc, slug(se, 600)))
        res['wall_s'] = time.time() - t0
        return res
    # every lifted function must appear in Verus' breakdown (anti-vacuity (a))
    missing = [f['name'] for f in res['functions'] if f['success'] is None and not f.get('is_const') and not f['name'].startswith(('const ', 'enum ', 'struct '))]
    if missing:
        res['status'] = 'undecided'
        res['undecided_reason'] = 'no verification verdict reported for lifted function(s): %s' % ', '.join(missing)
        res['wall_s'] = time.time() - t0
        return res
    res['status'] = 'failed' if res['failed'] else 'ok'

    # canary run: same unit, every lifted function's ensures replaced by `ensures false`; each must FAIL
    if canary:
        try:
            cgen, cmeta = lift.build_unit(template, repo, canary=True)
            cpath = os.path.join(outdir, unit.replace('-', '_') + '__canary.rs')
            open(cpath, 'w').write(cgen)
            ccmd = ['verus', os.path.basename(cpath), '--output-json', '--time-expanded', '--error-format=json', '--multiple-errors', '1'] + ucfg.get('verus_flags', [])
            crc, cso, cse, cwall, cto = _run(ccmd, outdir, timeout)
            cj = json.loads(cso[cso.index('{'):]) if '{' in cso else {}
            cfb = []
            for mt in cj.get('times-ms', {}).get('smt', {}).get('smt-run-module-times', []):
                cfb += mt.get('function-breakdown', [])
            csucc = {f['function'].split('::')[-1]: f.get('success') for f in cfb}
            cfs = [f for f in cmeta['functions'] if f.get('is_canary')]
            not_failing = [f['name'] for f in cfs if csucc.get(f['gen_fn']) is not False]
            # prelude canaries (axiom consistency): every `*__canary` proof fn must fail as well
            pre_can = sorted(set(re.findall(r'\bfn\s+(\w+__canary)\b', cgen)) - set(f['gen_fn'] for f in cfs))
            not_failing += [n for n in pre_can if csucc.get(n) is not False]
            res['canary'] = {'ran': True, 'ok': not not_failing, 'functions_expected_to_fail': len(cfs) + len(pre_can),
                             'functions_that_verified_ensures_false': not_failing}
            if not_failing:
                res['status'] = 'undecided'
                res['undecided_reason'] = 'vacuity canary: `ensures false` verified for %s (contradictory precondition/axiom?)' % ', '.join(not_failing)
        except Exception as e:  # noqa
            res['canary'] = {'ran': True, 'ok': False, 'error': str(e)}
            res['status'] = 'undecided'
            res['undecided_reason'] = 'canary run failed: %s' % e
    res['wall_s'] = time.time() - t0
    return res


if __name__ == '__main__':
    import argparse
    ap = argparse.ArgumentParser()
    ap.add_argument('unit')
    ap.add_argument('--repo', default='/repo')
    ap.add_argument('--solver', default='z3')
    ap.add_argument('--no-canary', action='store_true')
    a = ap.parse_args()
    r = run_unit(a.unit, a.repo, solver=a.solver, canary=not a.no_canary)
    for f in r['failed']:
        print('FAILED', f['obligation'], '|', f['src'])
    print(json.dumps({k: v for k, v in r.items() if k not in ('failed',)}, indent=1)[:6000])
    print('status:', r['status'], r.get('undecided_reason'))
