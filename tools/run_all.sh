#!/bin/bash
# run every registered check (quick or thorough), a few at a time; prints one summary line per property
cd "$(dirname "$0")/.."
tier=${1:-quick}
par=${2:-4}
props=$(python3 -c "import json;print(' '.join(sorted(json.load(open('contracts/registry.json'))['properties'])))")
mkdir -p out/logs
echo $props | tr ' ' '\n' | xargs -P $par -I{} sh -c "./check {} $tier > out/logs/{}.$tier.log 2>&1; echo {} exit=\$? \$(tail -1 out/logs/{}.$tier.log)"
