#!/usr/bin/env python3
"""coverage.py -- which functions of /repo are verified text of some Verus unit (lifted on every run), which are
exercised by a Kani harness (real crate), and which are neither.  Informational: `python3 tools/coverage.py [repo]`."""
import glob, json, os, re, sys
HERE = os.path.dirname(os.path.abspath(__file__))
sys.path.insert(0, HERE)
import lift

def main(repo='/repo'):
    root = os.path.dirname(HERE)
    reg = json.load(open(os.path.join(root, 'contracts', 'registry.json')))
    covered = {}
    kani_targets = set()
    for u, uc in reg['units'].items():
        if uc['engine'] == 'verus':
            gen, meta = lift.build_unit(os.path.join(root, 'contracts', u, 'unit.rs'), repo)
            for f in meta['functions']:
                if f['name'].startswith(('const ', 'enum ', 'struct ')):
                    continue
                m = re.match(r'(\S+):(\d+)-(\d+)', f['span'])
                covered.setdefault(m.group(1), []).append((int(m.group(2)), int(m.group(3)), u, f['name']))
        else:
            for h in json.load(open(os.path.join(root, 'contracts', u, 'harnesses.json')))['harnesses']:
                if h.get('target'):
                    kani_targets.add(h['target'].split('::')[-1])
    total = under = 0
    for path in sorted(glob.glob(repo + '/src/**/*.rs', recursive=True) + glob.glob(repo + '/lber/src/**/*.rs', recursive=True)):
        rel = path[len(repo) + 1:]
        src = open(path).read()
        k = lift.mask(src)
        test_at = src.find('#[cfg(test)]')
        not_cov = []
        for m in lift.code_finditer(src, k, r'\bfn\s+(\w+)'):
            if test_at >= 0 and m.start() > test_at:
                continue
            total += 1
            ln = src.count('\n', 0, m.start()) + 1
            if any(c[0] <= ln <= c[1] for c in covered.get(rel, [])):
                under += 1
            elif m.group(1) in kani_targets:
                under += 1
                not_cov.append('%s@%d[kani]' % (m.group(1), ln))
            else:
                not_cov.append('%s@%d' % (m.group(1), ln))
        if not_cov:
            print('%-40s %s' % (rel, ' '.join(not_cov)))
    print('functions under a Verus contract or a Kani harness: %d of %d (non-test fn items)' % (under, total))

if __name__ == '__main__':
    main(*(sys.argv[1:2]))
