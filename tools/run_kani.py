#!/usr/bin/env python3
"""
run_kani.py -- Kani units.

In-place units (K-lber): a scratch copy of /repo's *working tree* lber crate gets proof modules appended
(`//@append <file>` sections of contracts/<unit>/harness.rs) and contract attributes inserted before named
functions (`//@contract <file> fn=<name>`); nothing else in the copied text changes.  The harness table
(contracts/<unit>/harnesses.json) gives for each harness: label, properties, level (complete|bounded),
tier, wall-clock cap, extra kani flags and the cover points that must be SATISFIED.

The scratch copy lives under a mkdtemp directory outside /repo and /verif and is removed at the end.
"""
import hashlib
import json
import os
import re
import shutil
import subprocess
import sys
import tempfile
import time
from concurrent.futures import ThreadPoolExecutor

VERIF = os.path.dirname(os.path.dirname(os.path.abspath(__file__)))
sys.path.insert(0, os.path.join(VERIF, 'tools'))
import lift  # noqa: E402

ENV = dict(os.environ, CARGO_NET_OFFLINE='true')


def parse_sections(text):
    secs = []
    cur = None
    for ln in text.split('\n'):
        st = ln.strip()
        if st.startswith('//@append ') or st.startswith('//@contract '):
            kw, _, rest = st[3:].partition(' ')
            kv = lift.parse_kv(rest)
            cur = {'kind': kw, 'file': kv['_'][0], 'fn': kv.get('fn'), 'lines': []}
            secs.append(cur)
        elif cur is not None:
            cur['lines'].append(ln)
    return secs


def _copy_lock(repo, dst):
    """the lock file pins the cached crate versions for offline builds; a worktree may not carry it (git-ignored)"""
    for cand in (os.path.join(repo, 'Cargo.lock'), '/repo/Cargo.lock'):
        if os.path.exists(cand):
            shutil.copy(cand, dst)
            return
    raise lift.LiftError('no Cargo.lock found in %s (needed to build offline)' % repo)


def prepare_scratch(unit, repo, scratch):
    """copy crate(s), apply sections; returns (crate_dir, provenance)"""
    cfg = json.load(open(os.path.join(VERIF, 'contracts', unit, 'harnesses.json')))
    prov = {'files': {}, 'contracts': []}
    if cfg['mode'] == 'inplace-lber':
        dst = os.path.join(scratch, 'lber')
        shutil.copytree(os.path.join(repo, 'lber'), dst, ignore=shutil.ignore_patterns('target'))
        _copy_lock(repo, os.path.join(dst, 'Cargo.lock'))
        with open(os.path.join(dst, 'Cargo.toml'), 'a') as f:
            f.write('\n[workspace]\n')
        os.makedirs(os.path.join(dst, '.cargo'), exist_ok=True)
        open(os.path.join(dst, '.cargo', 'config.toml'), 'w').write('[net]\noffline = true\n')
        root = scratch
        crate = dst
    elif cfg['mode'] == 'lifted-crate':
        # a generated package outside /repo and /verif: real lber (scratch copy, path dependency), whole files copied
        # unchanged (L3), single items lifted verbatim by name (fn / enum / impl), a hand-written lib.rs prelude and the
        # harness module.  Nothing in the copied or lifted text is edited.
        shutil.copytree(os.path.join(repo, 'lber'), os.path.join(scratch, 'lber'), ignore=shutil.ignore_patterns('target'))
        crate = os.path.join(scratch, 'kx')
        os.makedirs(os.path.join(crate, 'src'))
        os.makedirs(os.path.join(crate, '.cargo'))
        open(os.path.join(crate, '.cargo', 'config.toml'), 'w').write('[net]\noffline = true\n')
        open(os.path.join(crate, 'Cargo.toml'), 'w').write(cfg['cargo_toml'])
        _copy_lock(repo, os.path.join(crate, 'Cargo.lock'))
        udir = os.path.join(VERIF, 'contracts', unit)
        for src_rel, dst_rel in cfg.get('copy_files', {}).items():
            sp = os.path.join(repo, src_rel)
            if not os.path.exists(sp):
                raise lift.LiftError('%s: %s missing' % (unit, src_rel))
            txt = open(sp).read()
            prov['files'][src_rel] = {'sha256': hashlib.sha256(txt.encode()).hexdigest(), 'copied_whole_to': dst_rel}
            open(os.path.join(crate, dst_rel), 'w').write(txt)
        for dst_rel, spec in cfg.get('lift_items', {}).items():
            out = [spec.get('header', '')]
            for it in spec['items']:
                sp = os.path.join(repo, it['file'])
                src = open(sp).read()
                km = lift.mask(src)
                kw = {'fn': r'\bfn\s+', 'enum': r'\benum\s+', 'struct': r'\bstruct\s+', 'tstruct': r'\bstruct\s+'}[it['kind']]
                ms = [m for m in lift.code_finditer(src, km, kw + re.escape(it['name']) + r'\b')]
                if len(ms) != 1:
                    raise lift.LiftError('%s: item %s %s found %d times in %s' % (unit, it['kind'], it['name'], len(ms), it['file']))
                a = ms[0].start()
                ls = src.rfind('\n', 0, a) + 1
                # include the attribute / doc-comment lines directly above the item
                while ls > 0:
                    pl = src.rfind('\n', 0, ls - 1) + 1
                    prev = src[pl:ls].strip()
                    if prev.startswith('#[') or prev.startswith('///'):
                        ls = pl
                    else:
                        break
                if it['kind'] == 'tstruct':
                    e = a
                    while not (src[e] == ';' and km[e] == lift.CODE):
                        e += 1
                else:
                    b = src.index('{', a)
                    while km[b] != lift.CODE:
                        b = src.index('{', b + 1)
                    e = lift.match_close(src, km, b)
                text = src[ls:e + 1]
                prov['contracts'].append({'file': it['file'], 'item': '%s %s' % (it['kind'], it['name']),
                                          'sha256': hashlib.sha256(text.encode()).hexdigest(), 'lines': '%d-%d' % (src.count('\n', 0, ls) + 1, src.count('\n', 0, e) + 1)})
                out.append(text)
            open(os.path.join(crate, dst_rel), 'w').write('\n\n'.join(out) + '\n')
        shutil.copy(os.path.join(udir, 'lib.rs'), os.path.join(crate, 'src', 'lib.rs'))
        htext = open(os.path.join(udir, 'harness.rs')).read()
        # `//@append <file in the mini-crate>` sections are appended to that (copied) file so that private items are in
        # scope unchanged; the text before the first section is the separate harness module
        first = htext.find('//@append ')
        main_part = htext if first < 0 else htext[:first]
        open(os.path.join(crate, 'src', 'harness.rs'), 'w').write(main_part)
        if first >= 0:
            for sct in parse_sections(htext[first:]):
                tp = os.path.join(crate, sct['file'])
                if not os.path.exists(tp):
                    raise lift.LiftError('%s: append target %s missing in the mini-crate' % (unit, sct['file']))
                with open(tp, 'a') as f:
                    f.write('\n' + '\n'.join(sct['lines']).strip('\n') + '\n')
        return crate, cfg, prov
    else:
        raise RuntimeError('unknown mode')
    text = open(os.path.join(VERIF, 'contracts', unit, 'harness.rs')).read()
    for s in parse_sections(text):
        p = os.path.join(root, s['file'])
        if not os.path.exists(p):
            raise lift.LiftError('%s: file %s missing in working tree' % (unit, s['file']))
        src = open(p).read()
        prov['files'].setdefault(s['file'], {'sha256_before': hashlib.sha256(src.encode()).hexdigest()})
        body = '\n'.join(s['lines']).strip('\n') + '\n'
        if s['kind'] == 'append':
            src = src + '\n' + body
        else:
            k = lift.mask(src)
            ms = [m for m in lift.code_finditer(src, k, r'\bfn\s+' + re.escape(s['fn']) + r'\b')]
            # the first definition outside test modules
            if not ms:
                raise lift.LiftError('%s: fn %s not found in %s' % (unit, s['fn'], s['file']))
            m = ms[0]
            ls = src.rfind('\n', 0, m.start()) + 1
            src = src[:ls] + body + src[ls:]
            prov['contracts'].append({'file': s['file'], 'fn': s['fn'], 'attributes': body.strip()})
        open(p, 'w').write(src)
    return crate, cfg, prov


RESULT_RX = re.compile(r'VERIFICATION:- (SUCCESSFUL|FAILED)')


def run_harness(crate, h, cap, mem_gb=20):
    flags = ['-Z', 'function-contracts'] + h.get('flags', [])
    cmd = ['cargo', 'kani', '--harness', h.get('path', h['name']), '--exact'] + flags
    if h.get('playback', True):
        cmd += ['-Z', 'concrete-playback', '--concrete-playback=print']
    sh = 'ulimit -v %d; exec %s' % (mem_gb * 1024 * 1024, ' '.join("'%s'" % c for c in cmd))
    t0 = time.time()
    try:
        p = subprocess.run(['bash', '-c', sh], cwd=crate, env=ENV, stdout=subprocess.PIPE, stderr=subprocess.STDOUT,
                           text=True, timeout=cap)
        out, rc, to = p.stdout, p.returncode, False
    except subprocess.TimeoutExpired as e:
        out = e.stdout.decode() if isinstance(e.stdout, bytes) else (e.stdout or '')
        rc, to = -1, True
        subprocess.run(['pkill', '-f', crate], stdout=subprocess.DEVNULL, stderr=subprocess.DEVNULL)
    wall = time.time() - t0
    r = {'name': h['name'], 'cmd': ' '.join(cmd), 'wall_s': round(wall, 1), 'timed_out': to, 'exit': rc}
    m = RESULT_RX.search(out)
    r['verdict'] = m.group(1) if m else None
    # individual checks
    checks = re.findall(r'Check \d+: (\S+)\n\s+- Status: (\w+)\n\s+- Description: "([^"]*)"(?:\n\s+- Location: ([^\n]*))?', out)
    r['checks_total'] = len(checks)
    r['checks_failed'] = [{'id': c[0], 'desc': c[2], 'loc': c[3]} for c in checks if c[1] == 'FAILURE']
    r['covers'] = {c[2]: c[1] for c in checks if c[1] in ('SATISFIED', 'UNSATISFIABLE', 'UNREACHABLE') and '.cover.' in c[0]}
    r['unwinding_failed'] = [c[0] for c in checks if 'unwind' in c[0] and c[1] == 'FAILURE']
    mt = re.search(r'Verification Time: ([0-9.]+)s', out)
    r['cbmc_s'] = float(mt.group(1)) if mt else None
    # concrete playback
    pbs = re.findall(r'Concrete playback unit test for `[^`]*`:\n```\n(.*?)```', out, re.S)
    # keep the playbacks generated for failed checks first, cover witnesses last
    pbs.sort(key=lambda t: 1 if 'Check for `cover`' in t else 0)
    r['playback'] = '\n'.join(pbs) if pbs else None
    r['tail'] = out[-3000:]
    return r


def run_unit(unit, repo='/repo', tier='quick', only=None, jobs=6, props=None):
    res = {'unit': unit, 'engine': 'kani', 'status': 'undecided', 'undecided_reason': None, 'harnesses': [],
           'failed': [], 'obligations': 0, 'discharged': 0}
    t0 = time.time()
    scratch = tempfile.mkdtemp(prefix='verif_kani_')
    try:
        try:
            crate, cfg, prov = prepare_scratch(unit, repo, scratch)
        except lift.LiftError as e:
            res['undecided_reason'] = 'scratch preparation: %s' % e
            return res
        res['provenance'] = prov
        hs = [h for h in cfg['harnesses'] if (tier == 'thorough' or h.get('tier', 'quick') == 'quick')]
        if only:
            hs = [h for h in hs if h['name'] in only or h['label'] in only]
        if props:
            hs = [h for h in hs if set(props) & set(h['props'])]
        # compile once (codegen only) so that parallel harness runs only run CBMC
        t1 = time.time()
        p = subprocess.run(['cargo', 'kani', '--only-codegen', '-Z', 'function-contracts'] + cfg.get('flags', []), cwd=crate, env=ENV,
                           stdout=subprocess.PIPE, stderr=subprocess.STDOUT, text=True, timeout=1200)
        res['compile_s'] = round(time.time() - t1, 1)
        if p.returncode != 0:
            res['undecided_reason'] = 'kani compile failed: ' + p.stdout[-1500:]
            return res
        vm = re.search(r'Kani Rust Verifier ([0-9.]+)', p.stdout)
        res['kani_version'] = vm.group(1) if vm else None

        def one(h):
            cap = h.get('cap_s', 300) if tier == 'quick' else h.get('cap_thorough_s', h.get('cap_s', 300) * 3)
            return h, run_harness(crate, h, cap)
        with ThreadPoolExecutor(max_workers=jobs) as ex:
            results = list(ex.map(one, hs))
        undec = []
        for h, r in results:
            r.update({'label': h['label'], 'props': h['props'], 'level': h.get('level', 'complete'),
                      'target': h.get('target'), 'bound': h.get('bound')})
            ob = '%s::%s::%s' % (unit, h.get('target', h['name']), h['label'])
            r['obligation'] = ob
            res['obligations'] += 1
            if r['timed_out'] or r['verdict'] is None:
                undec.append('%s: %s' % (h['name'], 'timed out after %ss' % r['wall_s'] if r['timed_out'] else 'no verdict (exit %s)' % r['exit']))
                r['status'] = 'undecided'
            elif r['verdict'] == 'SUCCESSFUL':
                bad_cov = [d for d, s in r['covers'].items() if s != 'SATISFIED']
                if len(r['covers']) < h.get('covers', 0) or bad_cov:
                    undec.append('%s: cover points not all SATISFIED (%s)' % (h['name'], r['covers']))
                    r['status'] = 'undecided'
                elif r['checks_total'] == 0:
                    undec.append('%s: zero checks generated' % h['name'])
                    r['status'] = 'undecided'
                else:
                    r['status'] = 'ok'
                    res['discharged'] += 1
            else:
                only_unwind = r['checks_failed'] and all('unwind' in c['id'] for c in r['checks_failed'])
                if not r['checks_failed']:
                    # "VERIFICATION:- FAILED" without a single failed check: the back end died (out of memory under the
                    # ulimit, CBMC internal error).  That is a tool limit, not a verdict about the code.
                    why = 'out of memory' if re.search(r'[Oo]ut of memory|std::bad_alloc', r.get('tail') or '') else 'back end failed'
                    undec.append('%s: %s without any failed check (exit %s)' % (h['name'], why, r['exit']))
                    r['status'] = 'undecided'
                elif only_unwind:
                    undec.append('%s: unwinding assertion failed (bound too small), no property check failed' % h['name'])
                    r['status'] = 'undecided'
                else:
                    r['status'] = 'failed'
                    res['failed'].append({
                        'obligation': ob, 'fn': h.get('target'), 'label': h['label'], 'kind': 'kani-check', 'props': h['props'],
                        'message': '; '.join('%s: %s' % (c['id'], c['desc']) for c in r['checks_failed'][:6]),
                        'playback': r['playback'], 'harness': h['name'], 'src': h.get('target_file'),
                        'rendered': r['tail'][-1500:], 'replay': h.get('replay'),
                    })
            r.pop('tail', None) if r['status'] == 'ok' else None
            res['harnesses'].append(r)
        if undec:
            res['undecided'] = undec
        res['status'] = 'failed' if res['failed'] else ('undecided' if undec else 'ok')
        if undec and not res['failed']:
            res['undecided_reason'] = '; '.join(undec)
        return res
    finally:
        res['wall_s'] = round(time.time() - t0, 1)
        shutil.rmtree(scratch, ignore_errors=True)


if __name__ == '__main__':
    import argparse
    ap = argparse.ArgumentParser()
    ap.add_argument('unit')
    ap.add_argument('--repo', default='/repo')
    ap.add_argument('--tier', default='quick')
    ap.add_argument('--only', nargs='*')
    a = ap.parse_args()
    r = run_unit(a.unit, a.repo, a.tier, a.only)
    print(json.dumps(r, indent=1))
