#!/usr/bin/env python3
"""selftest.py -- MANIFEST.setup_cmd: nothing to build (the framework is Python + contract text);
checks that the verifiers answer and that the lifter's scanner passes its own unit tests."""
import os, subprocess, sys
sys.path.insert(0, os.path.dirname(os.path.abspath(__file__)))
import lift

def t_mask():
    s = 'let a = "x // y"; // c\nlet b = \'}\'; let c: &\'a str = r#"{"#; /* { */ fn f() { }'
    k = lift.mask(s)
    assert k[s.index('x //')] == lift.LIT
    assert k[s.index('// c')] == lift.COMMENT
    assert k[s.index("'}'") + 1] == lift.LIT
    assert k[s.index("'a") + 1] == lift.CODE
    assert k[s.index('{"#')] == lift.LIT
    assert k[s.index('/* {') + 3] == lift.COMMENT
    o = s.index('{ }')
    assert lift.match_close(s, k, o) == o + 2

def t_rules():
    t = lift.LText('{ warn!("a {}", x); let r = rx.await?; if x == std::i32::MAX { panic!("no {}", y); } assert_ne!(a, b, "m"); }', 1)
    lift.r3_log(t); lift.r2_await(t); lift.r7_asserts(t); lift.r7b_i32max(t)
    assert 'warn!' not in t.s and '.verif_await()?' in t.s and 'i32::MAX' in t.s and 'std::i32' not in t.s
    assert 'panic!("verif")' in t.s and 'assert((a) != (b))' in t.s, t.s

t_mask(); t_rules()
for cmd in (['verus', '--version'], ['cargo', 'kani', '--version']):
    p = subprocess.run(cmd, stdout=subprocess.PIPE, stderr=subprocess.STDOUT, text=True, env=dict(os.environ, CARGO_NET_OFFLINE='true'))
    print(' '.join(cmd), '->', p.stdout.strip().splitlines()[0] if p.stdout.strip() else p.returncode)
    if p.returncode != 0:
        sys.exit(1)
print('selftest ok')
