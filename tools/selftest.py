#!/usr/bin/env python3
"""selftest.py -- MANIFEST.setup_cmd: nothing to build (the framework is Python + contract text);
checks that the verifiers answer and that the lifter's scanner passes its own unit tests."""
import os, subprocess, sys
sys.path.insert(0, os.path.dirname(os.path.abspath(__file__)))
import lift

def t_mask():
    s = 'let a = "x // y"; // c\nlet b = \'}\'; let c: &\'a str = r#"{"#; /* { */ fn f() { }'
    k = lift.mask(s)
    assert k[s.index('x //')] == lift.LIT
    assert k[s.index('// c')] == lift.COMMENT
    assert k[s.index("'}'") + 1] == lift.LIT
    assert k[s.index("'a") + 1] == lift.CODE
    assert k[s.index('{"#')] == lift.LIT
    assert k[s.index('/* {') + 3] == lift.COMMENT
    o = s.index('{ }')
    assert lift.match_close(s, k, o) == o + 2

def t_rules():
    t = lift.LText('{ warn!("a {}", x); let r = rx.await?; if x == std::i32::MAX { panic!("no {}", y); } assert_ne!(a, b, "m"); }', 1)
    lift.r3_log(t); lift.r2_await(t); lift.r7_asserts(t); lift.r7b_i32max(t)
    assert 'warn!' not in t.s and '.verif_await()?' in t.s and 'i32::MAX' in t.s and 'std::i32' not in t.s
    assert 'panic!("verif")' in t.s and 'assert((a) != (b))' in t.s, t.s

def t_r11():
    t = lift.LText('opt(tag(b":dn"))(i); tag(b"")(i); let s = "b\\"x";', 1)
    assert lift.r11_bstr(t) == 2 and '&[58u8, 100u8, 110u8]' in t.s and '&[0u8; 0]' in t.s and '"b\\"x"' in t.s, t.s

def t_r12_and_cut_from():
    # R12 (call-argument replacement) and L4b (suffix cut) on a scratch source tree
    import tempfile, os, shutil
    d = tempfile.mkdtemp(prefix='lift_selftest_')
    try:
        os.makedirs(os.path.join(d, 'src'))
        open(os.path.join(d, 'src', 'a.rs'), 'w').write(
            'fn f(v: Vec<u8>) -> usize {\n    let mut n = 0;\n    let k = v.into_iter().filter_map(|x| { n += 1; if x > (1) { Some(x) } else { None } }).count();\n    let z = k + n;\n    z\n}\n')
        tpl = os.path.join(d, 'unit.rs')
        open(tpl, 'w').write('verus! {\n//@lift name=f file=src/a.rs fn=f\n//@ arg ".filter_map(|x|" => "&mut n"\n//@ spec\n    ensures true,\n//@end\n'
                             '//@lift name=f::tail file=src/a.rs fn=f as="fn f_tail(k: usize, n: usize) -> usize"\n//@ cut from "let z = k + n;"\n//@ spec\n    ensures true,\n//@end\n}\n')
        gen, meta = lift.build_unit(tpl, d)
        assert '.filter_map(&mut n).count()' in gen, gen
        assert 'Some(x)' not in gen.split('fn f_tail')[0], gen
        tail = gen.split('fn f_tail')[1]
        assert 'let z = k + n;' in tail and 'into_iter' not in tail, gen
        f0 = [f for f in meta['functions'] if f['name'] == 'f'][0]
        assert f0['rules'].get('R12') == 1, f0
        # R12b: only the closure is replaced, the other arguments stay
        open(os.path.join(d, 'src', 'b.rs'), 'w').write('fn g(v: Vec<u8>) -> bool {\n    v.iter().fold(false, |acc, x| { acc || *x > (1) })\n}\n')
        open(tpl, 'w').write('verus! {\n//@lift name=g file=src/b.rs fn=g\n//@ carg "|acc, x|" => "&v"\n//@ spec\n    ensures true,\n//@end\n}\n')
        gen, meta = lift.build_unit(tpl, d)
        assert '.fold(false, &v)' in gen, gen
    finally:
        shutil.rmtree(d)

def t_imports():
    # R14 / import fingerprint: parse `use` trees; a changed binding of a name used in lifted text is a LiftError unless mapped
    b = lift.parse_imports('use a::b::{c, d as e, f::{self, g}};\n#[cfg(x)]\nuse h::*;\npub(crate) use i::j;\nfn k() { use l::m; }\nmod t { use n::o; }\n')
    assert b == {'c': 'a::b::c', 'e': 'a::b::d', 'f': 'a::b::f', 'g': 'a::b::f::g', '*h::*': 'h::*', 'j': 'i::j'}, b
    import tempfile, os, shutil, json
    d = tempfile.mkdtemp(prefix='lift_selftest_')
    try:
        os.makedirs(os.path.join(d, 'repo', 'src')); os.makedirs(os.path.join(d, 'contracts', 'U'))
        srcp = os.path.join(d, 'repo', 'src', 'a.rs')
        open(srcp, 'w').write('use x::streaming::take;\nuse y::unused;\nfn f(n: usize) -> usize {\n    take(n)\n}\n')
        tpl = os.path.join(d, 'contracts', 'U', 'unit.rs')
        open(tpl, 'w').write('verus! {\n//@path x::streaming::take => take\n//@path x::complete::take => take_complete\n//@lift name=f file=src/a.rs fn=f\n//@ spec\n    ensures true,\n//@end\n}\n')
        repo = os.path.join(d, 'repo')
        gen, meta = lift.build_unit(tpl, repo, include_root=d)
        assert meta['imports'] == {'recorded': False}, meta['imports']
        lift.main([tpl, '--repo', repo, '--record-imports'])
        gen, meta = lift.build_unit(tpl, repo, include_root=d)
        assert meta['imports']['recorded'] and 'take(n)' in gen
        # mapped change: followed
        open(srcp, 'w').write('use x::complete::take;\nuse y::unused;\nfn f(n: usize) -> usize {\n    take(n)\n}\n')
        gen, meta = lift.build_unit(tpl, repo, include_root=d)
        assert 'take_complete(n)' in gen and meta['imports']['followed'], gen
        # alias to a mapped path
        open(srcp, 'w').write('use x::streaming::take;\nuse x::complete::take as tc;\nuse y::unused;\nfn f(n: usize) -> usize {\n    tc(n)\n}\n')
        gen, meta = lift.build_unit(tpl, repo, include_root=d)
        assert 'take_complete(n)' in gen, gen
        # unmapped change of a used name: undecided
        open(srcp, 'w').write('use z::other::take;\nuse y::unused;\nfn f(n: usize) -> usize {\n    take(n)\n}\n')
        try:
            lift.build_unit(tpl, repo, include_root=d)
            assert False, 'expected LiftError'
        except lift.LiftError as e:
            assert 'import of `take` changed' in str(e), e
        # change of an unused name: no effect
        open(srcp, 'w').write('use x::streaming::take;\nuse w::unused;\nfn f(n: usize) -> usize {\n    take(n)\n}\n')
        gen, meta = lift.build_unit(tpl, repo, include_root=d)
        assert 'take(n)' in gen
    finally:
        shutil.rmtree(d)
    # every Verus unit has its imports recorded
    import json as _j
    reg = _j.load(open(os.path.join(os.path.dirname(os.path.dirname(os.path.abspath(__file__))), 'contracts', 'registry.json')))
    for u, v in reg['units'].items():
        if v['engine'] == 'verus':
            assert os.path.exists(os.path.join(os.path.dirname(os.path.dirname(os.path.abspath(__file__))), 'contracts', u, 'imports.json')), 'imports.json missing for ' + u

def t_attribution():
    """every property named in a clause label must run the unit that holds the clause (labels of the shared include
    files are repeated in every unit and are exempt)"""
    import json, re
    root = os.path.dirname(os.path.dirname(os.path.abspath(__file__)))
    reg = json.load(open(os.path.join(root, 'contracts', 'registry.json')))
    bad = []
    for u, uc in reg['units'].items():
        if uc['engine'] == 'verus':
            text = open(os.path.join(root, 'contracts', u, 'unit.rs')).read()
            for inc in re.findall(r'^//@include (\S+)', text, re.M):
                if '/shared/' not in inc:
                    text += open(os.path.join(root, inc)).read()
            labs = set(re.findall(r'//#\s*([A-Za-z0-9_.:+\-]+)', text))
        else:
            labs = set(h['label'] for h in json.load(open(os.path.join(root, 'contracts', u, 'harnesses.json')))['harnesses'])
        for lab in labs:
            m = re.match(r'((?:C\d\d\+?)+)\.', lab)
            for p in (m.group(1).split('+') if m else []):
                if p in reg['properties'] and u not in reg['properties'][p]['units']:
                    bad.append((p, u, lab))
    assert not bad, 'clause labels name properties whose check does not run the unit: %s' % bad[:5]

t_mask(); t_rules(); t_r11(); t_r12_and_cut_from(); t_imports(); t_attribution()
for cmd in (['verus', '--version'], ['cargo', 'kani', '--version']):
    p = subprocess.run(cmd, stdout=subprocess.PIPE, stderr=subprocess.STDOUT, text=True, env=dict(os.environ, CARGO_NET_OFFLINE='true'))
    print(' '.join(cmd), '->', p.stdout.strip().splitlines()[0] if p.stdout.strip() else p.returncode)
    if p.returncode != 0:
        sys.exit(1)
print('selftest ok')
