#!/usr/bin/env python3
"""
replay.py -- for a failed obligation, write /verif/replay/<prop>/<slug>.txt holding the obligation name,
the verifier's own output and, where the back end gave a counterexample (Kani concrete playback), a small
program that calls the *real public API* of /repo with those values, together with that program's output.

make_replay(prop, failed, repo, tier) -> (path, found_input: bool)
"""
import json
import os
import re
import shutil
import subprocess
import tempfile

VERIF = os.path.dirname(os.path.dirname(os.path.abspath(__file__)))


def slug(s):
    return re.sub(r'[^A-Za-z0-9_.-]+', '_', s)[:120]


def playback_values(pb):
    """concrete_vals: Vec<Vec<u8>> = vec![ // comment \n vec![..], ...]  -> list of byte lists"""
    if not pb:
        return None
    vals = []
    for m in re.finditer(r'vec!\[([0-9,\s]*)\]', pb):
        body = m.group(1).strip()
        if body == '':
            vals.append([])
        else:
            vals.append([int(x) for x in body.split(',') if x.strip() != ''])
    # the outermost `vec![` of concrete_vals itself does not match (it contains comments/newlines with vec!)
    return vals


# replay program templates: kind -> (cargo deps, main.rs body using {ARGS})
TEMPLATES = {
    # i64 value(s) in the playback (8 little-endian bytes): encode through the public trait and decode independently
    'int': '''
extern crate lber;
use lber::structures::{ASNTag, Integer};
use lber::structure::PL;
use lber::common::TagClass;
fn dec(v: &[u8]) -> i64 { let mut a: i64 = if v[0] & 0x80 != 0 { -1 } else { 0 }; for b in v { a = (a << 8) | *b as i64; } a }
fn main() {
    let cands: Vec<i64> = vec![{I64S}];
    let mut bad = 0;
    for x in cands {
        let r = std::panic::catch_unwind(|| Integer { id: 2, class: TagClass::Universal, inner: x }.into_structure());
        match r {
            Err(_) => { println!("x={} -> PANIC", x); bad += 1; }
            Ok(st) => if let PL::P(v) = st.payload {
                let minimal = v.len() == 1 || !((v[0] == 0 && v[1] & 0x80 == 0) || (v[0] == 0xff && v[1] & 0x80 != 0));
                let ok = !v.is_empty() && v.len() <= 8 && dec(&v) == x && minimal;
                println!("x={} -> {:02x?} decodes to {} minimal={} => {}", x, v, if v.is_empty() {0} else {dec(&v)}, minimal, if ok {"ok"} else {"WRONG"});
                if !ok { bad += 1; }
            }
        }
    }
    if bad > 0 { println!("REPLAY: property violated on the real code"); std::process::exit(1); }
    println!("REPLAY: no violation reproduced");
}
''',
    'len': '''
extern crate lber; extern crate bytes;
use lber::structure::{StructureTag, PL};
use lber::common::TagClass;
fn spec_len(n: usize) -> Vec<u8> { if n < 128 { return vec![n as u8]; } let mut k = 8; while k > 1 && (n as u64 >> (8*(k-1))) == 0 { k -= 1; }
    let mut v = vec![0x80 | k as u8]; for j in (0..k).rev() { v.push(((n as u64 >> (8*j)) & 0xff) as u8); } v }
fn main() {
    let cands: Vec<u64> = vec![{U64S}];
    let mut bad = 0;
    for n in cands {
        let n = n as usize;
        if n > (1 << 26) { println!("n={} too large to allocate in a replay; skipped", n); continue; }
        let mut buf = bytes::BytesMut::new();
        lber::write::encode_into(&mut buf, StructureTag { class: TagClass::Universal, id: 4, payload: PL::P(vec![0u8; n]) }).unwrap();
        let want = spec_len(n);
        let got = &buf[1..1 + want.len().min(buf.len() - 1)];
        let ok = got == &want[..];
        println!("n={} length octets {:02x?} expected {:02x?} => {}", n, got, want, if ok {"ok"} else {"WRONG"});
        if !ok { bad += 1; }
    }
    if bad > 0 { println!("REPLAY: property violated on the real code"); std::process::exit(1); }
    println!("REPLAY: no violation reproduced");
}
''',
    # byte buffers: feed every prefix to the public parser and compare with the framing reference (X.690 8.1.3)
    'parse': '''
extern crate lber;
// Some(k): the header is complete and announces k bytes in total; None: the header itself is incomplete
fn need(b: &[u8]) -> Option<u128> {
    let n = b.len();
    if n < 2 { return None; }
    if b[1] < 128 { return Some(2 + b[1] as u128); }
    let k = (b[1] - 128) as usize;
    if n < 2 + k { return None; }
    let mut v: u128 = 0;
    for x in &b[2..2 + k] { v = (v << 8) | *x as u128; if v > u64::MAX as u128 { v &= u64::MAX as u128; } }
    Some(2 + k as u128 + v)
}
fn main() {
    let cands: Vec<Vec<u8>> = vec![{BYTES}];
    let mut bad = 0;
    for full in cands {
        for n in 0..=full.len() {
            let b = &full[..n];
            let r = std::panic::catch_unwind(|| lber::parse::parse_tag(b).map(|(rest, t)| (rest.len(), format!("{:?}", t))).map_err(|e| match e { lber::Err::Incomplete(_) => "Incomplete", lber::Err::Error(_) => "Error", lber::Err::Failure(_) => "Failure" }));
            let verdict = match (&r, need(b)) {
                (Err(_), _) => { bad += 1; "PANIC" }
                (Ok(Err("Incomplete")), Some(k)) if n as u128 >= k => { bad += 1; "WRONG: complete frame answered Incomplete" }
                (Ok(Ok(_)), Some(k)) if (n as u128) < k => { bad += 1; "WRONG: delivered before the last byte" }
                (Ok(Err(e)), Some(k)) if (n as u128) < k && *e != "Incomplete" => { bad += 1; "WRONG: incomplete frame rejected instead of awaited" }
                (Ok(Err(e)), None) if *e != "Incomplete" => { bad += 1; "WRONG: incomplete header rejected instead of awaited" }
                (Ok(Ok(_)), None) => { bad += 1; "WRONG: delivered before the header was complete" }
                _ => "ok",
            };
            println!("parse_tag({:02x?}) = {:?}  [{}]", b, r, verdict);
        }
    }
    if bad > 0 { println!("REPLAY: property violated on the real code"); std::process::exit(1); }
    println!("REPLAY: no violation reproduced");
}
''',
}


# replay programs against the ldap3 crate itself (escape functions): kind -> main.rs
TEMPLATES_LDAP3 = {
    'dnesc': '''
fn hexdig(n: u8) -> u8 { if n < 10 { b'0' + n } else { b'a' + (n - 10) } }
// RFC 4514 2.4 (hex form): specials anywhere, leading space or '#', trailing space
fn dn_esc(v: &[u8]) -> Vec<u8> {
    let mut o = vec![];
    for (i, &c) in v.iter().enumerate() {
        let special = b"\\"+,;<=>\\\\\\0".contains(&c) || (i == 0 && (c == b' ' || c == b'#')) || (i + 1 == v.len() && c == b' ');
        if special { o.push(b'\\\\'); o.push(hexdig(c >> 4)); o.push(hexdig(c & 15)); } else { o.push(c); }
    }
    o
}
fn main() {
    let cands: Vec<Vec<u8>> = vec![{BYTES}];
    let mut bad = 0;
    for b in cands {
        let s = match std::str::from_utf8(&b) { Ok(s) => s, Err(_) => { println!("{:02x?}: not UTF-8, skipped", b); continue; } };
        let got = std::panic::catch_unwind(|| ldap3::dn_escape(s).into_owned());
        let want = dn_esc(&b);
        match got {
            Err(_) => { println!("dn_escape({:?}) PANIC", s); bad += 1; }
            Ok(g) => { let ok = g.as_bytes() == &want[..]; println!("dn_escape({:?}) = {:?} expected {:?} => {}", s, g, String::from_utf8_lossy(&want), if ok {"ok"} else {"WRONG"}); if !ok { bad += 1; } }
        }
    }
    if bad > 0 { println!("REPLAY: property violated on the real code"); std::process::exit(1); }
    println!("REPLAY: no violation reproduced");
}
''',
    'ldapesc': '''
fn hexdig(n: u8) -> u8 { if n < 10 { b'0' + n } else { b'a' + (n - 10) } }
// RFC 4515 section 3: NUL ( ) * \\\\ as backslash + two hex digits
fn esc(v: &[u8]) -> Vec<u8> {
    let mut o = vec![];
    for &c in v { if c == 0 || c == b'(' || c == b')' || c == b'*' || c == b'\\\\' { o.push(b'\\\\'); o.push(hexdig(c >> 4)); o.push(hexdig(c & 15)); } else { o.push(c); } }
    o
}
fn main() {
    let cands: Vec<Vec<u8>> = vec![{BYTES}];
    let mut bad = 0;
    for b in cands {
        let s = match std::str::from_utf8(&b) { Ok(s) => s, Err(_) => { println!("{:02x?}: not UTF-8, skipped", b); continue; } };
        let got = std::panic::catch_unwind(|| { let e = ldap3::ldap_escape(s).into_owned(); let u = ldap3::ldap_unescape(e.clone()).map(|c| c.into_owned()); (e, u) });
        let want = esc(&b);
        match got {
            Err(_) => { println!("ldap_escape({:?}) PANIC", s); bad += 1; }
            Ok((e, u)) => {
                let ok = e.as_bytes() == &want[..] && matches!(&u, Ok(x) if x == s);
                println!("ldap_escape({:?}) = {:?} expected {:?}; unescaped back: {:?} => {}", s, e, String::from_utf8_lossy(&want), u.as_ref().ok(), if ok {"ok"} else {"WRONG"});
                if !ok { bad += 1; }
            }
        }
    }
    if bad > 0 { println!("REPLAY: property violated on the real code"); std::process::exit(1); }
    println!("REPLAY: no violation reproduced");
}
''',
}


def _byte_buffers(vals, prefix=()):
    """kani::any::<[u8; N]>() is played back one element at a time: runs of one-byte values form one buffer"""
    bufs, cur = [], []
    for v in vals:
        if len(v) == 1:
            cur.append(v[0])
        else:
            if cur:
                bufs.append(cur)
            cur = []
            if 1 < len(v) < 8:
                bufs.append(list(v))
    if cur:
        bufs.append(cur)
    return [list(prefix) + b for b in bufs if b][:8]


def run_ldap3_replay(kind, vals, repo):
    """build a tiny crate depending on the real ldap3 crate (copied from repo's working tree), run it."""
    bufs = _byte_buffers(vals or [])
    if kind not in TEMPLATES_LDAP3 or not bufs:
        return None
    src = TEMPLATES_LDAP3[kind].replace('{BYTES}', ', '.join('vec![%s]' % ', '.join(str(b) for b in v) for v in bufs))
    d = tempfile.mkdtemp(prefix='verif_replay_')
    try:
        os.makedirs(os.path.join(d, 'ldap3'))
        for item in ('src', 'lber', 'Cargo.toml'):
            sp = os.path.join(repo, item)
            if os.path.isdir(sp):
                shutil.copytree(sp, os.path.join(d, 'ldap3', item), ignore=shutil.ignore_patterns('target'))
            else:
                shutil.copy(sp, os.path.join(d, 'ldap3', item))
        # the copied manifest declares a workspace of its own; the replay crate lives outside it
        os.makedirs(os.path.join(d, 'rp', 'src'))
        open(os.path.join(d, 'rp', 'Cargo.toml'), 'w').write(
            '[package]\nname = "rp"\nversion = "0.0.0"\nedition = "2021"\n[dependencies]\n'
            'ldap3 = { path = "../ldap3", default-features = false }\n[workspace]\n')
        for cand in (os.path.join(repo, 'Cargo.lock'), '/repo/Cargo.lock'):
            if os.path.exists(cand):
                shutil.copy(cand, os.path.join(d, 'rp', 'Cargo.lock'))
                break
        open(os.path.join(d, 'rp', 'src', 'main.rs'), 'w').write(src)
        p = subprocess.run(['cargo', 'run', '--offline', '-q'], cwd=os.path.join(d, 'rp'), stdout=subprocess.PIPE,
                           stderr=subprocess.STDOUT, text=True, timeout=900, env=dict(os.environ, CARGO_NET_OFFLINE='true', RUSTFLAGS='-A warnings'))
        return {'program': src, 'exit': p.returncode, 'output': p.stdout[-4000:]}
    except Exception as e:  # noqa
        return {'program': src, 'exit': None, 'output': 'replay build/run failed: %s' % e}
    finally:
        shutil.rmtree(d, ignore_errors=True)


def _ints(vals, width):
    out = []
    for v in vals or []:
        if len(v) == width:
            out.append(int.from_bytes(bytes(v), 'little', signed=(width == 8)))
    return out


def run_replay_program(kind, vals, repo):
    """build a tiny crate depending on the real lber (copied from repo's working tree), run it."""
    prefix = []
    if kind == 'lenhdr':
        # the harness buffer starts at the length octets: put an OCTET STRING identifier in front
        kind, prefix = 'parse', [4]
    if kind in TEMPLATES_LDAP3:
        return run_ldap3_replay(kind, vals, repo)
    if kind not in TEMPLATES or not vals:
        return None
    src = TEMPLATES[kind]
    if kind == 'int':
        xs = [int.from_bytes(bytes(v), 'little', signed=True) for v in vals if len(v) == 8]
        if not xs:
            return None
        src = src.replace('{I64S}', ', '.join('%di64' % x for x in xs))
    elif kind == 'len':
        xs = [int.from_bytes(bytes(v), 'little', signed=False) for v in vals if len(v) == 8]
        if not xs:
            return None
        src = src.replace('{U64S}', ', '.join('%du64' % x for x in xs))
    else:
        # kani::any::<[u8; N]>() is played back one element at a time: runs of one-byte values form one buffer
        bufs, cur = [], []
        for v in vals:
            if len(v) == 1:
                cur.append(v[0])
            else:
                if cur:
                    bufs.append(cur)
                cur = []
                if 1 < len(v) < 8:
                    bufs.append(list(v))
        if cur:
            bufs.append(cur)
        bufs = [prefix + b for b in bufs if b][:8]
        if not bufs:
            return None
        src = src.replace('{BYTES}', ', '.join('vec![%s]' % ', '.join(str(b) for b in v) for v in bufs))
    d = tempfile.mkdtemp(prefix='verif_replay_')
    try:
        shutil.copytree(os.path.join(repo, 'lber'), os.path.join(d, 'lber'), ignore=shutil.ignore_patterns('target'))
        os.makedirs(os.path.join(d, 'rp', 'src'))
        open(os.path.join(d, 'rp', 'Cargo.toml'), 'w').write(
            '[package]\nname = "rp"\nversion = "0.0.0"\nedition = "2018"\n[dependencies]\nlber = { path = "../lber" }\nbytes = "1"\n[workspace]\n')
        for cand in (os.path.join(repo, 'Cargo.lock'), '/repo/Cargo.lock'):
            if os.path.exists(cand):
                shutil.copy(cand, os.path.join(d, 'rp', 'Cargo.lock'))
                break
        open(os.path.join(d, 'rp', 'src', 'main.rs'), 'w').write(src)
        p = subprocess.run(['cargo', 'run', '--offline', '-q'], cwd=os.path.join(d, 'rp'), stdout=subprocess.PIPE,
                           stderr=subprocess.STDOUT, text=True, timeout=600, env=dict(os.environ, CARGO_NET_OFFLINE='true'))
        return {'program': src, 'exit': p.returncode, 'output': p.stdout[-4000:]}
    except Exception as e:  # noqa
        return {'program': src, 'exit': None, 'output': 'replay build/run failed: %s' % e}
    finally:
        shutil.rmtree(d, ignore_errors=True)


def make_replay(prop, f, repo, tier):
    d = os.path.join(VERIF, 'replay', prop)
    os.makedirs(d, exist_ok=True)
    path = os.path.join(d, slug(f['obligation']) + '.txt')
    found = False
    parts = ['obligation: %s' % f['obligation'], 'property: %s' % prop, 'unit: %s' % f.get('unit'),
             'source: %s' % f.get('src'), 'verifier message: %s' % f.get('message'), '']
    vals = playback_values(f.get('playback'))
    rp = None
    if vals and f.get('replay'):
        rp = run_replay_program(f['replay'], vals, repo)
    if f.get('playback'):
        parts += ['--- Kani concrete playback (counterexample) ---', f['playback'], '']
    if rp:
        parts += ['--- replay program (calls the real public API of the working tree) ---', rp['program'],
                  '--- replay output (exit %s) ---' % rp['exit'], rp['output'], '']
        found = rp['exit'] == 1 and 'property violated on the real code' in rp['output']
    if not found:
        parts += ['no-failing-input-found: the verifier gave no counterexample that reproduces through the public API;',
                  'the failed obligation above passed on the unchanged tree and now fails.', '']
    parts += ['--- verifier output ---', f.get('rendered') or '']
    open(path, 'w').write('\n'.join(parts))
    return path, found
