#!/usr/bin/env python3
"""gen_manifest.py -- write MANIFEST.json from contracts/registry.json (single source of truth)."""
import json
import os

VERIF = os.path.dirname(os.path.dirname(os.path.abspath(__file__)))
reg = json.load(open(os.path.join(VERIF, 'contracts', 'registry.json')))

checks = []
for pid in sorted(reg['properties']):
    p = reg['properties'][pid]
    units = p['units'] + [u for u in p.get('thorough_units', []) if u not in p['units']]
    tb = []
    for u in units:
        tb += reg['units'][u].get('trusted_base', [])
    checks.append({
        'property_id': pid,
        'quick_cmd': './check %s quick' % pid,
        'thorough_cmd': './check %s thorough' % pid,
        'evidence_file': 'evidence/%s.json' % pid,
        'replay_cmd_template': 'cat {path}',
        'engine': ' + '.join(sorted(set(reg['units'][u]['engine'] for u in units))),
        'level_claimed': {'category': p['level'], 'text': p['claim'], 'design_ref': p.get('design_ref', 'DESIGN.md section 6 (%s)' % pid)},
        'level_note': p.get('level_note') or ('trusted base: ' + '; '.join(sorted(set(tb)))),
        'technique': p.get('technique', 'contract-based deductive verification of the real code (Verus on mechanically lifted functions; Kani on the real lber crate)'),
    })

man = {
    'version': 1,
    'setup_cmd': 'python3 tools/selftest.py',
    'hooks': {
        'guard': 'none',
        'enable': 'no hooks: the checks lift function text from /repo\'s working tree (Verus) or append #[cfg(kani)] proof modules to a scratch copy (Kani); /repo itself is never built with a verification flag',
        'baseline_off_cmd': 'cd /repo && cargo test --workspace --no-fail-fast --offline',
        'source_commits': reg.get('source_commits', []),
        'add_only': True,
    },
    'engines': [
        {'name': 'verus-lift', 'path': 'tools/lift.py + tools/run_verus.py', 'serves_properties': sorted(
            [pid for pid, p in reg['properties'].items() if any(reg['units'][u]['engine'] == 'verus' for u in p['units'] + p.get('thorough_units', []))]),
         'kind_free_text': 'Verus 0.2026.09.13 (SMT, unbounded) on function text lifted mechanically from /repo on every run, contracts woven from contracts/<unit>/unit.rs'},
        {'name': 'kani-inplace', 'path': 'tools/run_kani.py', 'serves_properties': sorted(
            [pid for pid, p in reg['properties'].items() if any(reg['units'][u]['engine'] == 'kani' for u in p['units'] + p.get('thorough_units', []))]),
         'kind_free_text': 'Kani 0.68 / CBMC 6.11 on a scratch copy of the real lber crate (proof modules appended, function contracts inserted as attributes) or on lifted mini-crates'},
    ],
    'checks': checks,
    'notes': reg.get('notes', ''),
    'not_applicable': reg.get('not_applicable', []),
}
json.dump(man, open(os.path.join(VERIF, 'MANIFEST.json'), 'w'), indent=1)
print('MANIFEST.json: %d checks, %d not_applicable' % (len(checks), len(man['not_applicable'])))
