#!/usr/bin/env python3
"""
mutate.py -- self-assessment of the contracts by syntactic mutation of the LIFTED source regions.

For every Verus unit, every lifted function span (file:first-last line, from the lifter's metadata) gets a few small
mutants (operator flips, literal tweaks, boolean flips, deletion of a one-line statement).  Each mutant is applied to a
scratch copy of the repository's sources and the unit is re-run.  Outcome per mutant:
    failed     -- a named obligation fails (the contracts notice the change)
    undecided  -- exit 2 (anchor lost / unsupported text): a blind spot, never an alarm
    ok         -- the unit still verifies: either the mutant is equivalent, or the contract is too weak (triage by hand)
This is NOT one of the registered checks; it is a tool for finding weak contracts.  Usage:
    python3 tools/mutate.py --units V-url,V-entry --per-fn 6 --jobs 8 --out /tmp/mut_report.json
"""
import argparse, json, os, random, re, shutil, subprocess, sys, tempfile, hashlib
from concurrent.futures import ProcessPoolExecutor
sys.path.insert(0, os.path.dirname(os.path.abspath(__file__)))
import lift

VERIF = os.path.dirname(os.path.dirname(os.path.abspath(__file__)))
KINDS = {'base'}
OPS = [(r'(?<![=!<>])==(?!=)', '!='), (r'!=', '=='), (r' <= ', ' < '), (r' >= ', ' > '), (r' && ', ' || '), (r' \|\| ', ' && '),
       (r' < (?![<=])', ' <= '), (r' > (?![>=])', ' >= '), (r'\+ 1\b', '+ 2'), (r'- 1\b', '- 2')]


def mutants_for(src, k, a, b, rng, per_fn):
    """candidate (offset_start, offset_end, new_text, description) inside src[a:b] on CODE characters"""
    cands = []
    seg = src[a:b]
    for rx, new in OPS:
        for m in re.finditer(rx, seg):
            s, e = a + m.start(), a + m.end()
            if all(k[i] == lift.CODE for i in range(s, e)):
                cands.append((s, e, new, '%s -> %s' % (src[s:e], new)))
    for m in re.finditer(r'\b(true|false)\b', seg):
        s, e = a + m.start(), a + m.end()
        if k[s] == lift.CODE:
            cands.append((s, e, 'false' if m.group(1) == 'true' else 'true', '%s flipped' % m.group(1)))
    for m in re.finditer(r'(?<![A-Za-z0-9_.])(\d+)(?![A-Za-z0-9_.])', seg):
        s, e = a + m.start(), a + m.end()
        if k[s] == lift.CODE and len(m.group(1)) <= 3:
            cands.append((s, e, str(int(m.group(1)) + 1), 'literal %s -> %d' % (m.group(1), int(m.group(1)) + 1)))
    if 'negate' in KINDS:
        for m in re.finditer(r'\bif (?!let\b)([^{};\n]+?) \{', seg):
            s_, e_ = a + m.start(1), a + m.end(1)
            if all(k[i] == lift.CODE or src[i] in '"\'' or k[i] == lift.LIT for i in range(s_, e_)):
                cands.append((s_, e_, '!(' + m.group(1) + ')', 'negated: if ' + m.group(1)[:50]))
    if 'none' in KINDS:
        for m in re.finditer(r'\bSome\(', seg):
            s_ = a + m.start()
            if k[s_] != lift.CODE:
                continue
            try:
                e_ = lift.match_close(src, k, s_ + 4)
            except Exception:
                continue
            # only value positions: `= Some(..)`, `(Some(..)`, `, Some(..)`, `=> Some(..)` , `return Some(..)`, start of tail line
            pre = src[max(0, s_ - 12):s_].rstrip()
            if pre.endswith(('=', '(', ',', '=>', 'return', '{')) and not pre.endswith(('==', '!=')) and 'let' not in src[src.rfind('\n', 0, s_):s_].split('=')[0] or pre.endswith('return'):
                if '\n' not in src[s_:e_ + 1]:
                    cands.append((s_, e_ + 1, 'None', 'Some(..) -> None: ' + src[s_:e_ + 1][:40]))
    if 'base' not in KINDS:
        cands = [c for c in cands if c[3].startswith(('negated', 'Some(..)'))]
    # delete a one-line statement (`    foo.bar(x);`), not a `let` (would not compile) and not a return
    off = a
    prev = '{'
    for ln in (seg.split('\n') if 'base' in KINDS else []):
        st = ln.strip()
        if st and st.endswith(';') and re.match(r'^[A-Za-z_*]', st) and not st.startswith(('let ', 'return', 'use ', 'break', 'continue')) \
                and st.count('(') == st.count(')') and st.count('{') == st.count('}') and prev.endswith((';', '{', '}')):
            if all(k[off + i] != lift.COMMENT for i in range(len(ln)) if not ln[i].isspace()):
                cands.append((off, off + len(ln), ' ' * (len(ln) - len(ln.lstrip())) + '/* deleted */', 'deleted: ' + st[:60]))
        if st and not st.startswith('//'):
            prev = st
        off += len(ln) + 1
    rng.shuffle(cands)
    seen, out = set(), []
    for c in cands:
        if (c[0], c[2]) in seen:
            continue
        seen.add((c[0], c[2]))
        out.append(c)
        if len(out) >= per_fn:
            break
    return out


def run_one(job):
    unit, rel, s, e, new, desc, fn, wt = job
    import run_verus
    p = os.path.join(wt, rel)
    orig = open(p).read()
    try:
        open(p, 'w').write(orig[:s] + new + orig[e:])
        r = run_verus.run_unit(unit, wt, outdir=os.path.join(wt, '.verif_out'), canary=False, timeout=300)
        return {'unit': unit, 'file': rel, 'line': orig.count('\n', 0, s) + 1, 'fn': fn, 'mutant': desc, 'status': r['status'],
                'reason': (r.get('undecided_reason') or '')[:160], 'failed': [f['obligation'] for f in r.get('failed', [])][:4]}
    finally:
        open(p, 'w').write(orig)


def worker(jobs_for_wt):
    return [run_one(j) for j in jobs_for_wt]


def main():
    ap = argparse.ArgumentParser()
    ap.add_argument('--units', default='')
    ap.add_argument('--per-fn', type=int, default=4)
    ap.add_argument('--jobs', type=int, default=8)
    ap.add_argument('--seed', type=int, default=1)
    ap.add_argument('--repo', default='/repo')
    ap.add_argument('--out', default='/tmp/mut_report.json')
    ap.add_argument('--kinds', default='base', help='comma list of: base (operators, literals, booleans, deletions), negate (if conditions), none (Some(x) -> None)')
    a = ap.parse_args()
    KINDS.clear(); KINDS.update(a.kinds.split(','))
    reg = json.load(open(os.path.join(VERIF, 'contracts', 'registry.json')))
    units = [u for u in (a.units.split(',') if a.units else reg['units']) if reg['units'][u]['engine'] == 'verus']
    rng = random.Random(a.seed)
    jobs = []
    for u in units:
        gen, meta = lift.build_unit(os.path.join(VERIF, 'contracts', u, 'unit.rs'), a.repo)
        for f in meta['functions']:
            if f.get('is_const') or f.get('is_canary'):
                continue
            m = re.match(r'^(.*):(\d+)-(\d+)$', f['span'])
            rel, l0, l1 = m.group(1), int(m.group(2)), int(m.group(3))
            src = open(os.path.join(a.repo, rel)).read()
            k = lift.mask(src)
            lines = src.split('\n')
            s0 = sum(len(x) + 1 for x in lines[:l0 - 1])
            e0 = sum(len(x) + 1 for x in lines[:l1])
            for (s, e, new, desc) in mutants_for(src, k, s0, e0, rng, a.per_fn):
                jobs.append([u, rel, s, e, new, desc, f['name']])
    print('mutants: %d over %d units' % (len(jobs), len(units)))
    # one scratch source tree per worker (plain copy of the tracked sources; no git, no target/)
    wts = []
    base = tempfile.mkdtemp(prefix='mutwt_')
    for i in range(a.jobs):
        w = os.path.join(base, 'w%d' % i)
        subprocess.run(['git', '-C', a.repo, 'worktree', 'add', '--detach', w, 'HEAD'], check=True, stdout=subprocess.DEVNULL, stderr=subprocess.DEVNULL)
        wts.append(w)
    buckets = [[] for _ in wts]
    for i, j in enumerate(jobs):
        buckets[i % len(wts)].append(j + [wts[i % len(wts)]])
    res = []
    try:
        with ProcessPoolExecutor(max_workers=len(wts)) as ex:
            for part in ex.map(worker, buckets):
                res += part
    finally:
        for w in wts:
            subprocess.run(['git', '-C', a.repo, 'worktree', 'remove', '--force', w], stdout=subprocess.DEVNULL, stderr=subprocess.DEVNULL)
        shutil.rmtree(base, ignore_errors=True)
    json.dump(res, open(a.out, 'w'), indent=1)
    from collections import Counter
    c = Counter(r['status'] for r in res)
    print(dict(c))
    for r in res:
        if r['status'] == 'ok':
            print('SURVIVED %s %s:%d %s  [%s]' % (r['unit'], r['file'], r['line'], r['fn'], r['mutant']))


if __name__ == '__main__':
    main()
