#!/usr/bin/env python3
"""
lift.py -- mechanical extraction ("lifting") of function text from /repo into a
Verus unit file, plus weaving of contract clauses.

A unit is a template file (contracts/<unit>/unit.rs).  Everything in it is plain
Verus (the unit's *prelude*: type shapes, spec functions, lemmas, contracted
stubs of callees) except for directive blocks of the form

    //@lift name=<label> file=<path under repo> fn=<name> [impl="<regex>"]
    //@          [arm="<select! arm head>" as="<fn signature>"]
    //@ rules R2 R3 R4 R7 ...        (default set: R2 R3 R7 R7b)
    //@ sub "<old text>" => "<new text>"       explicit, counted substitution
    //@ ret <name>                   `-> T` becomes `-> (<name>: T)`
    //@ attr <attribute text>        emitted verbatim before the fn
    //@ spec
    <requires / ensures / decreases clause lines; `//# label` names a clause>
    //@ loop <k> [iter=<name>]
    <invariant / decreases lines for the k-th loop keyword of the body>
    //@ closure at="<text at which the closure starts>" params="<typed params>" ret="<(r: U)>"
    <requires / ensures lines for that closure>
    //@ insert before|after|entry "<anchor text>"
    //@ insert loop-start|loop-end <k>      (structural: first/last position inside the k-th source loop's body)
    //@ insert after-let <name>             (structural: after the end of the statement `let [mut] <name> .. ;`)
    <ghost lines>
    //@end

which are replaced by the text of the function *as it stands in the repo's
working tree*, under the rewrites listed in DESIGN.md section 3.  Executable
tokens are never edited by weaving; the only edits of executable text are the
named rewrite rules and the explicit `sub` lines, every application of which is
counted and reported.

Exit status of the command line: 0 ok, 2 anchor lost / template error.
"""
import hashlib
import json
import os
import re
import shlex
import sys


class LiftError(Exception):
    pass


# --------------------------------------------------------------------------
# Rust-aware scanning
# --------------------------------------------------------------------------
CODE, COMMENT, LIT = 0, 1, 2


def mask(src):
    """kind[i] for every char: CODE, COMMENT, or LIT (string/char literal)."""
    n = len(src)
    kind = [CODE] * n
    i = 0
    while i < n:
        c = src[i]
        if c == '/' and i + 1 < n and src[i + 1] == '/':
            j = src.find('\n', i)
            if j < 0:
                j = n
            for k in range(i, j):
                kind[k] = COMMENT
            i = j
        elif c == '/' and i + 1 < n and src[i + 1] == '*':
            depth = 1
            j = i + 2
            while j < n and depth > 0:
                if src.startswith('/*', j):
                    depth += 1
                    j += 2
                elif src.startswith('*/', j):
                    depth -= 1
                    j += 2
                else:
                    j += 1
            for k in range(i, j):
                kind[k] = COMMENT
            i = j
        elif c == '"' or (c == 'b' and i + 1 < n and src[i + 1] == '"' and not _ident_before(src, i)):
            j = i + (2 if c == 'b' else 1)
            while j < n and src[j] != '"':
                if src[j] == '\\':
                    j += 1
                j += 1
            j = min(j + 1, n)
            for k in range(i, j):
                kind[k] = LIT
            i = j
        elif (c == 'r' or (c == 'b' and i + 1 < n and src[i + 1] == 'r')) and not _ident_before(src, i) and _raw_start(src, i):
            p = i + (2 if c == 'b' else 1)
            h = 0
            while p < n and src[p] == '#':
                h += 1
                p += 1
            end = src.find('"' + '#' * h, p + 1)
            j = n if end < 0 else end + 1 + h
            for k in range(i, j):
                kind[k] = LIT
            i = j
        elif c == "'":
            # char literal or lifetime
            if i + 2 < n and src[i + 1] == '\\':
                j = src.find("'", i + 2)
                j = n if j < 0 else j + 1
                for k in range(i, j):
                    kind[k] = LIT
                i = j
            elif i + 2 < n and src[i + 2] == "'":
                for k in range(i, i + 3):
                    kind[k] = LIT
                i += 3
            else:
                i += 1  # lifetime
        elif c == 'b' and i + 1 < n and src[i + 1] == "'" and not _ident_before(src, i):
            j = i + 2
            if j < n and src[j] == '\\':
                j += 1
            j = src.find("'", j + 1)
            j = n if j < 0 else j + 1
            for k in range(i, j):
                kind[k] = LIT
            i = j
        else:
            i += 1
    return kind


def _ident_before(src, i):
    return i > 0 and (src[i - 1].isalnum() or src[i - 1] == '_')


def _raw_start(src, i):
    p = i + (2 if src[i] == 'b' else 1)
    while p < len(src) and src[p] == '#':
        p += 1
    return p < len(src) and src[p] == '"' and (p > i + 1 or src[i + 1] == '"' or src[i] == 'b')


OPEN = {'{': '}', '(': ')', '[': ']'}
CLOSE = {v: k for k, v in OPEN.items()}


def match_close(src, kind, i):
    """index of the closer matching the opener at i (code chars only)."""
    assert src[i] in OPEN, (src[i], i)
    stack = []
    for j in range(i, len(src)):
        if kind[j] != CODE:
            continue
        c = src[j]
        if c in OPEN:
            stack.append(c)
        elif c in CLOSE:
            if not stack or stack[-1] != CLOSE[c]:
                raise LiftError("unbalanced delimiters near offset %d" % j)
            stack.pop()
            if not stack:
                return j
    raise LiftError("no closing delimiter for offset %d" % i)


def code_finditer(src, kind, pattern, start=0, end=None):
    """regex matches whose first char is CODE."""
    if end is None:
        end = len(src)
    rx = re.compile(pattern) if isinstance(pattern, str) else pattern
    for m in rx.finditer(src, start, end):
        if kind[m.start()] == CODE:
            yield m


def find_code_text(src, kind, text, start=0, end=None):
    """all offsets where the literal `text` occurs starting at a CODE char."""
    if end is None:
        end = len(src)
    out = []
    p = src.find(text, start, end)
    while p >= 0:
        if kind[p] == CODE:
            out.append(p)
        p = src.find(text, p + 1, end)
    return out


def end_of_expr(src, kind, i, stops=',;)'):
    """offset of the first char in `stops` (or unmatched closer) at depth 0 from i."""
    depth = 0
    j = i
    while j < len(src):
        if kind[j] == CODE:
            c = src[j]
            if c in OPEN:
                depth += 1
            elif c in CLOSE:
                if depth == 0:
                    return j
                depth -= 1
            elif depth == 0 and c in stops:
                return j
        j += 1
    return j


# --------------------------------------------------------------------------
# text with provenance
# --------------------------------------------------------------------------
def _split_top(s, sep=','):
    out, depth, cur = [], 0, ''
    for c in s:
        if c == '{':
            depth += 1
        elif c == '}':
            depth -= 1
        if c == sep and depth == 0:
            out.append(cur)
            cur = ''
        else:
            cur += c
    if cur.strip():
        out.append(cur)
    return out


def _use_tree(prefix, tree, out):
    tree = tree.strip()
    if not tree:
        return
    if tree.endswith('}') and '{' in tree:
        b = tree.index('{')
        head = tree[:b].strip()
        if head.endswith('::'):
            head = head[:-2]
        pre = (prefix + '::' + head) if (prefix and head) else (prefix or head)
        for part in _split_top(tree[b + 1:-1]):
            _use_tree(pre, part, out)
        return
    m = re.match(r'^(.*?)\s+as\s+(\w+)$', tree)
    path, alias = (m.group(1).strip(), m.group(2)) if m else (tree, None)
    full = (prefix + '::' + path) if prefix else path
    if path == 'self':
        full = prefix
    last = full.split('::')[-1]
    key = ('*' + full) if last == '*' else (alias or last)
    out[key] = '|'.join(sorted(set(filter(None, out.get(key, '').split('|'))) | {full}))


def parse_imports(src):
    """top-level `use` declarations of a source file: binding name -> path ('*<path>' for globs).  Declarations inside
    blocks (function bodies, `mod test { .. }`) are not top-level; those in function bodies travel with the lifted text."""
    k = mask(src)
    out = {}
    depth = 0
    i, n = 0, len(src)
    while i < n:
        if k[i] == CODE:
            c = src[i]
            if c == '{':
                depth += 1
            elif c == '}':
                depth -= 1
            elif depth == 0 and src.startswith('use', i) and (i == 0 or not (src[i - 1].isalnum() or src[i - 1] == '_')) and i + 3 < n and src[i + 3] in ' \t\n':
                j = i
                d2 = 0
                while j < n and not (src[j] == ';' and k[j] == CODE and d2 == 0):
                    if k[j] == CODE and src[j] == '{':
                        d2 += 1
                    elif k[j] == CODE and src[j] == '}':
                        d2 -= 1
                    j += 1
                decl = ''.join(ch for t_, ch in enumerate(src[i + 3:j]) if k[i + 3 + t_] == CODE)
                _use_tree('', ' '.join(decl.split()), out)
                i = j
        i += 1
    return out


class LText:
    """string + per-char origin (source line number or None for woven text)."""

    def __init__(self, s, first_line):
        self.s = s
        self.o = []
        ln = first_line
        for ch in s:
            self.o.append(ln)
            if ch == '\n':
                ln += 1
        self._k = None

    @property
    def k(self):
        if self._k is None:
            self._k = mask(self.s)
        return self._k

    def replace(self, a, b, new, keep_origin=False):
        org = self.o[a] if (keep_origin and a < len(self.o)) else None
        self.s = self.s[:a] + new + self.s[b:]
        self.o = self.o[:a] + [org] * len(new) + self.o[b:]
        self._k = None

    def insert(self, a, new):
        self.replace(a, a, new)


# --------------------------------------------------------------------------
# locating
# --------------------------------------------------------------------------
def locate_impl(src, kind, impl_rx):
    ms = list(code_finditer(src, kind, impl_rx))
    ms = [m for m in ms if True]
    if not ms:
        raise LiftError("impl header /%s/ not found" % impl_rx)
    spans = []
    for m in ms:
        b = src.find('{', m.end() - 1)
        while b >= 0 and kind[b] != CODE:
            b = src.find('{', b + 1)
        if b < 0:
            continue
        spans.append((b, match_close(src, kind, b)))
    return spans


def locate_fn(src, kind, name, spans, nth=None):
    """(fn_kw_offset, body_open, body_close) of `fn name` inside one of spans (nth: 1-based choice among several
    definitions of the same name, e.g. one per #[cfg])."""
    found = []
    for (a, b) in spans:
        for m in code_finditer(src, kind, r'\bfn\s+' + re.escape(name) + r'\b', a, b):
            # signature ends at first '{' at paren depth 0 (skip where-clauses etc.)
            j = m.end()
            depth = 0
            body = None
            while j < b:
                if kind[j] == CODE:
                    c = src[j]
                    if c in '([':
                        depth += 1
                    elif c in ')]':
                        depth -= 1
                    elif c == ';' and depth == 0:
                        break  # declaration without body
                    elif c == '{' and depth == 0:
                        body = j
                        break
                j += 1
            if body is not None:
                found.append((m.start(), body, match_close(src, kind, body)))
    if not found:
        raise LiftError("fn %s not found" % name)
    if nth is not None:
        if not (1 <= nth <= len(found)):
            raise LiftError("fn %s: nth=%d but %d definition(s) found" % (name, nth, len(found)))
        return found[nth - 1]
    if len(found) > 1:
        raise LiftError("fn %s is ambiguous (%d matches); give impl= or nth=" % (name, len(found)))
    return found[0]


def locate_arm(src, kind, fn_span, head):
    a, b = fn_span
    offs = find_code_text(src, kind, head, a, b)
    if len(offs) != 1:
        raise LiftError("select! arm head %r found %d times" % (head, len(offs)))
    j = offs[0] + len(head)
    while j < b and (kind[j] != CODE or src[j] != '{'):
        if kind[j] == CODE and not src[j].isspace():
            raise LiftError("select! arm %r is not followed by a block" % head)
        j += 1
    return j, match_close(src, kind, j)


# --------------------------------------------------------------------------
# rewrite rules (DESIGN.md section 3).  Each returns the number of applications.
# --------------------------------------------------------------------------
def _apply_all(t, finder):
    """finder(t) -> (a, b, new) or None; applied until exhausted."""
    n = 0
    while True:
        r = finder(t)
        if r is None:
            return n
        t.replace(*r)
        n += 1


def r2_await(t):
    def f(t):
        for m in code_finditer(t.s, t.k, r'\.await\b'):
            return (m.start(), m.end(), '.verif_await()')
    return _apply_all(t, f)


LOGMAC = r'\b(?:warn|debug|info|trace|error)!\s*\('


def r3_log(t):
    def f(t):
        for m in code_finditer(t.s, t.k, LOGMAC):
            op = m.end() - 1
            cl = match_close(t.s, t.k, op)
            j = cl + 1
            if j < len(t.s) and t.s[j] == ';':
                return (m.start(), j + 1, '')
            return (m.start(), cl + 1, '()')
    return _apply_all(t, f)


def r4_lock(t):
    def f(t):
        for m in code_finditer(t.s, t.k, r'self\s*\.\s*msgmap\s*\.\s*lock\(\)\s*\.\s*expect\('):
            op = m.end() - 1
            cl = match_close(t.s, t.k, op)
            return (m.start(), cl + 1, '&mut self.msgmap')
    return _apply_all(t, f)


def r4b_drop_guard(t):
    """after R4 the lock guard is a plain `&mut`; an explicit early `drop(msgmap);` releases nothing and is deleted
    (leaving it would hand the `&mut` to an unspecified function, which Verus treats as arbitrary mutation)"""
    def f(t):
        for m in code_finditer(t.s, t.k, r'\b(?:std::mem::|mem::)?drop\(\s*msgmap\s*\)\s*;'):
            return (m.start(), m.end(), '')
    return _apply_all(t, f)


def r5_flow(t):
    n = 0
    if any(True for _ in code_finditer(t.s, t.k, r'\b(?:loop|while|for)\b')):
        raise LiftError("R5: select! arm body contains a loop; break/continue rewrite would be unsound")

    def f_ret(t):
        for m in code_finditer(t.s, t.k, r'\breturn\s+(?!Flow::)'):
            e = end_of_expr(t.s, t.k, m.end(), stops=';,')
            return (m.start(), e, 'return Flow::Exit(' + t.s[m.end():e] + ')')
    n += _apply_all(t, f_ret)

    def f_brk(t):
        for m in code_finditer(t.s, t.k, r'\bbreak\b'):
            return (m.start(), m.end(), 'return Flow::Break')
    n += _apply_all(t, f_brk)

    def f_cont(t):
        for m in code_finditer(t.s, t.k, r'\bcontinue\b'):
            return (m.start(), m.end(), 'return Flow::Continue')
    n += _apply_all(t, f_cont)
    return n


def r6_block_on(t):
    """rt.block_on(async move { E })  ->  { E }   (also self.rt.block_on)"""
    def f(t):
        for m in code_finditer(t.s, t.k, r'\b(?:self\s*\.\s*)?rt\s*\.\s*block_on\s*\(\s*async\s+move\s*\{'):
            op = t.s.index('(', m.start())
            cl = match_close(t.s, t.k, op)
            bo = m.end() - 1
            bc = match_close(t.s, t.k, bo)
            if t.s[bc + 1:cl].strip() != '':
                raise LiftError("R6: unexpected text after async block in block_on")
            return (m.start(), cl + 1, t.s[bo:bc + 1])
    return _apply_all(t, f)


def split_args(s, kind):
    """split macro argument text at top-level commas."""
    out, depth, last = [], 0, 0
    for i, c in enumerate(s):
        if kind[i] != CODE:
            continue
        if c in OPEN:
            depth += 1
        elif c in CLOSE:
            depth -= 1
        elif c == ',' and depth == 0:
            out.append(s[last:i])
            last = i + 1
    out.append(s[last:])
    return [a.strip() for a in out if a.strip() != '']


def split_params(s):
    """split a typed parameter list at top-level commas (angle brackets count as delimiters here)."""
    out, depth, last = [], 0, 0
    for i, c in enumerate(s):
        if c in '([{<':
            depth += 1
        elif c in ')]}>' and not (c == '>' and i > 0 and s[i - 1] == '-'):
            depth -= 1
        elif c == ',' and depth == 0:
            out.append(s[last:i])
            last = i + 1
    out.append(s[last:])
    return [a.strip() for a in out if a.strip() != '']


def r7_asserts(t):
    def f(t):
        for m in code_finditer(t.s, t.k, r'\b(assert_ne|assert_eq|assert|debug_assert)!\s*\('):
            op = m.end() - 1
            cl = match_close(t.s, t.k, op)
            inner = t.s[op + 1:cl]
            args = split_args(inner, mask(inner))
            mac = m.group(1)
            if mac == 'assert_ne':
                new = 'assert((%s) != (%s))' % (args[0], args[1])
            elif mac == 'assert_eq':
                new = 'assert((%s) == (%s))' % (args[0], args[1])
            else:
                new = 'assert(%s)' % args[0]
            return (m.start(), cl + 1, new, True)
        for m in code_finditer(t.s, t.k, r'\b(panic|unimplemented|unreachable|todo)!\s*\((?!"verif"\))'):
            op = t.s.index('(', m.start())
            cl = match_close(t.s, t.k, op)
            return (m.start(), cl + 1, 'panic!("verif")', True)
    return _apply_all(t, f)


def r7b_i32max(t):
    def f(t):
        for m in code_finditer(t.s, t.k, r'\bstd::(i32|u32|i64|u64|usize|u8)::(MAX|MIN)\b'):
            return (m.start(), m.end(), '%s::%s' % (m.group(1), m.group(2)))
    return _apply_all(t, f)


def _bytes_of_bstr(body):
    """bytes denoted by the inside of a Rust byte-string literal b"..." (no raw strings)."""
    out, i = [], 0
    while i < len(body):
        c = body[i]
        if c != '\\':
            if ord(c) > 127:
                raise LiftError("R11: non-ASCII character in byte string literal")
            out.append(ord(c))
            i += 1
            continue
        e = body[i + 1]
        if e == 'x':
            out.append(int(body[i + 2:i + 4], 16))
            i += 4
        elif e in 'nrt\\0\'"':
            out.append({'n': 10, 'r': 13, 't': 9, '\\': 92, '0': 0, "'": 39, '"': 34}[e])
            i += 2
        else:
            raise LiftError("R11: unsupported escape \\%s in byte string literal" % e)
    return out


def r11_bstr(t):
    """R11: byte-string literal b"..." -> the array literal of the same bytes, &[b0u8, b1u8, ...] (same type &'static [u8; N],
    same value; Verus has no view for byte-string literals but knows array literals)."""
    def f(t):
        i = 0
        while i < len(t.s):
            if t.k[i] == LIT and t.s[i] == 'b' and t.s.startswith('b"', i) and (i == 0 or t.k[i - 1] != LIT):
                j = i + 2
                while t.s[j] != '"':
                    j += 2 if t.s[j] == '\\' else 1
                bs = _bytes_of_bstr(t.s[i + 2:j])
                if not bs:
                    # b"" : &'static [u8; 0]
                    return (i, j + 1, '&[0u8; 0]', True)
                # keep_origin: the replacement stands for source text (diagnostics map back to the source line)
                return (i, j + 1, '&[' + ', '.join('%du8' % b for b in bs) + ']', True)
            i += 1
    return _apply_all(t, f)


RULES = {
    'R11': r11_bstr,
    'R2': r2_await, 'R3': r3_log, 'R4': r4_lock, 'R4b': r4b_drop_guard, 'R5': r5_flow,
    'R6': r6_block_on, 'R7': r7_asserts, 'R7b': r7b_i32max,
}
DEFAULT_RULES = ['R6', 'R2', 'R3', 'R7', 'R7b']
RULE_ORDER = ['R6', 'R2', 'R3', 'R4', 'R4b', 'R5', 'R7', 'R7b', 'R11']


# --------------------------------------------------------------------------
# template parsing
# --------------------------------------------------------------------------
def parse_kv(s):
    out = {}
    lex = shlex.shlex(s, posix=True)
    lex.whitespace_split = True
    lex.commenters = ''
    for tok in lex:
        if '=' not in tok:
            out.setdefault('_', []).append(tok)
        else:
            k, v = tok.split('=', 1)
            out[k] = v
    return out


SUB_RX = re.compile(r'^\s*"((?:[^"\\]|\\.)*)"\s*=>\s*"((?:[^"\\]|\\.)*)"\s*(?:count=(\d+|\*))?\s*$')


def unesc(s):
    return s.replace('\\"', '"').replace('\\n', '\n').replace('\\\\', '\\')


class Directive:
    def __init__(self, head, line_no):
        self.head = parse_kv(head)
        self.line_no = line_no
        self.rules = list(DEFAULT_RULES)
        self.subs = []          # (old, new, count)
        self.ret = None
        self.attrs = []
        self.spec = []          # lines
        self.loops = {}         # k -> (iter, lines)
        self.closures = []      # (kv, lines)
        self.inserts = []       # (mode, anchor, lines)
        self.tails = []         # (kv, lines)   R9 tail binding
        self.rebinds = []       # (param, newname)  R10 parameter rebind
        self.cut = None         # (anchor, return expr)  L4 prefix lifting
        self.args = []          # (anchor, new argument text)  R12 call-argument replacement
        self.cargs = []         # (anchor, new text)  R12b closure-argument replacement


def parse_template(text):
    """-> list of items: ('text', str) | ('lift', Directive) | ('include', path)"""
    items = []
    lines = text.split('\n')
    i = 0
    buf = []
    while i < len(lines):
        ln = lines[i]
        st = ln.strip()
        if st.startswith('//@include '):
            if buf:
                items.append(('text', '\n'.join(buf) + '\n'))
                buf = []
            items.append(('include', st[len('//@include '):].strip()))
            i += 1
        elif st.startswith('//@const '):
            if buf:
                items.append(('text', '\n'.join(buf) + '\n'))
                buf = []
            items.append(('const', parse_kv(st[len('//@const '):])))
            i += 1
        elif st.startswith('//@item '):
            if buf:
                items.append(('text', '\n'.join(buf) + '\n'))
                buf = []
            items.append(('item', parse_kv(st[len('//@item '):])))
            i += 1
        elif st.startswith('//@path '):
            # R14: `//@path <canonical path> => <name in this unit's prelude>`; an identifier that the source file's `use`
            # declarations bind to that path is written as the prelude name in lifted text
            mm = re.match(r'^//@path\s+(\S+)\s*=>\s*(\w+)\s*$', st)
            if not mm:
                raise LiftError("bad //@path directive: %r" % st)
            items.append(('path', (mm.group(1), mm.group(2))))
            i += 1
        elif st.startswith('//@lift '):
            if buf:
                items.append(('text', '\n'.join(buf) + '\n'))
                buf = []
            head = st[len('//@lift '):]
            start_line = i + 1
            i += 1
            # continuation lines of the head: "//@   key=value"
            d = None
            section = None
            sec_lines = None
            heads = [head]
            body = []
            while i < len(lines) and lines[i].strip() != '//@end':
                body.append(lines[i])
                i += 1
            if i >= len(lines):
                raise LiftError("template line %d: //@lift without //@end" % start_line)
            i += 1  # skip //@end
            # head continuation
            j = 0
            while j < len(body) and body[j].strip().startswith('//@+'):
                heads.append(body[j].strip()[4:])
                j += 1
            d = Directive(' '.join(heads), start_line)

            def close_section():
                nonlocal section, sec_lines
                if section is None:
                    return
                kind, arg = section
                if kind == 'spec':
                    d.spec = sec_lines
                elif kind == 'loop':
                    kv = parse_kv(arg)
                    k = int(kv['_'][0])
                    d.loops[k] = (kv.get('iter'), sec_lines)
                elif kind == 'closure':
                    d.closures.append((parse_kv(arg), sec_lines))
                elif kind == 'tail':
                    d.tails.append((parse_kv(arg), sec_lines))
                elif kind == 'insert':
                    mm = re.match(r'^(before|after|entry)\s*(?:"((?:[^"\\]|\\.)*)")?\s*$', arg.strip())
                    ml = re.match(r'^(loop-start|loop-end)\s+(\d+)\s*$', arg.strip())
                    mlet = re.match(r'^(after-let|before-let)\s+(\w+)\s*$', arg.strip())
                    mla = re.match(r'^loop-after\s+(\d+)\s*$', arg.strip())
                    if mlet:
                        # structural anchor: after the END / before the START of the statement `let [mut] <name> .. ;`
                        d.inserts.append((mlet.group(1), mlet.group(2), sec_lines))
                        section, sec_lines = None, None
                        return
                    if mla:
                        # structural anchor: right after the k-th source loop
                        d.inserts.append(('loop-after', int(mla.group(1)), sec_lines))
                        section, sec_lines = None, None
                        return
                    if ml:
                        # structural anchor: first/last position inside the body of the k-th source loop
                        d.inserts.append((ml.group(1), int(ml.group(2)), sec_lines))
                    elif not mm:
                        raise LiftError("template line %d: bad insert directive %r" % (start_line, arg))
                    else:
                        d.inserts.append((mm.group(1), unesc(mm.group(2) or ''), sec_lines))
                section, sec_lines = None, None

            for ln2 in body[j:]:
                s2 = ln2.strip()
                if s2.startswith('//@'):
                    close_section()
                    rest = s2[3:].strip()
                    if rest == '':
                        continue
                    kw, _, arg = rest.partition(' ')
                    if kw == 'rules':
                        toks = arg.split()
                        for tk in toks:
                            if tk.startswith('-'):
                                if tk[1:] in d.rules:
                                    d.rules.remove(tk[1:])
                            elif tk.startswith('+'):
                                if tk[1:] not in d.rules:
                                    d.rules.append(tk[1:])
                            else:
                                raise LiftError("rules tokens must be +Rn / -Rn")
                    elif kw == 'sub':
                        mm = SUB_RX.match(arg)
                        if not mm:
                            raise LiftError("template line %d: bad sub %r" % (start_line, arg))
                        d.subs.append((unesc(mm.group(1)), unesc(mm.group(2)), -1 if mm.group(3) == '*' else int(mm.group(3) or 1)))
                    elif kw == 'ret':
                        d.ret = arg.strip()
                    elif kw == 'cut':
                        mf = re.match(r'^from\s+"((?:[^"\\]|\\.)*)"\s*$', arg.strip())
                        mm = re.match(r'^before\s+"((?:[^"\\]|\\.)*)"\s+return\s+"((?:[^"\\]|\\.)*)"\s*$', arg.strip())
                        if mf:
                            d.cut_from = unesc(mf.group(1))
                        elif not mm:
                            raise LiftError("template line %d: bad cut directive" % start_line)
                        else:
                            d.cut = (unesc(mm.group(1)), unesc(mm.group(2)))
                    elif kw == 'arg':
                        # R12 call-argument replacement: `arg "<anchor containing the call's '('>" => "<new argument text>"`
                        mm = SUB_RX.match(arg)
                        if not mm:
                            raise LiftError("template line %d: bad arg directive %r" % (start_line, arg))
                        d.args.append((unesc(mm.group(1)), unesc(mm.group(2))))
                    elif kw == 'carg':
                        # R12b closure-argument replacement: like `arg`, but only the CLOSURE that starts at the anchor is
                        # replaced; the call's other arguments (e.g. the initial value of a fold) stay verified text
                        mm = SUB_RX.match(arg)
                        if not mm:
                            raise LiftError("template line %d: bad carg directive %r" % (start_line, arg))
                        d.cargs.append((unesc(mm.group(1)), unesc(mm.group(2))))
                    elif kw == 'rebind':
                        a_, b_ = arg.split()
                        d.rebinds.append((a_, b_))
                    elif kw == 'attr':
                        d.attrs.append(arg.strip())
                    elif kw in ('spec', 'loop', 'closure', 'insert', 'tail'):
                        section = (kw, arg)
                        sec_lines = []
                    else:
                        raise LiftError("template line %d: unknown directive %r" % (start_line, kw))
                else:
                    if section is None:
                        if s2 != '' and not s2.startswith('//'):
                            raise LiftError("template line %d: stray text in lift block: %r" % (start_line, s2))
                    else:
                        sec_lines.append(ln2)
            close_section()
            items.append(('lift', d))
        else:
            buf.append(ln)
            i += 1
    if buf:
        items.append(('text', '\n'.join(buf)))
    return items


# --------------------------------------------------------------------------
# lifting one function
# --------------------------------------------------------------------------
LABEL_RX = re.compile(r"//#\s*([A-Za-z0-9_.:+\-]+)")


def loop_positions(t, body_open, body_close):
    """offsets of loop keywords (statement loops) in the body, in order."""
    out = []
    for m in code_finditer(t.s, t.k, r'\b(loop|while|for)\b', body_open, body_close):
        if m.group(1) == 'for':
            # skip `for<'a>` HRTB and `impl X for Y`
            after = t.s[m.end():m.end() + 1]
            if after == '<':
                continue
        out.append((m.start(), m.group(1)))
    return out


def loop_body_open(t, kw_off):
    """offset of the '{' that opens the loop body (first '{' at depth 0 not part of a struct literal).
    For `while`/`for` headers Rust forbids bare struct literals, so the first depth-0 '{' is the body
    -- except for `while { block } {}` (block condition), handled by skipping a block that directly
    follows the keyword."""
    j = kw_off
    m = re.match(r'(loop|while|for)\b', t.s[j:])
    j += m.end()
    kw = m.group(1)
    # block condition: `while { ... } {`
    p = j
    while p < len(t.s) and t.s[p].isspace():
        p += 1
    if kw == 'while' and t.s[p] == '{':
        p = match_close(t.s, t.k, p) + 1
        j = p
    depth = 0
    while j < len(t.s):
        if t.k[j] == CODE:
            c = t.s[j]
            if c in '([':
                depth += 1
            elif c in ')]':
                depth -= 1
            elif c == '{' and depth == 0:
                return j
        j += 1
    raise LiftError("loop body not found")


def lift_one(d, repo, canary=False, rename_suffix=None, path_map=None):
    h = d.head
    rel = h['file']
    path = os.path.join(repo, rel)
    if not os.path.exists(path):
        raise LiftError("source file %s missing" % rel)
    src = open(path, encoding='utf-8').read()
    kind = mask(src)
    if 'impl' in h:
        spans = locate_impl(src, kind, h['impl'])
    else:
        spans = [(0, len(src))]
    if 'block' in h:
        # L7: a block expression that is not a function body (e.g. the initialiser of a lazy_static item), located by
        # the text that precedes it; it becomes the body of a function with the signature given by as=
        h = dict(h)
        h.setdefault('fn', h.get('name', 'block'))
        fn_kw, b_open, b_close = 0, 0, len(src) - 1
    else:
        fn_kw, b_open, b_close = locate_fn(src, kind, h['fn'], spans, int(h['nth']) if 'nth' in h else None)
    info = {
        'name': h.get('name', h['fn']), 'file': rel, 'fn': h['fn'], 'impl': h.get('impl'),
        'rules': {}, 'subs': [], 'woven': [], 'labels': {},
    }

    def line_of(off):
        return src.count('\n', 0, off) + 1

    if 'block' in h:
        a_open, a_close = locate_arm(src, kind, (0, len(src)), h['block'])
        span = (a_open, a_close + 1)
        sig = h['as']
        body = LText(src[a_open:a_close + 1], line_of(a_open))
        info['block'] = h['block']
    elif 'arm' in h:
        a_open, a_close = locate_arm(src, kind, (b_open, b_close), h['arm'])
        span = (a_open, a_close + 1)
        sig = h['as']
        body = LText(src[a_open:a_close + 1], line_of(a_open))
        info['arm'] = h['arm']
    else:
        span = (fn_kw, b_close + 1)
        sig_text = src[fn_kw:b_open]
        body = LText(src[b_open:b_close + 1], line_of(b_open))
        sig = None
    info['span'] = '%s:%d-%d' % (rel, line_of(span[0]), line_of(span[1] - 1))
    info['sha256'] = hashlib.sha256(src[span[0]:span[1]].encode()).hexdigest()
    info['src_first_line'] = line_of(span[0])

    # L4 prefix lifting: keep the body up to (not including) the line that contains the anchor, then return the
    # given expression.  The lifted function is the *prefix* of the real one (e.g. the request construction that
    # precedes the channel set-up); what follows the cut is not verified text.
    # L4b suffix lifting: keep the body FROM the line that contains the anchor to the end; the variables in scope at that
    # point become parameters of the signature given by as=.  What precedes the cut is not verified text.
    if getattr(d, 'cut_from', None):
        anchor = d.cut_from
        offs = find_code_text(body.s, body.k, anchor)
        if len(offs) != 1:
            raise LiftError("%s: cut-from anchor %r found %d times" % (info['name'], anchor, len(offs)))
        ls = body.s.rfind('\n', 0, offs[0]) + 1
        depth = 0
        for j in range(1, ls):
            if body.k[j] == CODE:
                if body.s[j] in OPEN:
                    depth += 1
                elif body.s[j] in CLOSE:
                    depth -= 1
        if depth != 0:
            raise LiftError("%s: cut-from anchor is not at the top level of the body" % info['name'])
        info['cut_from'] = {'from': anchor, 'dropped_source_lines': body.s[:ls].count('\n')}
        body.replace(1, ls, '\n')
        if 'as' not in h:
            raise LiftError("%s: cut from needs as=\"fn ...\"" % info['name'])
        sig = h['as']
    if d.cut:
        anchor, retexpr = d.cut
        offs = find_code_text(body.s, body.k, anchor)
        if len(offs) != 1:
            raise LiftError("%s: cut anchor %r found %d times" % (info['name'], anchor, len(offs)))
        ls = body.s.rfind('\n', 0, offs[0]) + 1
        depth = 0
        for j in range(1, ls):
            if body.k[j] == CODE:
                if body.s[j] in OPEN:
                    depth += 1
                elif body.s[j] in CLOSE:
                    depth -= 1
        if depth != 0:
            raise LiftError("%s: cut anchor is not at the top level of the body" % info['name'])
        info['cut'] = {'before': anchor, 'returns': retexpr, 'dropped_source_lines': body.s[ls:].count('\n')}
        body.replace(ls, len(body.s), '    ' + retexpr + '\n}')
        if 'as' in h:
            sig = h['as']

    if 'R4' in d.rules and 'R4b' not in d.rules:
        d.rules.append('R4b')
    rules = [r for r in RULE_ORDER if r in d.rules]
    if 'arm' in h and 'R5' not in rules:
        rules.append('R5')
        rules = [r for r in RULE_ORDER if r in rules]

    # --- signature
    if sig is None:
        st = LText(sig_text, line_of(fn_kw))
        for r in rules:
            if r in ('R7b',):
                RULES[r](st)
        sig = st.s.rstrip()
    sig_l = LText(sig, line_of(fn_kw) if 'arm' not in h else line_of(span[0]))

    # --- body rewrites
    for r in rules:
        n = RULES[r](body)
        if n:
            info['rules'][r] = n
    # R14 import resolution: an identifier that the file's top-level `use` declarations bind to a path for which the unit
    # declares `//@path <path> => <prelude name>` is written as that prelude name (so `use a::b as c;` or a changed import
    # of an unchanged name is followed, not silently ignored)
    info['src_text'] = src[span[0]:span[1]]
    if path_map:
        binds = parse_imports(src)
        for nm, pth in binds.items():
            tgt = path_map.get(pth)
            if tgt and tgt != nm and not nm.startswith('*'):
                offs = [m_.start() for m_ in code_finditer(body.s, body.k, r'(?<![A-Za-z0-9_.:])' + re.escape(nm) + r'(?![A-Za-z0-9_])')]
                for p_ in reversed(offs):
                    body.replace(p_, p_ + len(nm), tgt, keep_origin=True)
                if offs:
                    info['rules']['R14'] = info['rules'].get('R14', 0) + len(offs)
                    info.setdefault('imports_followed', []).append({'name': nm, 'path': pth, 'as': tgt, 'count': len(offs)})

    # R12 call-argument replacement: the whole argument list of ONE call -- typically a closure that captures `&mut`
    # state, which is lifted separately as a block (L7) -- is replaced, whatever its text is; the anchor locates the call
    # (its first '(' is the call's opening parenthesis), so a change INSIDE the argument does not lose the anchor
    for (anchor, newarg) in d.args:
        offs = find_code_text(body.s, body.k, anchor)
        if len(offs) != 1:
            raise LiftError("%s: arg anchor %r found %d times" % (info['name'], anchor, len(offs)))
        po = offs[0] + anchor.index('(')
        pc = match_close(body.s, body.k, po)
        if pc is None or pc < 0:
            raise LiftError("%s: arg anchor %r: unbalanced call" % (info['name'], anchor))
        dropped = body.s[po + 1:pc]
        body.replace(po + 1, pc, newarg, keep_origin=True)
        info.setdefault('args', []).append({'anchor': anchor, 'new': newarg, 'dropped_sha256': hashlib.sha256(dropped.encode()).hexdigest(), 'dropped_lines': dropped.count('\n') + 1})
        info['rules']['R12'] = info['rules'].get('R12', 0) + 1
    for (anchor, newarg) in d.cargs:
        offs = find_code_text(body.s, body.k, anchor)
        if len(offs) != 1:
            raise LiftError("%s: carg anchor %r found %d times" % (info['name'], anchor, len(offs)))
        p0 = offs[0] + anchor.index('|')
        q = p0 + 1
        if body.s[q] != '|':
            depth_ = 0
            while q < len(body.s) and not (body.s[q] == '|' and depth_ == 0 and body.k[q] == CODE):
                if body.k[q] == CODE and body.s[q] in OPEN:
                    depth_ += 1
                elif body.k[q] == CODE and body.s[q] in CLOSE:
                    depth_ -= 1
                q += 1
        q += 1
        while q < len(body.s) and body.s[q].isspace():
            q += 1
        if body.s.startswith('->', q):
            q = body.s.index('{', q)
        if body.s[q] == '{':
            pe = match_close(body.s, body.k, q) + 1
        else:
            pe = end_of_expr(body.s, body.k, q)
        dropped = body.s[p0:pe]
        body.replace(p0, pe, newarg, keep_origin=True)
        info.setdefault('args', []).append({'anchor': anchor, 'new': newarg, 'closure_only': True, 'dropped_sha256': hashlib.sha256(dropped.encode()).hexdigest(), 'dropped_lines': dropped.count('\n') + 1})
        info['rules']['R12'] = info['rules'].get('R12', 0) + 1
    # explicit substitutions apply to signature + body
    for (old, new, cnt) in d.subs:
        tot = 0
        for t in (sig_l, body):
            offs = find_code_text(t.s, t.k, old)
            # allow anchors that begin inside literals too
            if not offs:
                p = t.s.find(old)
                offs = []
                while p >= 0:
                    offs.append(p)
                    p = t.s.find(old, p + 1)
            # a substitution text that starts (ends) with an identifier character must start (end) at a word boundary
            def _wb(p):
                if (old[0].isalnum() or old[0] == '_') and p > 0 and (t.s[p - 1].isalnum() or t.s[p - 1] == '_'):
                    return False
                e = p + len(old)
                if (old[-1].isalnum() or old[-1] == '_') and e < len(t.s) and (t.s[e].isalnum() or t.s[e] == '_'):
                    return False
                return True
            offs = [p for p in offs if _wb(p)]
            for p in reversed(offs):
                t.replace(p, p + len(old), new, keep_origin=True)
            tot += len(offs)
        # count=* : a pure renaming (e.g. a path prefix mapped to the prelude's mirror type), applied wherever it occurs
        if cnt != -1 and tot != cnt:
            raise LiftError("%s: sub %r expected %d occurrence(s), found %d" % (info['name'], old, cnt, tot))
        info['subs'].append({'old': old, 'new': new, 'count': tot})

    # R10 parameter rebind: `fn f(p: T) { body }` -> `fn f(p0: T) { let p = p0; body }` -- same semantics as Rust
    # shadowing; lets contracts and loop invariants name the original argument when the body shadows `p`
    for (pname, newname) in d.rebinds:
        m = re.search(r'(?<![A-Za-z0-9_])' + re.escape(pname) + r'\s*:', sig_l.s)
        if not m:
            raise LiftError("%s: rebind: parameter %s not found in signature" % (info['name'], pname))
        sig_l.replace(m.start(), m.start() + len(pname), newname)
        body.insert(1, '\n    let %s = %s;' % (pname, newname))
        info['rules']['R10'] = info['rules'].get('R10', 0) + 1

    # R13 `mut self` by-value receiver (not accepted by this Verus): `fn f(mut self, ..) { body }` becomes
    # `fn f(self, ..) { let mut verif_self = self; body[self := verif_self] }` -- Rust's own meaning of `mut self`;
    # in the woven contract `self` names the argument as passed
    mm = re.search(r'\(\s*mut\s+self\b', sig_l.s)
    if mm:
        a_ = sig_l.s.index('mut', mm.start())
        sig_l.replace(a_, a_ + len('mut') + (1 if sig_l.s[a_ + 3] == ' ' else 0), '')
        offs = [m_.start() for m_ in code_finditer(body.s, body.k, r'(?<![A-Za-z0-9_])self(?![A-Za-z0-9_])')]
        for p_ in reversed(offs):
            body.replace(p_, p_ + 4, 'verif_self', keep_origin=True)
        body.insert(1, '\n    let mut verif_self = self;')
        info['rules']['R13'] = 1

    if 'arm' in h:
        # append the fall-through value before the closing brace
        body.insert(len(body.s) - 1, '    Flow::Next\n    ')

    # --- weaving: closures first (anchors are text), then inserts, then loops
    for kv, lines in d.closures:
        at = kv['at']
        offs = find_code_text(body.s, body.k, at)
        if len(offs) != 1:
            raise LiftError("%s: closure anchor %r found %d times" % (info['name'], at, len(offs)))
        p = offs[0]
        if body.s[p] != '|':
            # allow `move |..|`
            mm = re.match(r'move\s*', body.s[p:])
            if mm:
                p += mm.end()
        if body.s[p] != '|':
            raise LiftError("%s: closure anchor %r does not start at a closure" % (info['name'], at))
        if body.s[p + 1] == '|':
            q = p + 1
        else:
            q = body.s.index('|', p + 1)
        orig_params = body.s[p + 1:q]
        names_o = [re.sub(r'[:].*', '', x).strip().lstrip('&').replace('mut ', '').strip() for x in orig_params.split(',') if x.strip()]
        params = kv.get('params', orig_params)
        names_n = [re.sub(r'[:].*', '', x, flags=re.S).strip() for x in split_params(params)]
        destr = kv.get('destructure')
        destr_pat = None
        if destr:
            # `|PAT: TY, rest..|` with a tuple/struct pattern (not supported as a closure parameter by this Verus) becomes
            # `|<destr>: TY', rest..| { let PAT = <destr>; ..` -- the same binding, one statement later (cf. R10)
            first = split_params(orig_params)[0]
            depth, cut = 0, -1
            for ix, ch in enumerate(first):
                if ch in '([{<':
                    depth += 1
                elif ch in ')]}>':
                    depth -= 1
                elif ch == ':' and depth == 0:
                    cut = ix
                    break
            destr_pat = (first[:cut] if cut >= 0 else first).strip()
            if not destr_pat.startswith('('):
                raise LiftError("%s: closure destructure: first parameter %r is not a tuple pattern" % (info['name'], first))
            if names_n[0] != destr:
                raise LiftError("%s: closure destructure: params must start with %s" % (info['name'], destr))
        elif [n.replace('mut ', '') for n in names_n] != names_o and 'params' in kv and not kv.get('renames'):
            raise LiftError("%s: closure params %r do not match source %r" % (info['name'], params, orig_params))
        # body extent
        j = q + 1
        while body.s[j].isspace():
            j += 1
        if body.s.startswith('->', j):
            # explicit return type `|..| -> T { .. }` (Rust requires a block here); the contract's ret= names the value
            if not kv.get('ret'):
                raise LiftError("%s: closure at %r has an explicit return type; give ret=\"(name: Type)\"" % (info['name'], at))
            j = body.s.index('{', j)
        if body.s[j] == '{':
            be = match_close(body.s, body.k, j) + 1
            has_block = True
        else:
            be = end_of_expr(body.s, body.k, j, stops=',;')
            has_block = False
        clause = '\n'.join(lines)
        ret = kv.get('ret', '')
        pre = '|%s|%s\n%s\n' % (params, (' -> ' + ret) if ret else '', clause)
        if destr_pat is not None and not has_block:
            raise LiftError("%s: closure destructure needs a block body" % info['name'])
        if has_block:
            if destr_pat is not None:
                body.insert(j + 1, ' let %s = %s;' % (destr_pat, destr))
            body.replace(p, j, pre)
        else:
            body.insert(be, ' }')
            body.replace(p, j, pre + '{ ')
        info['woven'].append({'kind': 'closure', 'at': at, 'lines': len(lines)})

    # R9 tail binding: `EXPR }` (the function's tail expression, starting at the anchor) becomes
    # `let verif_ret = EXPR; <ghost lines> verif_ret }` so that ghost hints can mention the returned value
    for kv, lines in d.tails:
        if 'whole' in kv.get('_', []):
            # structural anchor: the body is one single expression (no top-level `;`); it is bound as a whole
            at = '<whole body>'
            p = 1
            while body.s[p].isspace() or body.k[p] == COMMENT:
                p += 1
            depth = 0
            for j in range(p, len(body.s) - 1):
                if body.k[j] == CODE:
                    if body.s[j] in OPEN:
                        depth += 1
                    elif body.s[j] in CLOSE:
                        depth -= 1
                    elif body.s[j] == ';' and depth == 0:
                        raise LiftError("%s: tail whole: the body is not a single expression" % info['name'])
        elif 'last' in kv.get('_', []):
            # structural anchor: the function's tail expression = what follows the last top-level `;` or block-statement `}`
            at = '<tail expression>'
            endb_ = len(body.s) - 1
            te = endb_
            while te > 1 and body.s[te - 1].isspace():
                te -= 1
            depth, last = 0, 1
            for j in range(1, te - 1):
                if body.k[j] == CODE:
                    if body.s[j] in OPEN:
                        depth += 1
                    elif body.s[j] in CLOSE:
                        depth -= 1
                        if depth == 0 and body.s[j] == '}':
                            last = j + 1
                    elif body.s[j] == ';' and depth == 0:
                        last = j + 1
            p = last
            while body.s[p].isspace() or body.k[p] == COMMENT:
                p += 1
        else:
            at = unesc(kv['at'])
            offs = find_code_text(body.s, body.k, at)
            if len(offs) != 1:
                raise LiftError("%s: tail anchor %r found %d times" % (info['name'], at, len(offs)))
            p = offs[0]
        endb = len(body.s) - 1
        expr_end = endb
        while expr_end > p and body.s[expr_end - 1].isspace():
            expr_end -= 1
        # the anchor must start a top-level statement of the body and run to its end
        depth = 0
        for j in range(1, p):
            if body.k[j] == CODE:
                if body.s[j] in OPEN:
                    depth += 1
                elif body.s[j] in CLOSE:
                    depth -= 1
        if depth != 0:
            raise LiftError("%s: tail anchor is not at the top level of the body" % info['name'])
        if body.s[expr_end - 1] == ';':
            raise LiftError("%s: tail anchor does not reach a tail expression" % info['name'])
        body.insert(expr_end, ';\n' + '\n'.join(lines) + '\n    verif_ret')
        body.insert(p, 'let verif_ret = ')
        info['rules']['R9'] = info['rules'].get('R9', 0) + 1
        info['woven'].append({'kind': 'tail', 'at': at, 'lines': len(lines)})

    for mode, anchor, lines in d.inserts:
        txt = '\n'.join(lines) + '\n'
        if mode == 'entry':
            body.insert(1, '\n' + txt)
        elif mode == 'loop-after':
            lp = [(off, kw) for (off, kw) in loop_positions(body, 0, len(body.s)) if body.o[off] is not None]
            if anchor < 1 or anchor > len(lp):
                raise LiftError("%s: insert loop-after: loop %d not found (body has %d loops)" % (info['name'], anchor, len(lp)))
            bo = loop_body_open(body, lp[anchor - 1][0])
            bc = match_close(body.s, body.k, bo)
            le = body.s.find('\n', bc)
            le = len(body.s) - 1 if le < 0 else le + 1
            body.insert(le, txt)
        elif mode == 'before-let':
            ms_ = [m_ for m_ in code_finditer(body.s, body.k, r'\blet\s+(?:mut\s+)?\(?\s*(?:mut\s+)?' + re.escape(anchor) + r'\b') if body.o[m_.start()] is not None]
            if not ms_:
                raise LiftError("%s: insert before-let: no `let %s` in the body" % (info['name'], anchor))
            ls = body.s.rfind('\n', 0, ms_[0].start()) + 1
            body.insert(ls, txt)
        elif mode == 'after-let':
            ms_ = [m_ for m_ in code_finditer(body.s, body.k, r'\blet\s+(?:mut\s+)?\(?\s*(?:mut\s+)?' + re.escape(anchor) + r'\b') if body.o[m_.start()] is not None]
            if not ms_:
                raise LiftError("%s: insert after-let: no `let %s` in the body" % (info['name'], anchor))
            j = ms_[0].start()
            depth = 0
            while j < len(body.s):
                if body.k[j] == CODE:
                    c_ = body.s[j]
                    if c_ in OPEN:
                        depth += 1
                    elif c_ in CLOSE:
                        depth -= 1
                    elif c_ == ';' and depth == 0:
                        break
                j += 1
            le = body.s.find('\n', j)
            le = len(body.s) - 1 if le < 0 else le + 1
            body.insert(le, txt)
        elif mode in ('loop-start', 'loop-end'):
            lp = [(off, kw) for (off, kw) in loop_positions(body, 0, len(body.s)) if body.o[off] is not None]
            if anchor < 1 or anchor > len(lp):
                raise LiftError("%s: insert %s: loop %d not found (body has %d loops)" % (info['name'], mode, anchor, len(lp)))
            bo = loop_body_open(body, lp[anchor - 1][0])
            if mode == 'loop-start':
                body.insert(bo + 1, '\n' + txt)
            else:
                bc = match_close(body.s, body.k, bo)
                ls = body.s.rfind('\n', 0, bc) + 1
                if body.s[ls:bc].strip() == '':
                    body.insert(ls, txt)
                else:
                    body.insert(bc, '\n' + txt)
        else:
            offs = []
            p = body.s.find(anchor)
            while p >= 0:
                if body.o[p] is not None:
                    offs.append(p)
                p = body.s.find(anchor, p + 1)
            if not offs:
                # fall back to text woven earlier (e.g. the return expression of a cut)
                p = body.s.find(anchor)
                while p >= 0:
                    offs.append(p)
                    p = body.s.find(anchor, p + 1)
            if len(offs) != 1:
                raise LiftError("%s: insert anchor %r found %d times" % (info['name'], anchor, len(offs)))
            p = offs[0]
            if mode == 'before':
                ls = body.s.rfind('\n', 0, p) + 1
                body.insert(ls, txt)
            else:
                le = body.s.find('\n', p + len(anchor))
                le = len(body.s) - 1 if le < 0 else le + 1
                body.insert(le, txt)
        info['woven'].append({'kind': 'insert', 'mode': mode, 'anchor': anchor, 'lines': len(lines)})

    if d.loops:
        # loops are numbered over source positions (woven text has origin None)
        lp = [(off, kw) for (off, kw) in loop_positions(body, 0, len(body.s)) if body.o[off] is not None]
        for k in sorted(d.loops, reverse=True):
            if k < 1 or k > len(lp):
                raise LiftError("%s: loop %d not found (body has %d loops)" % (info['name'], k, len(lp)))
            off, kw = lp[k - 1]
            itname, lines = d.loops[k]
            bo = loop_body_open(body, off)
            clause = '\n' + '\n'.join(lines) + '\n'
            body.insert(bo, clause)
            if itname:
                if kw != 'for':
                    raise LiftError("%s: iter= given for a non-for loop" % info['name'])
                m = re.compile(r'\bin\b').search(body.s, off, bo)
                body.insert(m.end(), ' %s:' % itname)
            info['woven'].append({'kind': 'loop', 'k': k, 'lines': len(lines)})

    # --- assemble
    s = sig_l.s
    if rename_suffix:
        s = re.sub(r'\bfn\s+(\w+)', lambda m: 'fn ' + m.group(1) + rename_suffix, s, count=1)
    if d.ret:
        # find top-level `->` after the parameter list
        kk = mask(s)
        po = s.index('(')
        pc = match_close(s, kk, po)
        m = re.compile(r'->').search(s, pc)
        if not m:
            raise LiftError("%s: ret given but signature has no return type" % info['name'])
        wm = re.compile(r'\bwhere\b').search(s, m.end())
        e = wm.start() if wm else len(s)
        rt = s[m.end():e].strip()
        s = s[:m.end()] + ' (' + d.ret + ': ' + rt + ')' + (' ' + s[e:] if wm else '')
    spec_lines = list(d.spec)
    if canary:
        spec_lines = canary_spec(spec_lines)
    out = LText('', 0)
    head = ''.join(a + '\n' for a in d.attrs) + s + '\n' + '\n'.join(spec_lines) + '\n'
    out.s = head + body.s + '\n'
    out.o = [None] * len(head) + body.o + [None]
    info['woven'].append({'kind': 'spec', 'lines': len(spec_lines)})
    mg = re.search(r'\bfn\s+(\w+)', s)
    info['gen_fn'] = mg.group(1) if mg else info['fn']
    return out, info


def canary_spec(lines):
    """keep requires/decreases, replace the ensures list by `ensures false`."""
    out = []
    mode = None
    for ln in lines:
        st = ln.strip()
        mm = re.match(r'^(requires|ensures|decreases|recommends|no_unwind|opens_invariants)\b', st)
        if mm:
            mode = mm.group(1)
            if mode == 'ensures':
                continue
        if mode == 'ensures':
            continue
        out.append(ln)
    # ensures must precede decreases in Verus' clause order: requires, ensures, decreases
    dec = [i for i, l in enumerate(out) if re.match(r'^\s*decreases\b', l)]
    pos = dec[0] if dec else len(out)
    out.insert(pos, '    ensures false, //# canary')
    return out


def expand_includes(text, include_root, depth=0):
    if depth > 5:
        raise LiftError("include nesting too deep")
    out = []
    for ln in text.split('\n'):
        st = ln.strip()
        if st.startswith('//@include '):
            p = os.path.join(include_root, st[len('//@include '):].strip())
            if not os.path.exists(p):
                raise LiftError("include file %s missing" % p)
            out.append(expand_includes(open(p, encoding='utf-8').read().rstrip('\n'), include_root, depth + 1))
        else:
            out.append(ln)
    return '\n'.join(out)


def build_unit(template_path, repo, canary=False, include_root=None):
    include_root = include_root or os.path.dirname(os.path.dirname(os.path.dirname(os.path.abspath(template_path))))
    text = expand_includes(open(template_path, encoding='utf-8').read(), include_root)
    # prelude canaries: text between `//@canary-begin` and `//@canary-end` exists only in the canary build; the
    # functions in it (named `*__canary`, `ensures false`) must FAIL to verify (axiom-consistency check)
    keep, out_l = True, []
    for ln in text.split('\n'):
        st = ln.strip()
        if st == '//@canary-begin':
            keep = canary
            continue
        if st == '//@canary-end':
            keep = True
            continue
        if keep:
            out_l.append(ln)
    text = '\n'.join(out_l)
    items = parse_template(text)
    out_lines = []      # (text_line, src_file, src_line)
    infos = []
    path_map = {pth: nm for k_, (pth, nm) in [it for it in items if it[0] == 'path']}

    def emit_text(tx, origin=None):
        for ln in tx.split('\n'):
            out_lines.append((ln, None, None))

    for kind_, val in items:
        if kind_ == 'text':
            t = val[:-1] if val.endswith('\n') else val
            emit_text(t)
        elif kind_ == 'path':
            emit_text('// (R14) %s => %s' % val)
        elif kind_ == 'item':
            # L6: an `enum` / `struct` definition copied from the source; doc comments and attribute lines are dropped
            # (derive lists are re-stated in the directive), `pub(crate)` becomes `pub`.  Variants, discriminants,
            # field names, field order and field types are the repo's.
            path = os.path.join(repo, val['file'])
            if not os.path.exists(path):
                raise LiftError("source file %s missing" % val['file'])
            src = open(path, encoding='utf-8').read()
            km = mask(src)
            ms = list(code_finditer(src, km, r'\b' + val['kind'] + r'\s+' + re.escape(val['name']) + r'\b'))
            if len(ms) != 1:
                raise LiftError("%s %s found %d times in %s" % (val['kind'], val['name'], len(ms), val['file']))
            a = ms[0].start()
            b = src.index('{', a)
            while km[b] != CODE:
                b = src.index('{', b + 1)
            e = match_close(src, km, b)
            raw = src[a:e + 1]
            kept = []
            for ln in raw.split('\n'):
                st2 = ln.strip()
                if st2.startswith('///') or st2.startswith('//') or st2.startswith('#['):
                    continue
                kept.append(ln.replace('pub(crate) ', 'pub '))
            text = 'pub ' + '\n'.join(kept)
            if val.get('derive'):
                text = '#[derive(%s)]\n' % val['derive'] + text
            for old_t, new_t in [x.split('=>') for x in val.get('retype', '').split(';') if '=>' in x]:
                text = text.replace(old_t.strip(), new_t.strip())
            ln0 = src.count('\n', 0, a) + 1
            first = len(out_lines) + 1
            for k2, tl in enumerate(text.split('\n')):
                out_lines.append((tl, val['file'], ln0 if k2 == 0 else None))
            infos.append({'name': '%s %s' % (val['kind'], val['name']), 'file': val['file'], 'fn': val['name'], 'gen_fn': None, 'impl': None,
                          'rules': {'L6': 1}, 'subs': [], 'woven': [], 'labels': {}, 'span': '%s:%d-%d' % (val['file'], ln0, src.count('\n', 0, e) + 1),
                          'sha256': hashlib.sha256(raw.encode()).hexdigest(), 'gen_lines': [first, len(out_lines)],
                          'is_canary': False, 'is_const': True})
        elif kind_ == 'const':
            # L5: a `const NAME: T = V;` item copied verbatim (visibility dropped)
            path = os.path.join(repo, val['file'])
            if not os.path.exists(path):
                raise LiftError("source file %s missing" % val['file'])
            src = open(path, encoding='utf-8').read()
            km = mask(src)
            ms = list(code_finditer(src, km, r'\bconst\s+' + re.escape(val['name']) + r'\b'))
            if len(ms) != 1:
                raise LiftError("const %s found %d times in %s" % (val['name'], len(ms), val['file']))
            a = ms[0].start()
            e = a
            while e < len(src) and not (src[e] == ';' and km[e] == CODE):
                e += 1
            # (`&str` in a const item is `&'static str`; Verus wants it spelled out)
            text = 'pub ' + re.sub(r':\s*&str\b', ": &'static str", src[a:e + 1], count=1)
            ln = src.count('\n', 0, a) + 1
            out_lines.append((text, val['file'], ln))
            infos.append({'name': 'const ' + val['name'], 'file': val['file'], 'fn': val['name'], 'gen_fn': None, 'impl': None,
                          'rules': {}, 'subs': [], 'woven': [], 'labels': {}, 'span': '%s:%d-%d' % (val['file'], ln, ln),
                          'sha256': hashlib.sha256(src[a:e + 1].encode()).hexdigest(), 'gen_lines': [len(out_lines), len(out_lines)],
                          'is_canary': False, 'is_const': True})
        else:
            variants = [(False, None)]
            if canary and val.head.get('canary') != 'skip':
                variants.append((True, '__canary'))
            for (is_canary, suffix) in variants:
                lt, info = lift_one(val, repo, canary=is_canary, rename_suffix=suffix, path_map=path_map)
                info['is_canary'] = is_canary
                first_gen = len(out_lines) + 1
                # split into lines with origin
                cur = []
                cur_o = None
                for ch, o in zip(lt.s, lt.o):
                    if ch == '\n':
                        out_lines.append((''.join(cur), info['file'] if cur_o else None, cur_o))
                        cur, cur_o = [], None
                    else:
                        cur.append(ch)
                        if cur_o is None and o is not None and not ch.isspace():
                            cur_o = o
                if cur:
                    out_lines.append((''.join(cur), info['file'] if cur_o else None, cur_o))
                info['gen_lines'] = [first_gen, len(out_lines)]
                infos.append(info)
    gen = '\n'.join(l[0] for l in out_lines) + '\n'
    linemap = {}
    labels = {}
    for i, (ln, f, sl) in enumerate(out_lines, 1):
        if sl is not None:
            linemap[i] = [f, sl]
        m = LABEL_RX.search(ln)
        if m:
            labels[i] = m.group(1)
    for info in infos:
        a, b = info['gen_lines']
        info['labels'] = {str(i): labels[i] for i in range(a, b + 1) if i in labels}
    imports = check_imports(template_path, repo, infos, path_map)
    for info in infos:
        info.pop('src_text', None)
    return gen, {'functions': infos, 'linemap': linemap, 'labels': labels,
                 'template': template_path, 'canary': canary, 'imports': imports}


def check_imports(template_path, repo, infos, path_map, record=False):
    """The lifted text is function text; the meaning of its free identifiers comes from the file's `use` declarations,
    which are NOT lifted.  Each unit therefore records the top-level import bindings of every file it lifts from
    (contracts/<unit>/imports.json, written by `lift.py --record-imports` on the unchanged tree).  If a binding whose name
    occurs in lifted text has changed (added, removed, or now bound to another path) and the unit has no `//@path` mapping
    for the new path, the unit's prelude no longer describes what the text means: LiftError (exit 2, undecided)."""
    udir = os.path.dirname(os.path.abspath(template_path))
    rec_path = os.path.join(udir, 'imports.json')
    files = sorted(set(i['file'] for i in infos if i.get('src_text') is not None))
    now = {}
    for f in files:
        now[f] = parse_imports(open(os.path.join(repo, f), encoding='utf-8').read())
    if record:
        json.dump(now, open(rec_path, 'w'), indent=1, sort_keys=True)
        return {'recorded': True, 'files': len(files)}
    if not os.path.exists(rec_path):
        return {'recorded': False}
    rec = json.load(open(rec_path))
    problems, followed = [], []
    for f in files:
        r0, n0 = rec.get(f), now[f]
        if r0 is None:
            problems.append('%s: no recorded imports' % f)
            continue
        texts = [i['src_text'] for i in infos if i['file'] == f and i.get('src_text')]
        for nm in sorted(set(r0) | set(n0)):
            if r0.get(nm) == n0.get(nm):
                continue
            if nm.startswith('*'):
                used = True
            else:
                rx = re.compile(r'(?<![A-Za-z0-9_])' + re.escape(nm) + r'(?![A-Za-z0-9_])')
                used = any(rx.search(t) for t in texts)
            if not used:
                continue
            newp = n0.get(nm)
            if r0.get(nm) is None and newp is not None and re.match(r'^(crate|super|self)::', newp):
                # a name that was not bound before, now imported from the crate ITSELF: the mirror's item of that name (if it
                # has one; otherwise the unit does not compile, exit 2) mirrors that very item -- nothing to follow
                followed.append('%s: `%s` newly imported from %s' % (f, nm, newp))
                continue
            if newp is not None and newp in path_map:
                followed.append('%s: `%s` now bound to %s (followed as %s)' % (f, nm, newp, path_map[newp]))
                continue
            problems.append('%s: import of `%s` changed: %s -> %s' % (f, nm, r0.get(nm), newp))
    if problems:
        raise LiftError('imports changed for names the lifted text uses (the unit\'s mirror describes the recorded imports): ' + '; '.join(problems))
    return {'recorded': True, 'files': len(files), 'followed': followed}


def main(argv):
    import argparse
    ap = argparse.ArgumentParser()
    ap.add_argument('template')
    ap.add_argument('--repo', default='/repo')
    ap.add_argument('--out')
    ap.add_argument('--canary', action='store_true')
    ap.add_argument('--record-imports', action='store_true')
    a = ap.parse_args(argv)
    if a.record_imports:
        text = expand_includes(open(a.template, encoding='utf-8').read(), os.path.dirname(os.path.dirname(os.path.dirname(os.path.abspath(a.template)))))
        items = parse_template('\n'.join(l for l in text.split('\n') if l.strip() not in ('//@canary-begin', '//@canary-end')))
        infos = []
        for k_, v_ in items:
            if k_ == 'lift':
                infos.append({'file': v_.head['file'], 'src_text': ''})
        print(check_imports(a.template, a.repo, infos, {}, record=True))
        return 0
    try:
        gen, meta = build_unit(a.template, a.repo, canary=a.canary)
    except LiftError as e:
        print("LIFT-ERROR: %s" % e, file=sys.stderr)
        return 2
    open(a.out, 'w').write(gen)
    json.dump(meta, open(a.out + '.map.json', 'w'), indent=1)
    return 0


if __name__ == '__main__':
    sys.exit(main(sys.argv[1:]))
