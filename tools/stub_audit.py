#!/usr/bin/env python3
"""stub_audit -- which units discharge the contracts a property's units only ASSUME?

For every property P and every unit U in P's unit list, collect the `external_body` stubs in U (and its includes) whose name
is the name of a function of /repo that some other unit W lifts (`//@lift ... fn=NAME`).  If W is not in P's unit list, the
property's check relies on a contract it never re-checks: a change that breaks F's contract in W is reported under W's
properties only.  Output is a listing to be read (generic names such as new / from / parse are noisy), not a verdict.
Waivers (read and judged irrelevant) live in contracts/stub_audit_waivers.json: {"Cxx": {"W": "reason"}}.
"""
import json, os, re, sys
V = os.path.dirname(os.path.dirname(os.path.abspath(__file__)))
reg = json.load(open(os.path.join(V, 'contracts', 'registry.json')))
wv_p = os.path.join(V, 'contracts', 'stub_audit_waivers.json')
waivers = json.load(open(wv_p)) if os.path.exists(wv_p) else {}
NOISY = {'new', 'from', 'into', 'default', 'clone', 'next', 'len', 'view'}

def text_of(unit):
    p = os.path.join(V, 'contracts', unit, 'unit.rs')
    if not os.path.exists(p):
        return ''
    s = open(p).read()
    for m in re.finditer(r'^//@include (\S+)', s, re.M):
        q = os.path.join(V, m.group(1))
        if os.path.exists(q):
            s += open(q).read()
    return s

lifts, stubs = {}, {}
for u in reg['units']:
    t = text_of(u)
    for m in re.finditer(r'^//@lift\b.*?\bfn=(\w+)', t, re.M):
        lifts.setdefault(m.group(1), set()).add(u)
    for m in re.finditer(r'^//@lift\s+name=(\w+)\s+file=\S+\s+fn=', t, re.M):
        lifts.setdefault(m.group(1), set()).add(u)
    stubs[u] = set(re.findall(r'external_body\]\s*(?:pub\s+)?fn\s+(\w+)', t))
rc = 0
for p, cfg in sorted(reg['properties'].items()):
    mine = set(cfg['units'])
    missing = {}
    for u in cfg['units']:
        for s in stubs.get(u, ()):
            if s in NOISY:
                continue
            for w in lifts.get(s, ()):
                if w not in mine and w != u and w not in waivers.get(p, {}):
                    missing.setdefault(w, set()).add('%s (stub in %s)' % (s, u))
    for w, why in sorted(missing.items()):
        print('%s: unit %s discharges contract(s) its check only assumes: %s' % (p, w, ', '.join(sorted(why))))
        rc = 1
sys.exit(rc if '--strict' in sys.argv else 0)
