use ldap3::LdapConnAsync;
#[test]
fn what_the_url_crate_says() {
    for u in ["ldap:///", "ldap://", "ldap:foo", "ldap://:1389/", "ldaps:///", "ldap://host"] {
        match url::Url::parse(u) { Ok(p) => println!("{:<16} host_str={:?} port={:?}", u, p.host_str(), p.port()), Err(e) => println!("{:<16} parse error {:?}", u, e) }
    }
}
async fn try_url(u: &'static str) -> Result<String, String> {
    let h = tokio::spawn(async move { LdapConnAsync::new(u).await.map(|_| ()).map_err(|e| e.to_string()) });
    match h.await { Ok(r) => Ok(format!("{:?}", r)), Err(e) => Err(format!("PANIC {:?}", e)) }
}
#[tokio::test]
async fn no_url_makes_setup_panic() {
    let mut bad = 0;
    for u in ["ldap:///", "ldap://:1/", "ldap:foo"] {
        let r = try_url(u).await;
        println!("{:<14} -> {:?}", u, r);
        if r.is_err() { bad += 1; }
    }
    assert_eq!(bad, 0);
}
